#!/bin/sh
# Offline set-up: nothing to build (Python harness + TLA+ specs); check the tools and parse every specification.
cd "$(dirname "$0")" || exit 2
command -v java >/dev/null || { echo "java missing"; exit 2; }
test -f /opt/veriftools/tla/tla2tools.jar || { echo "tla2tools.jar missing"; exit 2; }
/venv/bin/python -c "import numpy, tomli, tomli_w" || exit 2
mkdir -p evidence replays
rc=0
cd spec && for f in *.tla; do
  case "$f" in Trace*) continue;; esac
  java -cp /opt/veriftools/tla/tla2tools.jar:/opt/veriftools/tla/CommunityModules-deps.jar tla2sany.SANY "$f" > /tmp/sany.$$ 2>&1 || { echo "SANY failed on $f"; tail -5 /tmp/sany.$$; rc=2; }
done
rm -f /tmp/sany.$$
exit $rc
