---------------------------- MODULE InfretisOps ----------------------------
(* Constant-level operators shared by the system specification (Infretis.tla) *)
(* and by the trace specification (TraceInfretis.tla).  Weight matrices are    *)
(* functions  slot -> ensemble -> Nat  (row i = weights of the path in slot i).*)
EXTENDS Integers, Sequences, FiniteSets, TLC, Rat, PermOps

CONSTANTS N            \* ensembles 0..N-1 : 0 = [0-], 1 = [0+], 2 = [1+], ...

Ens   == 0..(N-1)
Plus  == 1..(N-1)
None  == -1

IdleOf(lk)    == Ens \ lk
SeqSet(s)     == {s[k] : k \in 1..Len(s)}
Swap(sl, i, e) == [sl EXCEPT ![e] = sl[i], ![i] = sl[e]]

(* the support of the exact P: cells with weight whose minor still has a matching *)
SupportM(m, lk) ==
  {c \in IdleOf(lk) \X IdleOf(lk) :
     /\ m[c[1]][c[2]] > 0
     /\ Matchable(m, IdleOf(lk) \ {c[1]}, IdleOf(lk) \ {c[2]})}
CanDrawM(m, lk) == Matchable(m, IdleOf(lk), IdleOf(lk))

PNumM(m, lk) == [i \in Ens |-> [e \in Ens |->
     IF i \in lk \/ e \in lk \/ m[i][e] = 0 THEN 0
     ELSE m[i][e] * PermRC(m, IdleOf(lk) \ {i}, IdleOf(lk) \ {e})]]
PDenM(m, lk) == PermRC(m, IdleOf(lk), IdleOf(lk))

Perms == {p \in [Ens -> Ens] : \A a, b \in Ens : a # b => p[a] # p[b]}
RemoveFirst(s, v) == LET k == CHOOSE x \in 1..Len(s) : s[x] = v
                     IN SubSeq(s, 1, k - 1) \o SubSeq(s, k + 1, Len(s))
=============================================================================
