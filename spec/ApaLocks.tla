------------------------------ MODULE ApaLocks ------------------------------
(***************************************************************************)
(* C03, the sequence-free core of the lock protocol of Infretis.tla, typed   *)
(* for Apalache: a worker picks one idle ensemble, or the idle pair          *)
(* {[0-], [0+]} for a zero swap, marks what it picked busy and releases      *)
(* exactly that when its job completes.  The number of ensembles N and of    *)
(* workers W are symbolic (1..MaxN, 1..MaxW); the invariant is inductive:    *)
(* the busy marks are exactly the ensembles held by the jobs in flight and   *)
(* no ensemble is held twice, for every N and W.  The binding to the code is *)
(* that of the trace clauses P_EnsIdle / P_Holds / C_Unlock / C_ListedAreBusy*)
(* of TraceInfretis.tla.                                                     *)
(***************************************************************************)
EXTENDS Integers, FiniteSets

MaxN == 7
MaxW == 5

CONSTANTS
  \* @type: Int;
  N,
  \* @type: Int;
  W

VARIABLES
  \* @type: Set(Int);
  lock,
  \* @type: Int -> Set(Int);
  held

ConstInit == N \in 2..MaxN /\ W \in 1..MaxW

Ens  == {e \in 0..(MaxN - 1) : e < N}
Pins == {p \in 1..MaxW : p <= W}

Init == /\ lock = {}
        /\ held = [p \in 1..MaxW |-> {}]

Pick(p, E) ==
  /\ p \in Pins /\ held[p] = {}
  /\ E # {} /\ E \subseteq Ens /\ E \cap lock = {}
  /\ (Cardinality(E) = 1 \/ E = {0, 1})
  /\ lock' = lock \cup E
  /\ held' = [held EXCEPT ![p] = E]

Complete(p) ==
  /\ p \in Pins /\ held[p] # {}
  /\ lock' = lock \ held[p]
  /\ held' = [held EXCEPT ![p] = {}]

Next == \/ \E p \in 1..MaxW : \E E \in SUBSET (0..(MaxN - 1)) : Pick(p, E)
        \/ \E p \in 1..MaxW : Complete(p)

TypeOK == /\ lock \subseteq Ens
          /\ held \in [1..MaxW -> SUBSET (0..(MaxN - 1))]
          /\ \A p \in 1..MaxW : held[p] \subseteq Ens /\ (p \notin Pins => held[p] = {})
LocksExact == lock = UNION {held[p] : p \in 1..MaxW}
Exclusive  == \A p, q \in 1..MaxW : p # q => held[p] \cap held[q] = {}
ZeroSwapWhole == \A p \in 1..MaxW : Cardinality(held[p]) <= 1 \/ held[p] = {0, 1}
IndInv == TypeOK /\ LocksExact /\ Exclusive /\ ZeroSwapWhole
IndInit == /\ lock \in SUBSET (0..(MaxN - 1))
           /\ held \in [1..MaxW -> SUBSET (0..(MaxN - 1))]
           /\ IndInv
=============================================================================
