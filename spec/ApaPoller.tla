---------------------------- MODULE ApaPoller ----------------------------
(* Typed instance of Poller.tla for Apalache: the reader clauses of C13 and the engine clauses of C12  *)
(* as an inductive invariant, for EVERY number of frames, units per frame, stop position and length    *)
(* limit (the constants are left symbolic, only constrained to be positive).                           *)
EXTENDS Integers, Sequences, FiniteSets

CONSTANTS
  \* @type: Int;
  F,
  \* @type: Int;
  U,
  \* @type: Int;
  MaxPolls,
  \* @type: Int;
  StopAt,
  \* @type: Int;
  MaxLen,
  \* @type: Set(Int);
  ExitCodes

VARIABLES
  \* @type: Int;
  written,
  \* @type: Int;
  out,
  \* @type: Int;
  npoll,
  \* @type: Seq(Int);
  cuts,
  \* @type: Str;
  prog,
  \* @type: Int;
  code,
  \* @type: Int;
  path,
  \* @type: Str;
  result

INSTANCE Poller

ConstInit == /\ F \in 1..1000 /\ U \in 2..1000 /\ MaxPolls \in 1..1000 /\ StopAt \in 1..1001 /\ MaxLen \in 1..1001
             /\ ExitCodes = {0, 1}

(* the inductive invariant: types, ranges, and the clauses *)
IndInv ==
  /\ written \in 0..(F * U) /\ out \in 0..F /\ npoll \in 0..MaxPolls /\ path \in 0..(F + 1000)
  /\ prog \in {"running", "exited", "killed"} /\ result \in {"none", "success", "maxlen", "raised"}
  /\ code \in {0, 1}
  /\ out <= (written + 1) \div U                                   \* NoTornFrame
  /\ (result = "success") => path = StopAt                          \* StopsAtFirstOutside
  /\ (result \in {"success", "maxlen"}) => prog # "running"         \* ProgramStopped
IndInit == IndInv /\ cuts = <<>>
==========================================================================
