------------------------------ MODULE Lattice ------------------------------
(***************************************************************************)
(* C01.  The model whose answers are known in closed form: the symmetric     *)
(* +-1 walk on 0..K (the lattice plug-in engine).  h(x) = probability to     *)
(* reach K before 0 from x solves h(x) = (h(x-1) + h(x+1))/2, h(0) = 0,      *)
(* h(K) = 1; TLC checks with exact rationals that h(x) = x/K is that         *)
(* solution and that the conditional crossing probabilities of interfaces    *)
(* placed at k + 1/2 are P(lambda_{k+1} | lambda_k) = (k+1)/(k+2).           *)
(* Together with the detailed balance of the moves (Moves.tla) and the       *)
(* exact P of infinite swapping (Perm.tla) this is what "unbiased" means for *)
(* the recorded runs whose estimators the harness compares with these values.*)
(***************************************************************************)
EXTENDS Integers, Sequences, TLC, Rat

CONSTANTS MaxK
VARIABLES K, done
vars == <<K, done>>

H(x, k) == RMk(x, k)                                   \* claimed solution
Init == K \in 2..MaxK /\ done = FALSE
Apply == ~done /\ done' = TRUE /\ UNCHANGED K
Spec == Init /\ [][Apply]_vars

Harmonic == \A x \in 1..(K-1) : REq(RMul(RInt(2), H(x, K)), RAdd(H(x-1, K), H(x+1, K)))
Boundary == REq(H(0, K), RZero) /\ REq(H(K, K), ROne)
(* a path that has just crossed lambda_0 sits at x = 1; reaching lambda_k means reaching x = k+1 *)
ReachFromFirst(k) == RMk(1, k + 1)                     \* P(reach x = k+1 before 0 | at x = 1) = 1/(k+1)
CrossingLaw == \A k \in 0..(K-2) : REq(RDiv(ReachFromFirst(k + 1), ReachFromFirst(k)), RMk(k + 1, k + 2))
ReachIsGamblersRuin == \A k \in 0..(K-1) : REq(ReachFromFirst(k), H(1, k + 1))
=============================================================================
