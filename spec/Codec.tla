------------------------------- MODULE Codec -------------------------------
(***************************************************************************)
(* C19.  Trajectory codecs and input templates as abstract data types.       *)
(*                                                                           *)
(* A trajectory file is a sequence of frames; a frame is [ids, pos, vel,     *)
(* box] over values on the decimal grid of the format (the harness realises  *)
(* a value class as the double nearest to a decimal string with the format's *)
(* number of digits).  Every initial state is one case: a format, a file     *)
(* shape, a value class and an operation; Apply states the law the result    *)
(* must obey, in terms of the frames written.                                *)
(*                                                                           *)
(* A template is a sequence of lines key = value / comment; Edit(settings)   *)
(* changes exactly the requested entries, appends missing keys once and is   *)
(* idempotent.                                                               *)
(***************************************************************************)
EXTENDS Integers, Sequences, FiniteSets, TLC

CONSTANTS Formats, MaxAtoms, MaxFrames, ValClasses

VARIABLES c, law, done
vars == <<c, law, done>>

TrajOps == {"roundtrip", "extract", "reverse", "append"}
TrajCases == [kind : {"traj"}, fmt : Formats, natoms : 1..MaxAtoms, nframes : 1..MaxFrames, k : 0..(MaxFrames-1),
              vals : ValClasses, permuted : BOOLEAN, triclinic : BOOLEAN, op : TrajOps]
TemplCases == [kind : {"template"}, nkeys : 0..3, duplicate : BOOLEAN, commented : BOOLEAN,
               set_existing : SUBSET (1..3), set_new : 0..2,
               final_newline : BOOLEAN,          \* does the template's last line end with a line terminator?
               eq_tail : {"none", "value", "comment"}]   \* the first key's line carries a second '=': in its value (-DPOSRES_FC=500) or in a trailing comment

(* CP2K inputs are section trees; an edit sets keywords of MOTION->MD, may add a section that does   *)
(* not exist yet and may remove MOTION->PRINT; results are compared as trees (sibling order is      *)
(* immaterial)                                                                                       *)
Cp2kKeys == {"STEPS", "TIMESTEP", "TEMPERATURE"}
(* kinds: how many sibling sections with the same title the template has under FORCE_EVAL->SUBSYS (&KIND H, &KIND O, &KIND C:  *)
(* told apart by their section parameter); edit_kind: the edit also sets a keyword of the last of them, addressed by title and   *)
(* parameter - every other sibling must stay as it was                                                                          *)
Cp2kCases == [kind : {"cp2k"}, present : SUBSET Cp2kKeys, update : SUBSET Cp2kKeys, has_print : BOOLEAN,
              add_section : BOOLEAN, remove_print : BOOLEAN, kinds : {0, 2, 3}, edit_kind : BOOLEAN]

(* A LAMMPS template declares variables `variable name index infretis_<x>`; write_for_run replaces the   *)
(* requested tokens.  defined: the variables the template declares; requested: the settings handed over; *)
(* again: declared variables whose token stands on a second line as well (used twice, or named in a      *)
(* comment); lookalike: a word that merely starts with a requested token shares a line with it.          *)
LmpVars == 1..3
LammpsCases == [kind : {"lammps"}, defined : SUBSET LmpVars, requested : SUBSET LmpVars, again : SUBSET LmpVars,
                again_in_comment : BOOLEAN, lookalike : BOOLEAN]

WellFormed(x) == IF x.kind = "cp2k" THEN (x.edit_kind => x.kinds >= 2) ELSE IF x.kind = "lammps" THEN x.again \subseteq x.defined ELSE IF x.kind = "traj"
                 THEN /\ x.k < x.nframes
                      /\ (x.fmt = "lammpstrj" => x.natoms >= 2)            \* its reader relies on 2-D tables
                      /\ (x.op = "append" => x.nframes >= 2)
                      /\ (x.fmt \in {"g96"} => x.nframes = 1 /\ x.op \in {"roundtrip", "reverse"})
                      /\ (x.fmt = "trr" => x.op \in {"roundtrip", "extract"})
                      /\ (x.triclinic => x.fmt \in {"g96", "trr"})
                 ELSE (\A i \in x.set_existing : i <= x.nkeys) /\ (x.eq_tail # "none" => x.nkeys >= 1)

Init == /\ done = FALSE /\ law = "?"
        /\ c \in {x \in TrajCases \cup TemplCases \cup Cp2kCases \cup LammpsCases : WellFormed(x)}
Apply == /\ ~done /\ done' = TRUE /\ UNCHANGED c
         /\ law' = IF c.kind = "lammps"
                   THEN IF c.requested \subseteq c.defined
                        THEN "every requested token replaced wherever it is a word, nothing else changed, same result when written again"
                        ELSE "a requested variable the template does not declare is an error"
                   ELSE IF c.kind = "cp2k" THEN "tree(edit(T)) = edit(tree(T)), idempotent"
                   ELSE IF c.kind = "template" THEN "edit-exactly-and-idempotent"
                   ELSE CASE c.op = "roundtrip" -> "read(write(F)) = F"
                          [] c.op = "extract"   -> "extract(k)(F) = <<F[k]>>"
                          [] c.op = "reverse"   -> "vel negated, nothing else"
                          [] c.op = "append"    -> "read(k)(write(F1) ; append(F2..)) = F[k]"
Next == Apply
Spec == Init /\ [][Next]_vars
LawStated == done => law # "?"
=============================================================================
