------------------------------- MODULE WfMove -------------------------------
(***************************************************************************)
(* C09 / C10.  The wire-fencing move over the lattice engine as a case       *)
(* enumeration (spec -> code), for one jump.  The ensemble is (L, M, R) as   *)
(* in Moves.tla (left stop x <= L, own interface crossed when x >= M, right  *)
(* stop x >= R); the fence is [M, C): a frame is inside the fence iff        *)
(* M <= x < C, with the cap C <= R.                                          *)
(*                                                                           *)
(* One case: the old path, which of its counted fence segments is picked,    *)
(* the shooting frame inside that segment, scripted steps for the two halves *)
(* of the sub-move and for the backward and forward extension, and the       *)
(* length limit.  Apply computes what the property demands:                  *)
(*   - the sub-move shoots from a frame inside the fence and walks both ways *)
(*     until it leaves the fence; it counts if both halves leave the fence   *)
(*     within the limit and the new segment touches the left side;           *)
(*   - the segment is extended backward and forward until it leaves the      *)
(*     ensemble's own region (L, R);                                         *)
(*   - the result is time-reversed if it starts on the right; it is accepted *)
(*     if it then starts on the left and is shorter than the limit.          *)
(* A complete path of exactly `maxlength` frames is a don't-care ("free").   *)
(***************************************************************************)
EXTENDS LatticeOps

CONSTANTS L, M, R, C, Wall, MaxOld, NSteps, MaxLengths

VARIABLES old, pick, idx, sb, sf, eb, ef, maxlength, done, res
vars == <<old, pick, idx, sb, sf, eb, ef, maxlength, done, res>>

InFence(x) == M <= x /\ x < C
(* counted fence segments of a path, in path order, as <<first, last>> (1-based, with the two boundary frames) *)
Runs(s) == {ab \in (2..(Len(s)-1)) \X (2..(Len(s)-1)) :
              /\ ab[1] <= ab[2] /\ \A k \in ab[1]..ab[2] : InFence(s[k])
              /\ ~InFence(s[ab[1]-1]) /\ ~InFence(s[ab[2]+1])}
FromRight(x) == x >= C
Counted(s) == {ab \in Runs(s) : ~(FromRight(s[ab[1]-1]) /\ FromRight(s[ab[2]+1]))}
RECURSIVE SortRuns(_)
SortRuns(S) == IF S = {} THEN <<>> ELSE
               LET m == CHOOSE x \in S : \A y \in S : x[1] <= y[1]
               IN <<<<m[1] - 1, m[2] + 1>>>> \o SortRuns(S \ {m})
Segments(s) == SortRuns(Counted(s))

Sites == L..R
OldPaths == {p \in UNION {[1..k -> Sites] : k \in 3..MaxOld} :
               /\ MemberPlus(p, L, M, R)
               /\ \A k \in 1..(Len(p)-1) : p[k+1] - p[k] \in {-1, 1}
               /\ Segments(p) # <<>>}
StepSeqs == [1..NSteps -> {-1, 1}]

Limited(w, limit) == IF Len(w[1]) > limit THEN <<SubSeq(w[1], 1, limit), FALSE>> ELSE w
Trunc(s, n) == IF Len(s) > n THEN SubSeq(s, 1, n) ELSE s
(* realisable with NSteps scripted steps: the walk ends inside the script, or the limit cuts it there *)
Scripted(x0, steps, l, r, limit) == Walk(x0, steps, l, r, Wall)[2] \/ limit <= NSteps + 1

Result(o, pk, ix, b1, f1, b2, f2, ml) ==
  LET sg    == Segments(o)[pk]
      seg   == SubSeq(o, sg[1], sg[2])
      xs    == seg[ix]
      wb    == Limited(Walk(xs, b1, M - 1, C, Wall), ml - 1)
      wf    == Limited(Walk(xs, f1, M - 1, C, Wall), ml - Len(wb[1]) + 1)
      trial == RevSeq(wb[1]) \o Tail(wf[1])
      okSub == wb[2] /\ wf[2] /\ SeqMinI(trial) <= M - 1
      first == trial[1]
      needB == okSub /\ In(first, L, R)
      wbk   == Limited(Walk(first, b2, L, R, Wall), ml)
      past  == IF needB THEN Trunc(RevSeq(wbk[1]) \o Tail(trial), ml) ELSE trial
      last  == past[Len(past)]
      needF == okSub /\ In(last, L, R)
      wfw   == Limited(Walk(last, f2, L, R, Wall), ml)
      full  == IF needF THEN SubSeq(past, 1, Len(past) - 1) \o wfw[1] ELSE past
      whole == (needB => wbk[2]) /\ (needF => wfw[2])
      final == IF OutL(full[1], L) THEN full ELSE RevSeq(full)
      member == whole /\ MemberPlus(final, L, M, R)
  IN [seg |-> seg, sub |-> trial, okSub |-> okSub, needB |-> needB, needF |-> needF,
      scripted |-> /\ Scripted(xs, b1, M - 1, C, ml - 1) /\ Scripted(xs, f1, M - 1, C, ml - Len(wb[1]) + 1)
                   /\ (needB => Scripted(first, b2, L, R, ml)) /\ (needF => Scripted(last, f2, L, R, ml)),
      path |-> final,
      verdict |-> IF ~okSub THEN "reject"
                  ELSE IF member /\ Len(final) < ml THEN "accept"
                  ELSE IF member /\ Len(final) = ml THEN "free" ELSE "reject"]

(* ---- several jumps: each sub-move shoots from the segment the last successful one left; at least one must succeed ---- *)
SubMove(seg, ix, b1, f1, ml) ==
  LET xs    == seg[ix]
      wb    == Limited(Walk(xs, b1, M - 1, C, Wall), ml - 1)
      wf    == Limited(Walk(xs, f1, M - 1, C, Wall), ml - Len(wb[1]) + 1)
      trial == RevSeq(wb[1]) \o Tail(wf[1])
  IN [trial |-> trial, backOk |-> wb[2], ok |-> wb[2] /\ wf[2] /\ SeqMinI(trial) <= M - 1,
      scripted |-> Scripted(xs, b1, M - 1, C, ml - 1) /\ (wb[2] => Scripted(xs, f1, M - 1, C, ml - Len(wb[1]) + 1))]
Extend(seg, b2, f2, ml) ==
  LET first == seg[1]
      needB == In(first, L, R)
      wbk   == Limited(Walk(first, b2, L, R, Wall), ml)
      past  == IF needB THEN Trunc(RevSeq(wbk[1]) \o Tail(seg), ml) ELSE seg
      last  == past[Len(past)]
      needF == In(last, L, R)
      wfw   == Limited(Walk(last, f2, L, R, Wall), ml)
      full  == IF needF THEN SubSeq(past, 1, Len(past) - 1) \o wfw[1] ELSE past
      final == IF OutL(full[1], L) THEN full ELSE RevSeq(full)
  IN [needB |-> needB, needF |-> needF, path |-> final,
      member |-> (needB => wbk[2]) /\ (needF => wfw[2]) /\ MemberPlus(final, L, M, R),
      scripted |-> (needB => Scripted(first, b2, L, R, ml)) /\ (needF => Scripted(last, f2, L, R, ml))]
(* a case of two jumps: <<old, pick, ix1, b1, f1, ix2, b2, f2, eb, ef, ml>> *)
Result2(c) ==
  LET o == c[1]  ml == c[11]
      sg   == Segments(o)[c[2]]
      seg0 == SubSeq(o, sg[1], sg[2])
      ok1i == c[3] >= 2 /\ c[3] <= Len(seg0) - 1
      j1   == IF ok1i THEN SubMove(seg0, c[3], c[4], c[5], ml) ELSE [trial |-> seg0, backOk |-> FALSE, ok |-> FALSE, scripted |-> FALSE]
      seg1 == IF j1.ok THEN j1.trial ELSE seg0
      ok2i == c[6] >= 2 /\ c[6] <= Len(seg1) - 1
      j2   == IF ok2i THEN SubMove(seg1, c[6], c[7], c[8], ml) ELSE [trial |-> seg1, backOk |-> FALSE, ok |-> FALSE, scripted |-> FALSE]
      seg2 == IF j2.ok THEN j2.trial ELSE seg1
      any  == j1.ok \/ j2.ok
      ex   == Extend(seg2, c[9], c[10], ml)
  IN [feasible |-> ok1i /\ ok2i /\ j1.scripted /\ j2.scripted /\ (any => ex.scripted),
      back1 |-> j1.backOk, back2 |-> j2.backOk, ok1 |-> j1.ok, ok2 |-> j2.ok, seglen1 |-> Len(seg1),
      needB |-> any /\ ex.needB, needF |-> any /\ ex.needF, path |-> ex.path, sub |-> seg2,
      verdict |-> IF ~any THEN "reject"
                  ELSE IF ex.member /\ Len(ex.path) < ml THEN "accept"
                  ELSE IF ex.member /\ Len(ex.path) = ml THEN "free" ELSE "reject"]

Init == /\ old \in OldPaths
        /\ pick \in 1..Len(Segments(old))
        /\ idx \in 2..(Segments(old)[pick][2] - Segments(old)[pick][1])      \* an interior frame of the segment
        /\ sb \in StepSeqs /\ sf \in StepSeqs /\ eb \in StepSeqs /\ ef \in StepSeqs
        /\ maxlength \in MaxLengths
        /\ Result(old, pick, idx, sb, sf, eb, ef, maxlength).scripted
        /\ done = FALSE /\ res = <<>>
Apply == /\ ~done /\ done' = TRUE
         /\ res' = Result(old, pick, idx, sb, sf, eb, ef, maxlength)
         /\ UNCHANGED <<old, pick, idx, sb, sf, eb, ef, maxlength>>
Next == Apply
Spec == Init /\ [][Next]_vars

(* what the property promises about every accepted wire-fencing move *)
AcceptedIsMember == (done /\ res.verdict = "accept") =>
   /\ MemberPlus(res.path, L, M, R) /\ Len(res.path) <= maxlength
   /\ \A k \in 1..(Len(res.path)-1) : res.path[k+1] - res.path[k] \in {-1, 0, 1}
(* the accepted path contains the new segment (possibly time reversed) *)
Contains(p, s) == \E off \in 0..(Len(p) - Len(s)) : \A k \in 1..Len(s) : p[off + k] = s[k]
AcceptedContainsSegment == (done /\ res.verdict = "accept") => (Contains(res.path, res.sub) \/ Contains(res.path, RevSeq(res.sub)))
(* the shooting frame lies inside the fence *)
ShotFromFence == done => InFence(res.seg[idx])
=============================================================================
