SPECIFICATION Spec
CONSTANTS
  F = 3
  U = 6
  MaxPolls = 4
  StopAt = 3
  MaxLen = 5
  ExitCodes = {0, 1}
INVARIANT NoTornFrame
INVARIANT EachOnce
INVARIANT StopsAtFirstOutside
INVARIANT ProgramStopped
INVARIANT FailureRaises
CHECK_DEADLOCK FALSE
