------------------------------- MODULE Crash -------------------------------
(***************************************************************************)
(* C08.  The persistence protocol of the main process, at the grain of its  *)
(* file-system effects, with a crash between any two of them (or half-way   *)
(* through a file) and the recovery that `setup_config` / `setup_internal`   *)
(* perform from what is on disk.                                            *)
(*                                                                           *)
(* What one completed move does to the disk (repex.py treat_output), per     *)
(* picked ensemble k (one, or two for a zero swap):                          *)
(*   Store   the files of the new path go to load_dir/<number>/              *)
(*           (PathStorage.output: several effects, not atomic)               *)
(*   Retire  with delete_old: if more than QueueLen replaced paths of this   *)
(*           run are kept, the oldest one's files are deleted; then the      *)
(*           replaced path joins the queue (initial paths never do)          *)
(* and then, once:                                                           *)
(*   Row     one append to infretis_data.txt: a row per replaced path        *)
(*   Tmp     restart.toml.tmp is written                                     *)
(*   Replace os.replace(restart.toml.tmp, restart.toml)                      *)
(* A rejected move does Tmp, Replace only; so does every pick (the restart   *)
(* file then changes only in fields this model does not carry).              *)
(*                                                                           *)
(* Two switches turn the specification into the code before its repairs:     *)
(*   AtomicRestart = FALSE: restart.toml is rewritten in place (the code     *)
(*                   before fix 9b725dc) - TLC refutes Startable;            *)
(*   Prune = FALSE:  a restart keeps every row of the data file (the code    *)
(*                   before the prune_data_file fix) - TLC refutes RowsOnce. *)
(* A third switch, AtomicPrune = FALSE, writes the pruned data file in place *)
(* (truncate, then write): a second crash in between loses every earlier row *)
(* - TLC refutes RowsOnce; the code goes through a temporary file.           *)
(* With both TRUE (the current tree) every invariant holds for every crash   *)
(* point and every chain of crashes within the bounds; with QueueLen = 0     *)
(* (a queue shorter than the code's n-2 >= 1) TLC refutes Startable, which   *)
(* is why the deferred deletion is deferred.                                 *)
(*                                                                           *)
(* The disk is one record and every effect is an operator on it, so that the *)
(* trace specification (TraceCrash.tla) applies the very same operators to   *)
(* the effects recorded from the real program.                              *)
(***************************************************************************)
EXTENDS Integers, Sequences, FiniteSets, TLC

CONSTANTS N0,            \* paths 0..N0-1 are live and stored when the run starts
          MaxPn,         \* path numbers stay below MaxPn
          MaxCrashes,
          MaxSteps,      \* completed moves per run (bounds cstep)
          QueueLen,      \* delete_old: replaced paths kept before the oldest is deleted (the code: n-2); -1: delete_old off
          Prune, AtomicRestart,
          AtomicPrune    \* FALSE: the pruned data file is written in place (truncate, then write)

NoFile == [kind |-> "none", active |-> {}, next |-> 0, cstep |-> 0]
Torn   == [kind |-> "torn", active |-> {}, next |-> 0, cstep |-> 0]
TORNROW == -1

VARIABLES up,       \* the process is alive
          mem,      \* [active, next, cstep, queue] - lost in a crash
          pc,       \* "idle" | "store" | "retire" | "row" | "tmp" | "replace" | "ireplace" | "down"
          job,      \* [olds : Seq(path), news : Seq(path), acc : BOOLEAN, k : index of the picked ensemble being treated]
          disk,     \* [rows, restart, tmp, files, partial]
          ncrash
vars == <<up, mem, pc, job, disk, ncrash>>

Range(s) == {s[i] : i \in DOMAIN s}
Count(s, p) == Cardinality({i \in DOMAIN s : s[i] = p})
IsRec(x) == x.kind = "ok"
Snapshot(m) == [kind |-> "ok", active |-> m.active, next |-> m.next, cstep |-> m.cstep]
NoJob == [olds |-> <<>>, news |-> <<>>, acc |-> FALSE, k |-> 0]
NoMem == [active |-> {}, next |-> 0, cstep |-> 0, queue |-> <<>>, kept |-> <<>>]

(* ------------------------------------------------------------ effects on the disk *)
DiskInit(n) == [rows |-> <<>>, restart |-> NoFile, tmp |-> NoFile, files |-> 0..(n - 1), partial |-> {}]
MemInit(n)  == [active |-> 0..(n - 1), next |-> n, cstep |-> 0, queue |-> <<>>, kept |-> <<>>]
FxStorePart(d, p) == [d EXCEPT !.partial = @ \cup {p}, !.files = @ \ {p}]      \* an incomplete directory (also: a stale one being rewritten)
FxStoreDone(d, p) == [d EXCEPT !.files = @ \cup {p}, !.partial = @ \ {p}]
FxDelete(d, p)    == [d EXCEPT !.files = @ \ {p}]
FxRow(d, olds)    == [d EXCEPT !.rows = @ \o olds]
FxTornRow(d, olds, k) == [d EXCEPT !.rows = @ \o SubSeq(olds, 1, k) \o <<TORNROW>>]
FxTmp(d, m)       == IF AtomicRestart THEN [d EXCEPT !.tmp = Snapshot(m)] ELSE [d EXCEPT !.restart = Snapshot(m)]
FxTornTmp(d)      == IF AtomicRestart THEN [d EXCEPT !.tmp = Torn] ELSE [d EXCEPT !.restart = Torn]
FxReplace(d)      == IF AtomicRestart THEN [d EXCEPT !.restart = d.tmp, !.tmp = NoFile] ELSE d
KeepRow(r, rec)   == r # TORNROW /\ r \notin rec.active /\ r < rec.next
PruneRows(s, rec) == SelectSeq(s, LAMBDA r : KeepRow(r, rec))
FxRestart(d)      == IF Prune THEN [d EXCEPT !.rows = PruneRows(@, d.restart)] ELSE d
CanRestartFrom(d) == IsRec(d.restart) /\ d.restart.active \subseteq d.files
MemFrom(d)        == [active |-> d.restart.active, next |-> d.restart.next, cstep |-> d.restart.cstep, queue |-> <<>>, kept |-> <<>>]

(* the deferred deletion of delete_old, as the code orders it: delete the oldest if the queue is full, then join *)
Queued(o)      == QueueLen >= 0 /\ o >= N0
DueDelete(q, o) == Queued(o) /\ Len(q) > QueueLen
QueueAfter(q, o) == LET q1 == IF DueDelete(q, o) THEN Tail(q) ELSE q
                    IN IF Queued(o) /\ Len(q1) <= QueueLen THEN Append(q1, o) ELSE q1
JobOf(m, olds, acc) == [olds |-> olds, acc |-> acc, k |-> 1,
                        news |-> IF acc THEN [i \in 1..Len(olds) |-> m.next + i - 1] ELSE <<>>]
MemAfterMove(m, j) == [m EXCEPT !.active = (@ \ Range(j.olds)) \cup Range(j.news), !.next = @ + Len(j.news)]

Init == /\ up = TRUE /\ pc = "idle" /\ job = NoJob
        /\ mem = MemInit(N0)
        /\ disk = DiskInit(N0) /\ ncrash = 0

(* ------------------------------------------------------------------ one move *)
Begin(olds, acc) ==
  /\ up /\ pc = "idle" /\ mem.cstep < MaxSteps
  /\ Len(olds) \in {1, 2} /\ Range(olds) \subseteq mem.active /\ Cardinality(Range(olds)) = Len(olds)
  /\ mem.next + Len(olds) <= MaxPn
  /\ job' = JobOf(mem, olds, acc)
  /\ pc' = IF acc THEN "store" ELSE "tmp"
  /\ mem' = [mem EXCEPT !.cstep = @ + 1]
  /\ UNCHANGED <<up, disk, ncrash>>

StorePart ==          \* some, not all, of the files of the new path are in place
  /\ up /\ pc = "store" /\ job.news[job.k] \notin disk.partial
  /\ disk' = FxStorePart(disk, job.news[job.k])
  /\ UNCHANGED <<up, mem, pc, job, ncrash>>

StoreDone ==
  /\ up /\ pc = "store"
  /\ disk' = FxStoreDone(disk, job.news[job.k])
  /\ pc' = "retire"
  /\ UNCHANGED <<up, mem, job, ncrash>>

Retire ==
  /\ up /\ pc = "retire"
  /\ LET o == job.olds[job.k] IN
       /\ disk' = IF DueDelete(mem.queue, o) THEN FxDelete(disk, Head(mem.queue)) ELSE disk
       /\ LET m1 == [mem EXCEPT !.queue = QueueAfter(@, o)] IN
            IF job.k = Len(job.olds)
            THEN /\ mem' = MemAfterMove(m1, job) /\ pc' = "row" /\ UNCHANGED job
            ELSE /\ mem' = m1 /\ pc' = "store" /\ job' = [job EXCEPT !.k = @ + 1]
  /\ UNCHANGED <<up, ncrash>>

Row ==
  /\ up /\ pc = "row"
  /\ disk' = FxRow(disk, job.olds)
  /\ pc' = "tmp"
  /\ UNCHANGED <<up, mem, job, ncrash>>

Tmp ==
  /\ up /\ pc \in {"tmp", "idle"}
  /\ disk' = FxTmp(disk, mem)
  /\ pc' = IF pc = "tmp" THEN "replace" ELSE "ireplace"
  /\ UNCHANGED <<up, mem, job, ncrash>>

Replace ==
  /\ up /\ pc \in {"replace", "ireplace"}
  /\ disk' = FxReplace(disk)
  /\ pc' = "idle" /\ job' = NoJob
  /\ UNCHANGED <<up, mem, ncrash>>

(* ------------------------------------------------------------------ crashes *)
Down == /\ up' = FALSE /\ pc' = "down" /\ job' = NoJob /\ ncrash' = ncrash + 1 /\ mem' = NoMem

CrashClean ==         \* between two effects (before or after any of them)
  /\ up /\ ncrash < MaxCrashes /\ Down
  /\ UNCHANGED disk

CrashInRow ==         \* half-way through the append: some complete rows, then a cut-off line
  /\ up /\ pc = "row" /\ ncrash < MaxCrashes /\ Down
  /\ \E k \in 0..(Len(job.olds) - 1) : disk' = FxTornRow(disk, job.olds, k)

CrashInTmp ==         \* the file being written is created empty or cut off
  /\ up /\ pc \in {"tmp", "idle"} /\ ncrash < MaxCrashes /\ Down
  /\ disk' = FxTornTmp(disk)

(* ------------------------------------------------------------------ recovery *)
NeedsPrune(d) == Prune /\ PruneRows(d.rows, d.restart) # d.rows
Restart ==
  /\ ~up /\ CanRestartFrom(disk)
  /\ up' = TRUE /\ job' = NoJob
  /\ IF AtomicPrune \/ ~NeedsPrune(disk)
     THEN disk' = FxRestart(disk) /\ pc' = "idle" /\ mem' = MemFrom(disk)
     ELSE /\ disk' = [disk EXCEPT !.rows = <<>>] /\ pc' = "pruning"   \* the data file has just been truncated
          /\ mem' = [MemFrom(disk) EXCEPT !.kept = PruneRows(disk.rows, disk.restart)]
  /\ UNCHANGED ncrash

PruneWrite ==          \* only without AtomicPrune: the kept rows are written back into the truncated file
  /\ up /\ pc = "pruning"
  /\ disk' = [disk EXCEPT !.rows = mem.kept]
  /\ pc' = "idle" /\ mem' = [mem EXCEPT !.kept = <<>>]
  /\ UNCHANGED <<up, job, ncrash>>

AnyMove == \E a, b \in mem.active, acc \in BOOLEAN : Begin(<<a>>, acc) \/ (a < b /\ Begin(<<a, b>>, acc))
Next == \/ AnyMove
        \/ StorePart \/ StoreDone \/ Retire \/ Row \/ Tmp \/ Replace \/ PruneWrite
        \/ CrashClean \/ CrashInRow \/ CrashInTmp
        \/ Restart
Spec == Init /\ [][Next]_vars

(* ------------------------------------------------------------------ properties *)
TypeOK == /\ up \in BOOLEAN /\ pc \in {"idle", "store", "retire", "row", "tmp", "replace", "ireplace", "pruning", "down"}
          /\ disk.files \subseteq 0..(MaxPn - 1) /\ disk.partial \subseteq 0..(MaxPn - 1)

(* a restart from what is on disk starts: the restart file is whole and every path it needs is present *)
Startable == ~up => (disk.restart = NoFile \/ CanRestartFrom(disk))

(* no live path has lost files *)
LiveHaveFiles == up => mem.active \subseteq disk.files

(* between moves: every path that has left the live set has exactly one row, a live or unborn path none,  *)
(* and no cut-off line remains                                                                            *)
RowsOnce == (up /\ pc = "idle") =>
              /\ \A p \in 0..(MaxPn - 1) :
                   Count(disk.rows, p) = IF p < mem.next /\ p \notin mem.active THEN 1 ELSE 0
              /\ Count(disk.rows, TORNROW) = 0

(* the restart file never runs ahead of the stored files *)
RestartBehindDisk == IsRec(disk.restart) => disk.restart.active \subseteq disk.files

(* between moves the restart file is the memory: a restart loses nothing but the move in flight *)
RestartIsLastStep == (up /\ pc = "idle" /\ IsRec(disk.restart)) => Snapshot(mem) = disk.restart
=============================================================================
