------------------------------- MODULE Config -------------------------------
(***************************************************************************)
(* C18.  Which configurations must be rejected up front.                     *)
(*                                                                           *)
(* A configuration is the record of the validated fields.  Interface values  *)
(* are small integers (the harness maps k to k + 0.5); `cap` and `lm1` are   *)
(* integers in twice that resolution (half steps), None = absent.            *)
(* Every initial state is one configuration; Apply computes the verdict the  *)
(* property demands: "reject" (a configuration error before sampling starts) *)
(* or "free" (valid as far as the property goes: if the program accepts it,  *)
(* it must initialise).                                                      *)
(***************************************************************************)
EXTENDS Integers, Sequences, FiniteSets, TLC

CONSTANTS IntfVals, MaxIntf, WorkerVals, MoveLens, CapVals, Lm1Vals, None

VARIABLES cfg, verdict, done
vars == <<cfg, verdict, done>>

IntfLists == UNION {[1..k -> IntfVals] : k \in 0..MaxIntf}
(* move patterns: all shooting, or wire fencing from ensemble index `wf` on *)
MovesOf(len, wf) == [k \in 1..len |-> IF wf > 0 /\ k >= wf THEN "wf" ELSE "sh"]

Sorted(s)   == \A a, b \in 1..Len(s) : a < b => s[a] <= s[b]
Distinct(s) == \A a, b \in 1..Len(s) : a # b => s[a] # s[b]

(* half-step scale: interface k sits at 2k+1, so that caps between interfaces exist *)
Pos(k) == 2 * k + 1

Valid(c) ==
  LET n == Len(c.intf) IN
  /\ n >= 2
  /\ Sorted(c.intf) /\ Distinct(c.intf)
  /\ c.workers <= n - 1
  /\ Len(c.moves) >= n
  /\ c.cap # None =>
        /\ c.cap >= Pos(c.intf[1]) /\ c.cap <= Pos(c.intf[n])
        \* a wire-fencing ensemble needs room: ensemble k+1 (k = 1..n-1) works on [lambda_k, cap)
        /\ \A k \in 1..(n-1) : (k + 1 <= Len(c.moves) /\ c.moves[k+1] = "wf") => c.cap > Pos(c.intf[k])
  /\ c.engines # "none"                                 \* every engine an ensemble uses has a section:
  /\ c.quantis => c.engines = "both"                     \* QuanTIS runs [0-] with its own engine, `engine0`
  /\ c.lm1 # None => c.lm1 < Pos(c.intf[1])

(* Fields the property does not list among the reasons to reject, but which an accepted configuration must survive:          *)
(* `pattern` (output.pattern, the worker-timing file whose header is written at set-up) and `ee`, an explicit                 *)
(* simulation.ensemble_engines list: absent ("default"), one entry per ensemble ("full") or one entry too few ("short").      *)
(* They are varied on top of otherwise plain configurations only (no cap, no lambda_-1, shooting everywhere, engine defined). *)
Plain(wf, cap, lm1, eng, q) == wf = 0 /\ cap = None /\ lm1 = None /\ eng = "main" /\ q = FALSE
Init == /\ done = FALSE /\ verdict = "?"
        /\ \E il \in IntfLists, w \in WorkerVals, ml \in MoveLens, wf \in {0, 2, 3}, cap \in CapVals, lm1 \in Lm1Vals,
              eng \in {"none", "main", "both"}, q \in BOOLEAN, pat \in BOOLEAN, ee \in {"default", "full", "short"} :
             /\ (pat \/ ee # "default") => Plain(wf, cap, lm1, eng, q)
             /\ cfg = [intf |-> il, workers |-> w, moves |-> MovesOf(ml, wf), cap |-> cap, lm1 |-> lm1,
                       engines |-> eng, quantis |-> q, pattern |-> pat, ee |-> ee]
Apply == /\ ~done /\ done' = TRUE
         /\ verdict' = IF Valid(cfg) THEN "free" ELSE "reject"
         /\ UNCHANGED cfg
Next == Apply
Spec == Init /\ [][Next]_vars

(* sanity of the model itself *)
RejectHasReason == (done /\ verdict = "reject") =>
   LET n == Len(cfg.intf) IN
   \/ n < 2 \/ ~Sorted(cfg.intf) \/ ~Distinct(cfg.intf) \/ cfg.workers > n - 1 \/ Len(cfg.moves) < n
   \/ cfg.engines = "none" \/ (cfg.quantis /\ cfg.engines # "both") \/ cfg.cap # None \/ cfg.lm1 # None
=============================================================================
