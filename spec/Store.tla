------------------------------- MODULE Store -------------------------------
(***************************************************************************)
(* C14.  The path archive: which directories exist under load/, when the    *)
(* files of a replaced path may disappear, and which path shapes must       *)
(* survive a store/load round trip.                                          *)
(*                                                                           *)
(* Deletion (Layer I, repex.py treat_output with delete_old): a replaced,    *)
(* non-initial path enters a FIFO; when the FIFO already holds Lag entries   *)
(* the oldest one's files are removed.  Layer R: DeleteSafe, InitialKept,    *)
(* LagRespected.                                                             *)
(***************************************************************************)
EXTENDS Integers, Sequences, FiniteSets, TLC

CONSTANTS N,        \* ensembles; initial paths are 0..N-1
          MaxPn,    \* bound on path numbers
          Lag,      \* number of further eligible replacements a replaced path survives (code: N)
          DeleteOld \* BOOLEAN

VARIABLES live,     \* set of live path numbers
          stored,   \* set of path numbers whose files are on disk
          fifo,     \* Seq of replaced path numbers waiting for deletion
          nextpn,
          since     \* [pn -> number of eligible replacements since pn was replaced] (history)
vars == <<live, stored, fifo, nextpn, since>>

Init == /\ live = 0..(N-1) /\ stored = 0..(N-1) /\ fifo = <<>> /\ nextpn = N
        /\ since = [p \in {} |-> 0]

Replace(old) ==
  /\ old \in live /\ nextpn <= MaxPn
  /\ live' = (live \ {old}) \cup {nextpn}
  /\ nextpn' = nextpn + 1
  /\ IF DeleteOld /\ old >= N
     THEN LET full == Len(fifo) >= Lag
              f1   == IF full THEN Tail(fifo) ELSE fifo
          IN /\ stored' = (IF full THEN stored \ {Head(fifo)} ELSE stored) \cup {nextpn}
             /\ fifo' = Append(f1, old)
             /\ since' = [p \in (DOMAIN since \cup {old}) |-> IF p = old THEN 0 ELSE since[p] + 1]
     ELSE /\ stored' = stored \cup {nextpn}
          /\ UNCHANGED <<fifo, since>>
Reject == UNCHANGED vars
(* a restart forgets the FIFO: paths replaced before it are never deleted *)
Restart == /\ fifo' = <<>> /\ UNCHANGED <<live, stored, nextpn, since>>
Next == (\E p \in live : Replace(p)) \/ Restart
Spec == Init /\ [][Next]_vars

DeleteSafe   == live \subseteq stored
InitialKept  == (0..(N-1)) \subseteq stored
LagRespected == \A p \in DOMAIN since : (p \notin stored) => since[p] >= Lag
OnlyReplacedDeleted == \A p \in (0..(nextpn-1)) \ stored : p \in DOMAIN since

(* path shapes that the round trip must preserve: frames are <<file, index, reversed, energy class>> *)
Shapes(maxlen, nfiles) ==
  UNION {[1..L -> (1..nfiles) \X (0..2) \X BOOLEAN \X {"none", "zero", "value"}] : L \in 1..maxlen}
=============================================================================
