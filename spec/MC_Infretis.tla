---------------------------- MODULE MC_Infretis ----------------------------
(* Model-checking instance of Infretis: constants that a .cfg cannot write. *)
EXTENDS Infretis
CONSTANTS MaxLevel
OneEngine  == {"engine"}
OneNeed    == [e \in 0..(N-1) |-> {"engine"}]
TwoEngines == {"engine0", "engine"}
TwoNeed    == [e \in 0..(N-1) |-> IF e = 0 THEN {"engine0"} ELSE {"engine"}]
W1  == {1}
W12 == {1, 2}
Bound == TLCGet("level") <= MaxLevel
=============================================================================
