SPECIFICATION Spec
CONSTANTS
  N = 3
  MaxPn = 10
  Lag = 3
  DeleteOld = TRUE
INVARIANT DeleteSafe
INVARIANT InitialKept
INVARIANT LagRespected
INVARIANT OnlyReplacedDeleted
CHECK_DEADLOCK FALSE
