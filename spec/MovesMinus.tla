----------------------------- MODULE MovesMinus -----------------------------
(***************************************************************************)
(* C09.  The shooting move in [0-] over the lattice engine as a case         *)
(* enumeration: the ensemble's interfaces are (-inf, lambda_0, lambda_0),    *)
(* lambda_0 between the sites R0 - 1 and R0; a path of [0-] starts and ends  *)
(* right of lambda_0 and stays left of it in between; a reflecting wall at   *)
(* Wall keeps it bounded.  One case: the old path, the shooting index, the   *)
(* class of the drawn number, scripted backward and forward steps, the       *)
(* length limit.  Apply computes what the property demands (as Moves.tla     *)
(* does for the plus ensembles).                                             *)
(***************************************************************************)
EXTENDS LatticeOps

CONSTANTS R0, Wall, MaxOld, NSteps, MaxLengths

VARIABLES old, idx, xi, back, forw, maxlength, done, res
vars == <<old, idx, xi, back, forw, maxlength, done, res>>

OldPaths == {p \in UNION {[1..k -> Wall..R0] : k \in 3..MaxOld} :
               /\ MemberMinus(p, R0)
               /\ \A k \in 1..(Len(p)-1) : p[k+1] - p[k] \in {-1, 1} \/ (p[k+1] = p[k] /\ p[k] = Wall)}
StepSeqs == [1..NSteps -> {-1, 1}]

Init == /\ old \in OldPaths
        /\ idx \in 2..(Len(old) - 1)
        /\ xi \in {"below", "above", "tiny"}
        /\ back \in StepSeqs /\ forw \in StepSeqs
        /\ maxlength \in MaxLengths
        /\ done = FALSE /\ res = <<>>

Apply ==
  /\ ~done /\ done' = TRUE
  /\ LET xs  == old[idx]
         wb  == Walk(xs, back, Wall - 1, R0, Wall)       \* nothing stops a [0-] walk on the left
         wf  == Walk(xs, forw, Wall - 1, R0, Wall)
         tr  == RevSeq(wb[1]) \o Tail(wf[1])
         complete == wb[2] /\ wf[2]
         nold == Len(old) - 2
         nnew == Len(tr) - 2
         ok  == complete /\ Len(tr) <= maxlength /\ xi # "above"
     IN res' = [complete |-> complete, trial |-> tr, nold |-> nold, nnew |-> nnew, accept |-> ok, shootpos |-> Len(wb[1])]
  /\ UNCHANGED <<old, idx, xi, back, forw, maxlength>>
Next == Apply
Spec == Init /\ [][Next]_vars

AcceptedIsMember == (done /\ res.accept) =>
   /\ MemberMinus(res.trial, R0) /\ Len(res.trial) <= maxlength
   /\ res.trial[res.shootpos] = old[idx]
=============================================================================
