----------------------------- MODULE LatticeOps -----------------------------
(***************************************************************************)
(* Operators shared by the move specifications (Moves, ZeroSwap) and the     *)
(* trace specification of moves: positions on the integer lattice, ensemble  *)
(* membership, walks under the stop rule.  Interfaces lie between sites and  *)
(* are given by integers l, m, r:                                            *)
(*   x is left of `left`   iff x <= l     (stop rule: order < left)          *)
(*   x is right of `right` iff x >= r     (stop rule: order > right)         *)
(*   a path crosses `mid`  iff its maximum is >= m                           *)
(***************************************************************************)
EXTENDS Integers, Sequences, FiniteSets, TLC


RevSeq(s) == [k \in 1..Len(s) |-> s[Len(s) + 1 - k]]
SeqMaxI(s) == CHOOSE x \in {s[k] : k \in 1..Len(s)} : \A k \in 1..Len(s) : s[k] <= x
SeqMinI(s) == CHOOSE x \in {s[k] : k \in 1..Len(s)} : \A k \in 1..Len(s) : s[k] >= x

OutL(x, l) == x <= l
OutR(x, r) == x >= r
In(x, l, r) == ~OutL(x, l) /\ ~OutR(x, r)

(* a path (sequence of positions) is a member of the plus ensemble (l, m, r): it starts left of  *)
(* `left`, ends outside, stays inside in between and crosses the ensemble's own interface         *)
MemberPlus(p, l, m, r) ==
  /\ Len(p) >= 3
  /\ OutL(p[1], l)
  /\ OutL(p[Len(p)], l) \/ OutR(p[Len(p)], r)
  /\ \A k \in 2..(Len(p)-1) : In(p[k], l, r)
  /\ SeqMaxI(p) >= m
(* member of [0-] (interfaces (-inf, lambda_0, lambda_0), r = first site right of lambda_0):      *)
(* starts and ends right of lambda_0 and stays left of it in between                              *)
MemberMinus(p, r) ==
  /\ Len(p) >= 3
  /\ OutR(p[1], r) /\ OutR(p[Len(p)], r)
  /\ \A k \in 2..(Len(p)-1) : ~OutR(p[k], r)

(* walk from x0 along `steps` (+1/-1, a step to the left at the wall is a stay) until the first   *)
(* frame outside (l, r) or until `limit` frames: <<frames, reached an interface>>                 *)
RECURSIVE WalkRec(_, _, _, _, _, _, _)
WalkRec(acc, x, steps, k, l, r, wall) ==
  IF k > Len(steps) THEN <<acc, FALSE>> ELSE
  LET d  == steps[k]
      x2 == IF x = wall /\ d < 0 THEN x ELSE x + d
      a2 == Append(acc, x2)
  IN IF OutL(x2, l) \/ OutR(x2, r) THEN <<a2, TRUE>> ELSE WalkRec(a2, x2, steps, k + 1, l, r, wall)
Walk(x0, steps, l, r, wall) == WalkRec(<<x0>>, x0, steps, 1, l, r, wall)

(* wire-fencing (high-acceptance) weight of a path for the fence [m, c): the frames on runs of fence frames that are entered *)
(* and left inside the path, unless entered from the right and left to the right; doubled when the path connects the two    *)
(* sides (starts left of m and ends right of c, or the other way round)                                                      *)
FenceIn(x, m, c) == m <= x /\ x < c
FenceRuns(s, m, c) == {ab \in (2..(Len(s)-1)) \X (2..(Len(s)-1)) :
                         /\ ab[1] <= ab[2] /\ \A k \in ab[1]..ab[2] : FenceIn(s[k], m, c)
                         /\ ~FenceIn(s[ab[1]-1], m, c) /\ ~FenceIn(s[ab[2]+1], m, c)}
FenceCounted(s, m, c) == {ab \in FenceRuns(s, m, c) : ~(s[ab[1]-1] >= c /\ s[ab[2]+1] >= c)}
RECURSIVE FenceSum(_)
FenceSum(S) == IF S = {} THEN 0 ELSE LET x == CHOOSE y \in S : TRUE IN (x[2] - x[1] + 1) + FenceSum(S \ {x})
FenceWeight(s, m, c) == FenceSum(FenceCounted(s, m, c))
SideOf(x, m, c) == IF x < m THEN "L" ELSE IF x >= c THEN "R" ELSE "in"
HAWeight(s, m, c) == FenceWeight(s, m, c) * (IF SideOf(s[1], m, c) # SideOf(s[Len(s)], m, c) THEN 2 ELSE 1)
=============================================================================
