----------------------------- MODULE PermOps -----------------------------
(* Permanents of small integer matrices given as functions row -> column -> Nat. *)
EXTENDS Integers, FiniteSets

(* permanent of w restricted to rows R and columns C, |R| = |C| *)
RECURSIVE PermRC(_, _, _)
PermRC(w, R, C) ==
  IF R = {} THEN 1 ELSE
  LET i == CHOOSE x \in R : \A y \in R : x <= y
      RECURSIVE S(_)
      S(T) == IF T = {} THEN 0 ELSE
              LET j == CHOOSE x \in T : TRUE IN
              (IF w[i][j] = 0 THEN 0 ELSE w[i][j] * PermRC(w, R \ {i}, C \ {j}))
              + S(T \ {j})
  IN S(C)

(* is there a perfect matching of rows R onto columns C along non-zero entries? *)
RECURSIVE Matchable(_, _, _)
Matchable(w, R, C) ==
  IF R = {} THEN TRUE ELSE
  LET i == CHOOSE x \in R : \A y \in R : x <= y
  IN \E j \in C : w[i][j] # 0 /\ Matchable(w, R \ {i}, C \ {j})
=============================================================================
