SPECIFICATION FairSpec
CONSTANTS
  W = 2
  Steps = 4
  C0 = 0
  MayFail = TRUE
  ContinueOnFail = FALSE
INVARIANT ExecOnce
INVARIANT DeliverOnce
INVARIANT NothingLost
INVARIANT StepsExact
INVARIANT NeverTooMany
INVARIANT CleanStop
PROPERTY Terminates
CHECK_DEADLOCK FALSE
