--------------------------- MODULE TraceInfretis ---------------------------
(***************************************************************************)
(* Trace specification: checks executions recorded from the real infretis   *)
(* main process against Layer R of Infretis.tla.                             *)
(*                                                                           *)
(* The trace is a sequence of events (one per specification action: Init,    *)
(* Pick, Complete, Finish, Restart), each carrying the action's arguments    *)
(* and the projected abstract state after it.  The monitor is total: it      *)
(* consumes every event, re-synchronises on the logged state and records,    *)
(* per event, the names of the Layer R clauses that the step violates - so a *)
(* verdict names the failing clause, and the rest of the trace is still      *)
(* checked.  The clauses are the conjuncts of Infretis.tla's actions and its *)
(* invariants, written over (pre, event, post); MC_TraceModel.tla makes TLC  *)
(* check that every transition of Infretis.tla satisfies them (the monitor   *)
(* never rejects a behaviour of the specification).                          *)
(*                                                                           *)
(* Several traces are batched in one file; an Init event starts a new one.   *)
(***************************************************************************)
EXTENDS InfretisOps, Json, IOUtils

CONSTANTS Workers

Tr == ndJsonDeserialize(IOEnv.TRACE_FILE)

VARIABLES l,        \* next event
          bad,      \* sequence of <<event index, clause name>>
          cur,      \* projected state after the last event
          jobsM,    \* [pin -> job record or NoJobM]
          accF,     \* [pn -> Seq(Rat)]  accumulated fractional weights of live paths
          wOf,      \* [pn -> Seq(Nat)]  weight row of every live path
          fpSig,    \* [stream fingerprint -> job signature]  every stream ever handed out
          fpSince,  \* streams handed out since the last completed step (forgotten if the process dies)
          rowsPn,   \* set of path numbers written to the data file
          lastRec,  \* last restart record seen on disk
          pending,  \* in-flight jobs of the stopped run still to be re-issued
          ordTab,   \* [<<seed, ordinal>> -> streams]  over all traces of the batch (never reset)
          fpSeed,   \* [stream -> seed]  over all traces of the batch (never reset)
          tr,       \* [seed, npk, straight]  of the current trace
          repl,     \* Seq of replaced non-initial path numbers of this process lifetime (C14: deletion lag)
          seg       \* <<c0, ncomp, npick, ncred>> start step, completions, picks of this lifetime; credits of the trace
tvars == <<l, bad, cur, jobsM, accF, wOf, fpSig, fpSince, rowsPn, lastRec, pending, ordTab, fpSeed, tr, repl, seg>>

Pins   == 0..(Workers-1)
NoJobM == [ens |-> <<>>]
Empty  == [x \in {} |-> 0]

Lk(st)       == {e \in Ens : st.lock[e+1] = 1}
M(st)        == [i \in Ens |-> [e \in Ens |-> st.w[i+1][e+1]]]
Live(st)     == {st.slot[e+1] : e \in Ens}
HasSlot(st, pn) == \E e \in Ens : st.slot[e+1] = pn
SlotOf(st, pn)  == CHOOSE e \in Ens : st.slot[e+1] = pn
BusyPins     == {p \in Pins : jobsM[p] # NoJobM}
(* Fractional weights cross the boundary as integers: micro-units (10^-6, a    *)
(* non-zero value never rounds to 0) for everything that accumulates, and -   *)
(* when the harness could express them so - exact numerators over a common    *)
(* denominator for the per-step credit.                                       *)
MU           == 1000000
ZeroR        == [e \in 1..N |-> 0]
SeqAdd(a, b) == [k \in 1..N |-> a[k] + b[k]]
AbsI(x)      == IF x < 0 THEN -x ELSE x
Close(a, b, tol) == Len(a) = N /\ Len(b) = N /\ \A k \in 1..N : AbsI(a[k] - b[k]) <= tol
Lookup(pairs, key) == LET k == CHOOSE x \in 1..Len(pairs) : pairs[x][1] = key IN pairs[k][2]
HasKey(pairs, key) == \E x \in 1..Len(pairs) : pairs[x][1] = key

(* exact P restricted to slot set R and ensemble set C *)
PNumRC(m, R, C, i, e) == IF m[i][e] = 0 THEN 0 ELSE m[i][e] * PermRC(m, R \ {i}, C \ {e})
PDenRC(m, R, C)       == PermRC(m, R, C)
InSupportRC(m, R, C, i, e) == i \in R /\ e \in C /\ m[i][e] > 0 /\ Matchable(m, R \ {i}, C \ {e})

---------------------------------------------------------------------------
(* Init: a fresh simulation *)
InitClauses(ev) ==
  LET st == ev.st IN
  [ I_Fresh    |-> /\ st.cstep = 0 /\ st.trajnum = N /\ st.locked = <<>>
                   /\ \A e \in Ens : st.slot[e+1] = e /\ st.lock[e+1] = 0,
    I_Diagonal |-> \A e \in Ens : st.w[e+1][e+1] > 0,
    I_CanDraw  |-> CanDrawM(M(st), {}) ]

(* Pick *)
PickClauses(pre, ev) ==
  LET post == ev.st
      ens  == ev.ens
      pns  == ev.pns
      nE   == Len(ens)
      E    == SeqSet(ens)
      sig  == <<ens, pns>>
      fresh == ev.kind # "reissue"
      allfp == ev.fps
  IN
  [ P_PinFree   |-> ev.pin \in Pins /\ jobsM[ev.pin] = NoJobM,
    P_EnsIdle   |-> nE \in {1, 2} /\ \A e \in E : e \in Ens /\ e \notin Lk(pre),
    P_PathsIdle |-> \A k \in 1..nE : HasSlot(pre, pns[k]) /\ SlotOf(pre, pns[k]) \notin Lk(pre),
    P_LocksExact |-> Lk(post) = Lk(pre) \cup E,
    P_Holds     |-> \A k \in 1..nE : post.slot[ens[k]+1] = pns[k],
    P_NonZero   |-> \A k \in 1..nE : post.w[ens[k]+1][ens[k]+1] > 0,
    P_Conserve  |-> /\ Live(post) = Live(pre)
                    /\ \A e \in Ens : \A f \in Ens : e # f => post.slot[e+1] # post.slot[f+1]
                    /\ \A e \in Lk(pre) : post.slot[e+1] = pre.slot[e+1]
                    /\ \A e \in Ens : post.slot[e+1] \in DOMAIN wOf /\ post.w[e+1] = wOf[post.slot[e+1]],
    P_ZeroSwapAtomic |-> nE = 2 => (ens = <<0, 1>> /\ 0 \notin Lk(pre) /\ 1 \notin Lk(pre)),
    P_Support   |-> fresh =>
                     /\ ev.c1 \in E
                     /\ LET k1 == CHOOSE k \in 1..nE : ens[k] = ev.c1
                            i1 == SlotOf(pre, pns[k1])
                        IN /\ HasSlot(pre, pns[k1])
                           /\ InSupportRC(M(pre), IdleOf(Lk(pre)), IdleOf(Lk(pre)), i1, ev.c1)
                           /\ nE = 2 =>
                                LET k2 == 3 - k1
                                    i2 == SlotOf(pre, pns[k2])
                                IN /\ HasSlot(pre, pns[k2]) /\ i2 # i1
                                   /\ InSupportRC(M(pre), IdleOf(Lk(pre)) \ {i1}, IdleOf(Lk(pre)) \ {ev.c1}, i2, ens[k2]),
    P_UsedP     |-> (fresh /\ ev.p1.den > 0) =>   \* the distribution the draw was made from is the exact P
                     /\ ev.p1.den = PDenRC(M(pre), IdleOf(Lk(pre)), IdleOf(Lk(pre)))
                     /\ \A x \in 1..Len(ev.p1.cells) :
                          LET c == ev.p1.cells[x] IN
                          /\ HasSlot(pre, c[1])
                          /\ c[3] = PNumRC(M(pre), IdleOf(Lk(pre)), IdleOf(Lk(pre)), SlotOf(pre, c[1]), c[2])
                     /\ \A p \in Live(pre) : \A e \in IdleOf(Lk(pre)) :
                          (SlotOf(pre, p) \notin Lk(pre) /\
                           PNumRC(M(pre), IdleOf(Lk(pre)), IdleOf(Lk(pre)), SlotOf(pre, p), e) > 0)
                             => \E x \in 1..Len(ev.p1.cells) : ev.p1.cells[x][1] = p /\ ev.p1.cells[x][2] = e,
    P_UsedPOk   |-> fresh => (ev.p1.den > 0 \/ ev.p1.skipped),
    P_Engines   |-> /\ \A a, b \in 1..Len(ev.eng) : a # b => ev.eng[a] # ev.eng[b]
                    /\ \A q \in BusyPins \ {ev.pin} : SeqSet(jobsM[q].eng) \cap SeqSet(ev.eng) = {}
                    /\ Len(ev.eng) >= 1,
    P_Folder    |-> /\ ev.exe_ok
                    /\ \A q \in BusyPins \ {ev.pin} : jobsM[q].folder # ev.folder,
    P_StreamsDistinct |-> /\ \A a, b \in 1..Len(allfp) : a # b => allfp[a] # allfp[b]
                          /\ \A a \in 1..Len(allfp) : allfp[a] # ev.fpmain
                          /\ ev.gens_distinct,
    P_StreamsFresh |-> \A a \in 1..Len(allfp) : allfp[a] \in DOMAIN fpSig => fpSig[allfp[a]] = sig,
    \* a job's streams are a function of the seed and the job's ordinal only: the same in every
    \* uninterrupted run of that seed (other worker counts, other completion orders) ...
    \* the job's streams are spawned one after the other from the job's own child: two jobs with the same (seed, ordinal)
    \* agree on the streams both of them have (a zero-swap job has two more than a single-ensemble job)
    P_StreamFunction |-> (tr.straight /\ <<tr.seed, tr.npk>> \in DOMAIN ordTab) =>
                            LET was == ordTab[<<tr.seed, tr.npk>>]
                                m   == IF Len(was) < Len(allfp) THEN Len(was) ELSE Len(allfp)
                            IN \A a \in 1..m : was[a] = allfp[a],
    \* ... and never shared with a run of another seed
    P_StreamSeed |-> \A a \in 1..Len(allfp) : allfp[a] \in DOMAIN fpSeed => fpSeed[allfp[a]] = tr.seed,
    \* C06: a re-issued job is recorded as in flight again, so that a second stop re-issues it too
    P_ReissueRecorded |-> ev.kind = "reissue" => post.locked = Append(pre.locked, sig),
    P_Counters  |-> post.cstep = pre.cstep /\ post.trajnum = pre.trajnum /\ post.tsteps = pre.tsteps,
    \* a freshly drawn job is recorded as in flight; a re-issued one may or may not be listed again
    P_LockedList |-> \/ post.locked = Append(pre.locked, sig)
                     \/ (ev.kind = "reissue" /\ post.locked = pre.locked),
    P_Reissue   |-> IF ev.kind = "reissue" THEN pending # <<>> /\ Head(pending) = sig
                    ELSE (ev.kind = "init" => pending = <<>>),
    \* never more jobs in flight than steps left (initial submissions of a run restarted close to its end included)
    P_StepsLeft |-> IF ev.kind = "loop" THEN pre.cstep + Workers <= pre.tsteps
                    ELSE pre.cstep + Cardinality(BusyPins) < pre.tsteps,
    P_NotTooMany |-> seg[3] < Workers + seg[2] ]

(* Complete *)
CompleteClauses(pre, ev) ==
  LET post == ev.st
      ens  == ev.ens
      nE   == Len(ens)
      E    == SeqSet(ens)
      job  == jobsM[ev.pin]
      lk1  == Lk(pre) \ E
      idle == IdleOf(lk1)
      livePost == Live(post)
      \* busy paths are those of the jobs still in flight (not "whatever sits in a locked slot")
      busyPns == UNION {SeqSet(jobsM[q].pns) : q \in BusyPins \ {ev.pin}} \cap livePost
      idlePns == livePost \ busyPns
      D(pn) == Lookup(ev.dfrac, pn)
      newSet == IF ev.acc THEN SeqSet(ev.new) ELSE {}
      okD    == ev.dfrac_ok /\ \A p \in Live(post) : HasKey(ev.dfrac, p)
      tol    == seg[4] + 3
      mPost == M(post)
  IN
  [ C_JobMatches |-> ev.pin \in Pins /\ job # NoJobM /\ job.ens = ens /\ job.pns = ev.old,
    C_Unlock     |-> Lk(post) = lk1,
    C_StepCounter |-> post.cstep = pre.cstep + 1 /\ post.tsteps = pre.tsteps /\ post.cstep <= post.tsteps,
    C_Numbering  |-> IF ev.acc
                     THEN /\ Len(ev.new) = nE
                          /\ \A k \in 1..nE : ev.new[k] = pre.trajnum + k - 1
                          /\ post.trajnum = pre.trajnum + nE
                     ELSE ev.new = ev.old /\ post.trajnum = pre.trajnum,
    C_Live       |-> /\ livePost = (Live(pre) \ (IF ev.acc THEN SeqSet(ev.old) ELSE {})) \cup SeqSet(ev.new)
                     /\ \A e \in Ens : \A f \in Ens : e # f => post.slot[e+1] # post.slot[f+1]
                     /\ \A e \in Ens : post.slot[e+1] < post.trajnum,
    C_BusyUntouched |-> \A e \in lk1 : post.slot[e+1] = pre.slot[e+1] /\ post.w[e+1] = pre.w[e+1],
    C_Sorted     |-> \A e \in idle : post.w[e+1][e+1] > 0,
    C_WeightsStable |-> \A e \in Ens : LET p == post.slot[e+1] IN
                           (p \in DOMAIN wOf /\ p \notin newSet) => post.w[e+1] = wOf[p],
    C_NewValid   |-> ev.acc => \A k \in 1..nE : HasSlot(post, ev.new[k]) /\
                                   post.w[SlotOf(post, ev.new[k])+1][ens[k]+1] > 0,
    C_MinusStays |-> post.w[1][1] > 0 /\ \A e \in Plus : post.w[e+1][1] = 0,
    C_CanDraw    |-> CanDrawM(mPost, lk1),
    C_LockedList |-> IF \E k \in 1..Len(pre.locked) : pre.locked[k] = <<ens, ev.old>>
                     THEN LET k == CHOOSE x \in 1..Len(pre.locked) : pre.locked[x] = <<ens, ev.old>>
                          IN post.locked = SubSeq(pre.locked, 1, k-1) \o SubSeq(pre.locked, k+1, Len(pre.locked))
                     ELSE post.locked = pre.locked,
    C_ListedAreBusy |-> \A k \in 1..Len(post.locked) : \E q \in BusyPins \ {ev.pin} :
                           <<jobsM[q].ens, jobsM[q].pns>> = post.locked[k],
    \* C04: one unit per idle column, nothing on busy rows and columns, nothing where the weight is zero
    C_CreditDomain |-> /\ ev.dfrac_ok
                       /\ \A p \in livePost : HasKey(ev.dfrac, p),
    C_CreditBusyZero |-> okD =>
                         /\ \A p \in busyPns : \A k \in 1..N : D(p)[k] = 0
                         /\ \A p \in idlePns : \A e \in lk1 : D(p)[e+1] = 0,
    C_CreditUnit |-> okD =>
                       \A e \in idle :
                          LET RECURSIVE S(_, _)
                              S(T, f) == IF T = {} THEN 0 ELSE
                                         LET p == CHOOSE x \in T : TRUE IN Lookup(f, p)[e+1] + S(T \ {p}, f)
                          IN IF ev.dex.ok
                             THEN S(idlePns, ev.dex.rows) = ev.dex.den
                             ELSE AbsI(S(idlePns, ev.dfrac) - MU) <= N,
    C_CreditSupport |-> okD =>
                          \A p \in idlePns : \A e \in idle :
                             /\ D(p)[e+1] >= 0
                             /\ D(p)[e+1] > 0 => post.w[SlotOf(post, p)+1][e+1] > 0,
    \* C01/C02 bound at system level: what is credited is the exact P of the state
    C_CreditIsP  |-> (okD /\ ~ev.dex.skipped) =>
                       LET den == PDenRC(mPost, idle, idle) IN
                       /\ ev.dex.ok /\ den > 0 /\ ev.dex.den = den
                       /\ \A p \in idlePns : \A e \in idle :
                            Lookup(ev.dex.rows, p)[e+1] = PNumRC(mPost, idle, idle, SlotOf(post, p), e),
    C_Rows       |-> IF ev.acc
                     THEN /\ Len(ev.rows) = nE
                          /\ \A k \in 1..nE :
                               /\ ev.rows[k].pn = ev.old[k]
                               /\ ev.rows[k].pn \notin rowsPn
                               /\ ev.rows[k].pn \notin livePost
                               /\ ev.rows[k].ok
                               /\ ev.old[k] \in DOMAIN accF /\ Close(ev.rows[k].frac, accF[ev.old[k]], tol)
                               /\ ev.old[k] \in DOMAIN wOf /\
                                    \A c \in 1..N : ev.rows[k].w[c] =
                                         IF accF[ev.old[k]][c] = 0 THEN 0 ELSE wOf[ev.old[k]][c]
                     ELSE ev.rows = <<>>,
    C_Record     |-> /\ ev.rec.ok
                     /\ ev.rec.cstep = post.cstep /\ ev.rec.trajnum = post.trajnum
                     /\ ev.rec.active = post.slot /\ ev.rec.locked = post.locked
                     /\ ev.rec.steps = post.tsteps,
    C_RecordFrac |-> (ev.rec.ok /\ okD) =>
                       \A p \in livePost :
                          /\ HasKey(ev.rec.frac, p)
                          /\ Close(Lookup(ev.rec.frac, p),
                                   SeqAdd(IF p \in DOMAIN accF /\ p \notin newSet THEN accF[p] ELSE ZeroR, D(p)), tol),
    C_NoOverrun  |-> pre.cstep < pre.tsteps,
    \* C07: no random number was drawn from outside the job's streams while the move ran
    C_NoForeign  |-> ev.foreign = 0,
    \* C14: live paths read back unchanged; initial paths are never deleted; a replaced path keeps its
    \* files until N further non-initial paths have been replaced (the code's lag, state.n - 1)
    C_StoreLive    |-> ev.store.checked => ev.store.live_ok,
    C_StoreHasLive |-> ev.store.checked => livePost \subseteq SeqSet(ev.store.present),
    C_StoreInitial |-> ev.store.checked => \A p \in 0..(N-1) : p \in SeqSet(ev.store.present),
    C_StoreLag     |-> ev.store.checked =>
                         LET r2 == repl \o (IF ev.acc THEN SelectSeq(ev.old, LAMBDA x : x >= N) ELSE <<>>)
                         IN \A k \in 1..Len(r2) : (Len(r2) - k < N) => r2[k] \in SeqSet(ev.store.present) ]

FinishClauses(pre, ev) ==
  [ F_Done     |-> pre.cstep >= pre.tsteps,
    F_Record   |-> /\ ev.rec.ok /\ ev.rec.cstep = pre.cstep /\ ev.rec.trajnum = pre.trajnum
                   /\ ev.rec.active = pre.slot /\ ev.rec.locked = pre.locked,
    F_RecordFrac |-> ev.rec.ok => \A p \in Live(pre) :
                        /\ HasKey(ev.rec.frac, p) /\ p \in DOMAIN accF
                        /\ Close(Lookup(ev.rec.frac, p), accF[p], seg[4] + 3),
    \* C17: exactly the requested number of moves, nothing left in flight
    F_StepsExact |-> (pre.tsteps >= Workers /\ pre.tsteps >= seg[1]) =>
                        /\ seg[2] = pre.tsteps - seg[1] /\ pre.cstep = pre.tsteps
                        /\ BusyPins = {} /\ pre.locked = <<>> /\ Lk(pre) = {}
                        /\ seg[3] = seg[2],
    \* whatever the restart point: the moves completed in this lifetime are exactly those that were left
    F_Count     |-> (pre.tsteps >= seg[1]) => (seg[2] = pre.tsteps - seg[1] /\ ev.st.cstep = pre.tsteps),
    F_Unchanged |-> ev.st.slot = pre.slot /\ ev.st.lock = pre.lock /\ ev.st.cstep = pre.cstep ]

(* Restart: the event carries the record the new process found on disk (ev.rec) *)
RestartClauses(ev) ==
  LET st == ev.st
      rec == ev.rec
  IN
  [ R_HasRecord |-> rec.ok,
    R_Restore   |-> rec.ok =>
                     /\ st.slot = rec.active /\ st.cstep = rec.cstep /\ st.trajnum = rec.trajnum
                     /\ Lk(st) = {} /\ st.locked = <<>>,
    R_Weights   |-> \A e \in Ens : st.slot[e+1] \in DOMAIN wOf => st.w[e+1] = wOf[st.slot[e+1]],
    R_Frac      |-> rec.ok => \A e \in Ens :
                       LET p == st.slot[e+1] IN
                       /\ HasKey(ev.frac, p) /\ HasKey(rec.frac, p)
                       /\ Close(Lookup(ev.frac, p), Lookup(rec.frac, p), 1),
    R_Sorted    |-> \A e \in Ens : (rec.ok /\ ~\E k \in 1..Len(rec.locked) : e \in SeqSet(rec.locked[k][1]))
                                      => st.w[e+1][e+1] > 0,
    R_Distinct  |-> \A e \in Ens : \A f \in Ens : e # f => st.slot[e+1] # st.slot[f+1],
    R_Numbers   |-> \A e \in Ens : st.slot[e+1] < st.trajnum,
    \* a process that stopped between two steps left the record of its last completed step
    R_LastRecord |-> (lastRec.ok /\ ev.clean) =>
                        /\ rec.ok /\ rec.cstep = lastRec.cstep /\ rec.trajnum = lastRec.trajnum
                        /\ rec.active = lastRec.active /\ rec.locked = lastRec.locked /\ rec.frac = lastRec.frac,
    R_RowsOnce  |-> \A a, b \in 1..Len(ev.rows_on_disk) : a # b => ev.rows_on_disk[a] # ev.rows_on_disk[b],
    R_RowsNotLive |-> \A a \in 1..Len(ev.rows_on_disk) : \A e \in Ens : st.slot[e+1] # ev.rows_on_disk[a],
    R_Continues |-> rec.ok => st.cstep = rec.cstep ]

---------------------------------------------------------------------------
Failed(rec) == {n \in DOMAIN rec : ~rec[n]}
Note(idx, names) == LET RECURSIVE F(_)
                        F(S) == IF S = {} THEN <<>> ELSE
                                LET n == CHOOSE x \in S : TRUE IN <<<<idx, n>>>> \o F(S \ {n})
                    IN F(names)

RowsOfState(st) == [p \in Live(st) |-> st.w[SlotOf(st, p)+1]]

TInit == /\ l = 1 /\ bad = <<>>
         /\ cur = [cstep |-> -1]
         /\ jobsM = [p \in Pins |-> NoJobM]
         /\ accF = Empty /\ wOf = Empty /\ fpSig = Empty /\ fpSince = {} /\ rowsPn = {}
         /\ lastRec = [ok |-> FALSE] /\ pending = <<>> /\ seg = <<0, 0, 0, 0>>
         /\ ordTab = Empty /\ fpSeed = Empty /\ tr = [seed |-> -1, npk |-> 0, straight |-> TRUE] /\ repl = <<>>

StepInit(ev) ==
  /\ bad' = bad \o Note(l, Failed(InitClauses(ev)))
  /\ cur' = ev.st
  /\ jobsM' = [p \in Pins |-> NoJobM]
  /\ accF' = [p \in Live(ev.st) |-> ZeroR]
  /\ wOf' = RowsOfState(ev.st)
  /\ fpSig' = Empty /\ fpSince' = {} /\ rowsPn' = {} /\ lastRec' = [ok |-> FALSE] /\ pending' = <<>>
  /\ seg' = <<0, 0, 0, 0>>
  /\ tr' = [seed |-> ev.seed, npk |-> 0, straight |-> TRUE] /\ repl' = <<>>
  /\ UNCHANGED <<ordTab, fpSeed>>

StepPick(ev) ==
  /\ bad' = bad \o Note(l, Failed(PickClauses(cur, ev)))
  /\ cur' = ev.st
  /\ jobsM' = IF ev.pin \in Pins
              THEN [jobsM EXCEPT ![ev.pin] = [ens |-> ev.ens, pns |-> ev.pns, eng |-> ev.eng, folder |-> ev.folder]]
              ELSE jobsM
  /\ fpSig' = [f \in DOMAIN fpSig \cup SeqSet(ev.fps) |->
                 IF f \in DOMAIN fpSig THEN fpSig[f] ELSE <<ev.ens, ev.pns>>]
  /\ fpSince' = fpSince \cup (SeqSet(ev.fps) \ DOMAIN fpSig)
  /\ pending' = IF ev.kind = "reissue" /\ pending # <<>> THEN Tail(pending) ELSE pending
  /\ seg' = <<seg[1], seg[2], seg[3] + 1, seg[4]>>
  /\ tr' = [tr EXCEPT !.npk = tr.npk + 1]
  /\ ordTab' = IF tr.straight /\ <<tr.seed, tr.npk>> \notin DOMAIN ordTab
                THEN (<<tr.seed, tr.npk>> :> ev.fps) @@ ordTab ELSE ordTab
  /\ fpSeed' = [f \in DOMAIN fpSeed \cup SeqSet(ev.fps) |-> IF f \in DOMAIN fpSeed THEN fpSeed[f] ELSE tr.seed]
  /\ UNCHANGED <<accF, wOf, rowsPn, lastRec, repl>>

StepComplete(ev) ==
  LET post == ev.st
      okD  == ev.dfrac_ok /\ \A p \in Live(post) : HasKey(ev.dfrac, p)
  IN
  /\ bad' = bad \o Note(l, Failed(CompleteClauses(cur, ev)))
  /\ cur' = post
  /\ jobsM' = IF ev.pin \in Pins THEN [jobsM EXCEPT ![ev.pin] = NoJobM] ELSE jobsM
  /\ accF' = [p \in Live(post) |->
                LET base == IF p \in DOMAIN accF /\ (~ev.acc \/ p \notin SeqSet(ev.new)) THEN accF[p] ELSE ZeroR
                IN IF okD THEN SeqAdd(base, Lookup(ev.dfrac, p)) ELSE base]
  /\ wOf' = RowsOfState(post)
  /\ rowsPn' = rowsPn \cup {ev.rows[k].pn : k \in 1..Len(ev.rows)}
  /\ lastRec' = ev.rec
  /\ seg' = <<seg[1], seg[2] + 1, seg[3], seg[4] + 1>>
  /\ fpSince' = {}
  /\ repl' = repl \o (IF ev.acc THEN SelectSeq(ev.old, LAMBDA x : x >= N) ELSE <<>>)
  /\ UNCHANGED <<fpSig, pending, ordTab, fpSeed, tr>>

StepFinish(ev) ==
  /\ bad' = bad \o Note(l, Failed(FinishClauses(cur, ev)))
  /\ lastRec' = ev.rec
  /\ UNCHANGED <<cur, jobsM, accF, wOf, fpSig, fpSince, rowsPn, pending, seg, ordTab, fpSeed, tr, repl>>

StepRestart(ev) ==
  /\ bad' = bad \o Note(l, Failed(RestartClauses(ev)))
  /\ cur' = ev.st
  /\ jobsM' = [p \in Pins |-> NoJobM]
  /\ accF' = [p \in Live(ev.st) |-> IF HasKey(ev.frac, p) THEN Lookup(ev.frac, p) ELSE ZeroR]
  /\ wOf' = RowsOfState(ev.st)
  /\ pending' = IF ev.rec.ok THEN ev.rec.locked ELSE <<>>
  /\ lastRec' = ev.rec
  /\ rowsPn' = rowsPn \cup SeqSet(ev.rows_on_disk)
  /\ seg' = <<ev.st.cstep, 0, 0, seg[4]>>
  \* jobs drawn after the last completed step died unrecorded: their streams are forgotten
  /\ fpSig' = [f \in DOMAIN fpSig \ fpSince |-> fpSig[f]]
  /\ fpSince' = {}
  /\ tr' = [tr EXCEPT !.straight = FALSE] /\ repl' = <<>>
  /\ UNCHANGED <<ordTab, fpSeed>>

TNext == /\ l <= Len(Tr)
         /\ l' = l + 1
         /\ LET ev == Tr[l] IN
            CASE ev.ev = "Init"     -> StepInit(ev)
              [] ev.ev = "Pick"     -> StepPick(ev)
              [] ev.ev = "Complete" -> StepComplete(ev)
              [] ev.ev = "Finish"   -> StepFinish(ev)
              [] ev.ev = "Restart"  -> StepRestart(ev)

TSpec == TInit /\ [][TNext]_tvars

(* reporting: one line per violated clause, and a completion line *)
Report == (l = Len(Tr) + 1) =>
            /\ \A k \in 1..Len(bad) : PrintT(<<"BADCLAUSE", bad[k][1], bad[k][2]>>)
            /\ PrintT(<<"TRACE-CONSUMED", Len(Tr), Len(bad)>>)
=============================================================================
