------------------------------- MODULE Rat -------------------------------
(* Exact non-negative/negative rationals as pairs <<num, den>> with den > 0.  *)
(* TLC integers are 32-bit: every user of this module keeps numerators and    *)
(* denominators far below 2^31 (the model constants are chosen accordingly    *)
(* and RatSafe is asserted as an invariant where it matters).                 *)
EXTENDS Integers

RECURSIVE GCD(_, _)
GCD(a, b) == IF b = 0 THEN a ELSE GCD(b, a % b)
Abs(x) == IF x < 0 THEN -x ELSE x

RNorm(q) == LET g == GCD(Abs(q[1]), q[2]) IN
            IF q[1] = 0 THEN <<0, 1>> ELSE <<q[1] \div g, q[2] \div g>>
RMk(n, d)   == RNorm(<<n, d>>)
RZero       == <<0, 1>>
ROne        == <<1, 1>>
RInt(n)     == <<n, 1>>
RAdd(a, b)  == RNorm(<<a[1] * b[2] + b[1] * a[2], a[2] * b[2]>>)
RSub(a, b)  == RNorm(<<a[1] * b[2] - b[1] * a[2], a[2] * b[2]>>)
RMul(a, b)  == RNorm(<<a[1] * b[1], a[2] * b[2]>>)
RDiv(a, b)  == IF b[1] > 0 THEN RNorm(<<a[1] * b[2], a[2] * b[1]>>)
                           ELSE RNorm(<<-(a[1] * b[2]), a[2] * (-b[1])>>)
REq(a, b)   == a[1] * b[2] = b[1] * a[2]
RLeq(a, b)  == a[1] * b[2] <= b[1] * a[2]
RLt(a, b)   == a[1] * b[2] < b[1] * a[2]
RIsZero(a)  == a[1] = 0
RPos(a)     == a[1] > 0
RSafe(a)    == Abs(a[1]) < 1000000000 /\ a[2] < 1000000000
=============================================================================
