SPECIFICATION Spec
CONSTANTS
  N = 3
  Workers = 2
  Steps = 3
  MoreSteps = 0
  MaxPn = 8
  WSet <- W1
  ZeroSwap = TRUE
  MaxRestarts = 0
  TrackFrac = FALSE
  EngTypes <- OneEngine
  EngNeed <- OneNeed
  LiteralOrd = FALSE
  FormulaOrd = FALSE
  VaryInit = FALSE
  OverIssue = FALSE
  MaxLevel = 100
CONSTRAINT Bound
INVARIANT MutexEns
INVARIANT MutexPath
INVARIANT LocksExact
INVARIANT JobHoldsItsPaths
INVARIANT PickedNonZero
INVARIANT EngineExclusive
INVARIANT ZeroSwapHoldsBoth
INVARIANT LockedSeqExact
INVARIANT Distinct
INVARIANT MinusAtZero
INVARIANT CanDraw
INVARIANT CanReissue
INVARIANT NotStuck
INVARIANT FreshNumbers
INVARIANT RestartLoads
INVARIANT StepsExact
INVARIANT RecordCounts
INVARIANT NeverTooMany
INVARIANT NoLostJob
INVARIANT OrdinalsFresh
INVARIANT OrdinalsDistinct
INVARIANT WrittenOnce
INVARIANT NeverWrittenWhileLive
PROPERTY ZeroSwapAtomic
PROPERTY IdleSorted
PROPERTY NumbersNeverReused
CHECK_DEADLOCK FALSE
