----------------------------- MODULE TraceMoves -----------------------------
(***************************************************************************)
(* Trace specification for Monte Carlo moves (C09, C11): every recorded      *)
(* outcome of a real shoot / wire_fencing / retis_swap_zero call on the      *)
(* lattice engine is checked against the membership predicates of Moves.tla. *)
(* Total monitor: one state per event, the violated clauses are recorded.    *)
(***************************************************************************)
EXTENDS Integers, Sequences, FiniteSets, TLC, Json, IOUtils

RevSeq(s) == [k \in 1..Len(s) |-> s[Len(s) + 1 - k]]
SeqMaxI(s) == CHOOSE x \in {s[k] : k \in 1..Len(s)} : \A k \in 1..Len(s) : s[k] <= x
OutL(x, l) == x <= l
OutR(x, r) == x >= r
In(x, l, r) == ~OutL(x, l) /\ ~OutR(x, r)
MemberPlus(p, l, m, r) ==
  /\ Len(p) >= 3 /\ OutL(p[1], l)
  /\ OutL(p[Len(p)], l) \/ OutR(p[Len(p)], r)
  /\ \A k \in 2..(Len(p)-1) : In(p[k], l, r)
  /\ SeqMaxI(p) >= m
MemberMinus(p, r) ==
  /\ Len(p) >= 3 /\ OutR(p[1], r) /\ OutR(p[Len(p)], r)
  /\ \A k \in 2..(Len(p)-1) : ~OutR(p[k], r)
Continuous(p) == \A k \in 1..(Len(p)-1) : p[k+1] - p[k] \in {-1, 0, 1}

Tr == ndJsonDeserialize(IOEnv.TRACE_FILE)
VARIABLES l, bad
tvars == <<l, bad>>

SingleClauses(ev) ==
  [ M_AccIffStatus |-> ev.acc = ev.status_acc /\ ev.acc = ev.path_status_acc,
    M_Member       |-> ev.acc => (IF ev.minus THEN MemberMinus(ev.new, ev.r) ELSE MemberPlus(ev.new, ev.l, ev.m, ev.r)),
    M_Length       |-> ev.acc => Len(ev.new) <= ev.maxlength,
    M_TimeOrdered  |-> ev.acc => Continuous(ev.new),
    \* ordered in time, frame references: consecutive frames taken from one trajectory file step through it forwards when their
    \* velocities are as written and backwards when they are flagged as reversed (a path turned around keeps this: order and flags flip together)
    M_FileOrder    |-> ev.acc => \A k \in 1..(Len(ev.new) - 1) :
                          (ev.newfile[k] = ev.newfile[k+1] /\ ev.newrev[k] = ev.newrev[k+1]) =>
                             ev.newidx[k+1] = ev.newidx[k] + (IF ev.newrev[k] = 1 THEN -1 ELSE 1),
    M_Weight       |-> ev.acc => ev.weight_ok,
    M_ShootingPoint |-> (ev.acc /\ ev.kind = "sh") =>
                          /\ ev.sidx >= 2 /\ ev.sidx <= Len(ev.new) - 1
                          /\ ev.new[ev.sidx] = ev.spos
                          /\ ev.oidx >= 2 /\ ev.oidx <= Len(ev.old) - 1 /\ ev.old[ev.oidx] = ev.spos,
    M_VelRev       |-> (ev.acc /\ ev.kind = "sh") =>
                          \A k \in 1..Len(ev.new) : (ev.newrev[k] = 1) <=> (k <= ev.sidx),
    M_WfContainsSegment |-> (ev.acc /\ ev.kind = "wf") => ev.seg_ok,
    M_OldUntouched |-> ev.untouched,
    M_OldWasMember |-> IF ev.minus THEN MemberMinus(ev.old, ev.r) ELSE MemberPlus(ev.old, ev.l, ev.m, ev.r) ]

SwapClauses(ev) ==
  [ M_AccIffStatus |-> ev.acc = ev.status_acc,
    M_Member       |-> ev.acc => (MemberMinus(ev.new0, ev.r0) /\ MemberPlus(ev.new1, ev.l, ev.m, ev.r)),
    M_Length       |-> ev.acc => (Len(ev.new0) <= ev.maxlength /\ Len(ev.new1) <= ev.maxlength),
    M_TimeOrdered  |-> ev.acc => (Continuous(ev.new0) /\ Continuous(ev.new1)),
    \* C11: the new [0-] path ends with the first two frames of the old [0+] path, the new [0+]
    \* path starts with the last two frames of the old [0-] path
    S_Exchange     |-> ev.acc =>
                          /\ Len(ev.new0) >= 2 /\ Len(ev.new1) >= 2
                          /\ ev.new0[Len(ev.new0) - 1] = ev.old1[1] /\ ev.new0[Len(ev.new0)] = ev.old1[2]
                          /\ ev.new1[1] = ev.old0[Len(ev.old0) - 1] /\ ev.new1[2] = ev.old0[Len(ev.old0)],
    S_ExchangeContent |-> ev.acc => ev.content_ok,
    M_Weight       |-> ev.acc => ev.weight_ok,
    M_OldUntouched |-> ev.untouched ]

(* C11: with deterministic time-reversible dynamics two successive swaps restore the paths *)
Swap2Clauses(ev) ==
  [ S_SwapTwice |-> (ev.acc1 /\ ev.acc2) => (ev.back0 = ev.old0 /\ ev.back1 = ev.old1),
    S_Exchange  |-> ev.acc1 =>
                      /\ ev.mid0[Len(ev.mid0) - 1] = ev.old1[1] /\ ev.mid0[Len(ev.mid0)] = ev.old1[2]
                      /\ ev.mid1[1] = ev.old0[Len(ev.old0) - 1] /\ ev.mid1[2] = ev.old0[Len(ev.old0)],
    M_Member    |-> ev.acc1 => (MemberMinus(ev.mid0, ev.r0) /\ MemberPlus(ev.mid1, ev.l, ev.m, ev.r)) ]
(* QuanTIS: accepted exactly when the drawn number is at most min(1, exp(beta0 dV0 - beta1 dV1)); the   *)
(* harness realises the acceptance probability p = pnum/pden and places the draw just below or above it *)
QuantisClauses(ev) ==
  [ Q_Threshold |-> ev.crossings_ok => (ev.acc <=> (ev.side = "below" \/ ev.pnum >= ev.pden)),
    Q_AccIffStatus |-> ev.acc = ev.status_acc,
    Q_RejectCode |-> (ev.crossings_ok /\ ~ev.acc) => ev.status = "QEA",
    M_OldUntouched |-> ev.untouched ]
(* lambda_minus_one variant: a [0-] path that ended on the left is rejected without any propagation *)
ZeroLClauses(ev) ==
  [ Z_Rejected |-> ~ev.acc /\ ev.status = "0-L",
    Z_NoPropagation |-> ev.ncalls = 0,
    M_OldUntouched |-> ev.untouched ]

ClausesOf(ev) == CASE ev.kind = "swap" -> SwapClauses(ev)
                   [] ev.kind = "swap2" -> Swap2Clauses(ev)
                   [] ev.kind = "quantis" -> QuantisClauses(ev)
                   [] ev.kind = "zeroL" -> ZeroLClauses(ev)
                   [] OTHER -> SingleClauses(ev)

Failed(rec) == {n \in DOMAIN rec : ~rec[n]}
Note(idx, names) == LET RECURSIVE F(_)
                        F(S) == IF S = {} THEN <<>> ELSE
                                LET n == CHOOSE x \in S : TRUE IN <<<<idx, n>>>> \o F(S \ {n})
                    IN F(names)
TInit == l = 1 /\ bad = <<>>
TNext == /\ l <= Len(Tr) /\ l' = l + 1
         /\ bad' = bad \o Note(l, Failed(ClausesOf(Tr[l])))
TSpec == TInit /\ [][TNext]_tvars
Report == (l = Len(Tr) + 1) =>
            /\ \A k \in 1..Len(bad) : PrintT(<<"BADCLAUSE", bad[k][1], bad[k][2]>>)
            /\ PrintT(<<"TRACE-CONSUMED", Len(Tr), Len(bad)>>)
=============================================================================
