SPECIFICATION Spec
CONSTANTS
  N = 4
  MaxW = 1
  AllowSwap = TRUE
  AllowSetW = FALSE
  AllowScale = FALSE
INVARIANT TypeOK
INVARIANT InFamily
INVARIANT CanDraw
INVARIANT RowSums
INVARIANT ColSums
INVARIANT ZeroWhereZero
INVARIANT BusyZero
INVARIANT Bounded
INVARIANT MinusBlock
INVARIANT QuickIsExact
INVARIANT BlocksAreClosed
INVARIANT BlockwiseIsExact
PROPERTY SwapEquivariant
PROPERTY ScaleInvariant
CHECK_DEADLOCK FALSE
