------------------------------ MODULE Geometry ------------------------------
(***************************************************************************)
(* C20.  Symmetries of the pair order parameters on an integer lattice with *)
(* orthogonal integer boxes of odd length (so that the minimum image is     *)
(* unique).  Exact oracles: the squared minimum-image distance d2 and the   *)
(* numerator dv = delta . delta_v of the distance rate.  Every initial      *)
(* state is a configuration of two atoms and one symmetry action; Apply     *)
(* computes the oracles before and after the action.  The harness compares  *)
(* the real Distance / Distancevel / Position / Velocity with the oracles    *)
(* and the relations of the angle-type parameters (Dihedral, Puckering)      *)
(* before/after the same actions.                                            *)
(*                                                                           *)
(* For the action "reverse" (v -> -v) the same relation - dva = -dv, d2a =    *)
(* d2 - is demanded at the two places where the program applies a frame's     *)
(* velocity flag: EngineBase.calculate_order (arrays handed over, frame       *)
(* flagged as reversed) and Path.reverse (a path of three such frames: the    *)
(* values come back in reverse order, velocity-type ones with the opposite    *)
(* sign, position-type ones unchanged; twice restores; the original is not    *)
(* modified).  Path.reverse does not meet it: open finding L20.               *)
(***************************************************************************)
EXTENDS Integers, Sequences, TLC

CONSTANTS Coords,   \* set of coordinate values
          Vels,     \* set of velocity vectors (triples)
          Boxes,    \* set of box triples (odd lengths)
          Actions   \* set of action records

VARIABLES p0, p1, v0, v1, box, act, done, res
vars == <<p0, p1, v0, v1, box, act, done, res>>

Abs(x) == IF x < 0 THEN -x ELSE x
(* nearest-image displacement for an odd box length L: the representative in -(L-1)/2 .. (L-1)/2 *)
MinImg(d, L) == LET r == ((d % L) + L) % L IN IF r > (L - 1) \div 2 THEN r - L ELSE r
Delta(a, b, bx) == <<MinImg(b[1] - a[1], bx[1]), MinImg(b[2] - a[2], bx[2]), MinImg(b[3] - a[3], bx[3])>>
Dot(a, b) == a[1] * b[1] + a[2] * b[2] + a[3] * b[3]
Sub(a, b) == <<a[1] - b[1], a[2] - b[2], a[3] - b[3]>>
Add(a, b) == <<a[1] + b[1], a[2] + b[2], a[3] + b[3]>>
D2(a, b, bx)  == Dot(Delta(a, b, bx), Delta(a, b, bx))
DV(a, b, va, vb, bx) == Dot(Delta(a, b, bx), Sub(vb, va))

(* the symmetry actions on a configuration <<p0, p1, v0, v1, box>> *)
Rot(k, x) == CASE k = 1 -> <<-x[2], x[1], x[3]>>       \* 90 degrees about z
               [] k = 2 -> <<x[1], -x[3], x[2]>>       \* 90 degrees about x
               [] k = 3 -> <<x[2], x[3], x[1]>>        \* cyclic permutation of the axes
               [] OTHER -> x
RotBox(k, b) == CASE k = 1 -> <<b[2], b[1], b[3]>> [] k = 2 -> <<b[1], b[3], b[2]>> [] k = 3 -> <<b[2], b[3], b[1]>> [] OTHER -> b
Shift(x, axis, n, b) == [x EXCEPT ![axis] = @ + n * b[axis]]
Apply1(a, c) ==   \* c = <<p0, p1, v0, v1, box>>
  CASE a.kind = "translate" -> <<Add(c[1], a.t), Add(c[2], a.t), c[3], c[4], c[5]>>
    [] a.kind = "shift"     -> <<c[1], Shift(c[2], a.axis, a.n, c[5]), c[3], c[4], c[5]>>
    [] a.kind = "rotate"    -> <<Rot(a.k, c[1]), Rot(a.k, c[2]), Rot(a.k, c[3]), Rot(a.k, c[4]), RotBox(a.k, c[5])>>
    [] a.kind = "reverse"   -> <<c[1], c[2], <<-c[3][1], -c[3][2], -c[3][3]>>, <<-c[4][1], -c[4][2], -c[4][3]>>, c[5]>>
    [] OTHER                -> c      \* "boxform", "none": the configuration itself is unchanged

Points == Coords \X Coords \X Coords
Init == /\ p0 \in Points /\ p1 \in Points /\ p0 # p1
        /\ v0 \in Vels /\ v1 \in Vels /\ box \in Boxes /\ act \in Actions
        /\ done = FALSE /\ res = <<>>
Apply == /\ ~done /\ done' = TRUE
         /\ LET c == <<p0, p1, v0, v1, box>>
                n == Apply1(act, c)
            IN res' = [d2 |-> D2(p0, p1, box), dv |-> DV(p0, p1, v0, v1, box),
                       after |-> n, d2a |-> D2(n[1], n[2], n[5]), dva |-> DV(n[1], n[2], n[3], n[4], n[5])]
         /\ UNCHANGED <<p0, p1, v0, v1, box, act>>
Next == Apply
Spec == Init /\ [][Next]_vars

(* the relations the property states, on the exact oracles *)
DistanceInvariant == done => res.d2a = res.d2
RateRelation      == done => res.dva = (IF act.kind = "reverse" THEN -res.dv ELSE res.dv)
MinImageBounded   == done => \A i \in 1..3 : 2 * Abs(Delta(p0, p1, box)[i]) < box[i]
NonDegenerate     == done => res.d2 > 0
=============================================================================
