----------------------------- MODULE StoreShape -----------------------------
(***************************************************************************)
(* C14, the round trip: storing an accepted path and loading it again.      *)
(* Every initial state is one path shape: a sequence of frames, each         *)
(* referring to one of NFiles trajectory files at an index, with a velocity  *)
(* direction flag and an energy class (none / zero / a value).  Apply states *)
(* the law the loaded path must obey; the harness builds the path over real  *)
(* trajectory files, runs the real PathStorage.output and load_path and      *)
(* compares frame by frame.                                                  *)
(***************************************************************************)
EXTENDS Integers, Sequences, FiniteSets, TLC

CONSTANTS MaxLen, NFiles

VARIABLES shape, mag, done, law
vars == <<shape, mag, done, law>>

Frame == [file : 1..NFiles, idx : 0..2, rev : BOOLEAN, en : {"none", "zero", "value"}]
Shapes == UNION {[1..k -> Frame] : k \in 1..MaxLen}

(* magnitude class of the order-parameter values: "unit" values of a few characters, "wide" values that fill the  *)
(* column of order.txt completely (five digits before the point, or a sign and four)                              *)
Mags == {"unit", "wide"}
Init == shape \in Shapes /\ mag \in Mags /\ done = FALSE /\ law = "?"
Apply == /\ ~done /\ done' = TRUE /\ UNCHANGED <<shape, mag>>
         /\ law' = "load(store(p)) has Len(p) frames; frame k refers to the stored copy of the same file (same base name, under the path's own directory), the same index and the same velocity direction; the same order parameter to six decimals; the same energies where frame k has them and none where it has not; the stored copy holds what the source file held"
Next == Apply
Spec == Init /\ [][Next]_vars
LawStated == done => law # "?"
(* the shapes the property names are present in the enumeration *)
HasMultiFile == \E s \in Shapes : \E a, b \in DOMAIN s : s[a].file # s[b].file
HasMixedEnergies == \E s \in Shapes : \E a, b \in DOMAIN s : s[a].en = "none" /\ s[b].en = "value" /\ a < b
=============================================================================
