------------------------------- MODULE Moves -------------------------------
(***************************************************************************)
(* C09 / C11 / C01.  Monte Carlo moves over a lattice engine.                *)
(*                                                                           *)
(* Positions are integers; an ensemble has interfaces (left, mid, right)      *)
(* placed between lattice sites, given as integers l, m, r meaning            *)
(*   x is left of `left`  iff x <= l      (stop rule: order < left)           *)
(*   x is right of `right` iff x >= r     (stop rule: order > right)          *)
(*   a path crosses `mid`  iff its maximum is >= m (and its minimum < m)      *)
(* so that no frame ever equals an interface (DESIGN.md 5.0).                 *)
(*                                                                           *)
(* Part 1: operators shared with the trace specification (membership of a     *)
(* path in an ensemble, walks under the stop rule).                           *)
(* Part 2: the shooting move as a case enumeration: every initial state is    *)
(* one shooting attempt (old path, shooting index, class of the drawn         *)
(* number, scripted backward and forward steps); Apply computes what the      *)
(* property demands.                                                          *)
(***************************************************************************)
EXTENDS LatticeOps

---------------------------------------------------------------------------
CONSTANTS L, M, R,        \* the ensemble: left stop <= L, crossing >= M, right stop >= R
          MaxOld,         \* longest old path
          NSteps,         \* length of the scripted step sequences
          MaxLengths      \* set of tis_set maxlength values

VARIABLES old, idx, xi, back, forw, maxlength, done, res
vars == <<old, idx, xi, back, forw, maxlength, done, res>>

Sites == (L)..(R)
OldPaths == {p \in UNION {[1..k -> Sites] : k \in 3..MaxOld} :
               /\ MemberPlus(p, L, M, R)
               /\ \A k \in 1..(Len(p)-1) : p[k+1] - p[k] \in {-1, 1}}
StepSeqs == [1..NSteps -> {-1, 1}]

Init == /\ old \in OldPaths
        /\ idx \in 2..(Len(old) - 1)            \* 1-based; the code's index is idx - 1, never an end point
        /\ xi \in {"below", "above", "tiny"}      \* the drawn number relative to n_old / n_new
        /\ back \in StepSeqs /\ forw \in StepSeqs
        /\ maxlength \in MaxLengths
        /\ done = FALSE /\ res = <<>>

Apply ==
  /\ ~done /\ done' = TRUE
  /\ LET xs  == old[idx]
         wb  == Walk(xs, back, L, R, L - 5)
         wf  == Walk(xs, forw, L, R, L - 5)
         tr  == RevSeq(wb[1]) \o Tail(wf[1])
         complete == wb[2] /\ wf[2]                       \* both trajectories reach an interface
         nold == Len(old) - 2
         nnew == Len(tr) - 2
         ok  == /\ complete
                /\ Len(tr) <= maxlength
                /\ xi # "above"
                /\ OutL(tr[1], L)                          \* backward part ends on the allowed side
                /\ SeqMaxI(tr) >= M                        \* crosses the ensemble's interface
     IN res' = [complete |-> complete, trial |-> tr, nold |-> nold, nnew |-> nnew, accept |-> ok,
                shootpos |-> Len(wb[1])]
  /\ UNCHANGED <<old, idx, xi, back, forw, maxlength>>
Next == Apply
Spec == Init /\ [][Next]_vars

(* what the property promises about every accepted trial *)
AcceptedIsMember == (done /\ res.accept) =>
   /\ MemberPlus(res.trial, L, M, R) /\ Len(res.trial) <= maxlength
   /\ res.trial[res.shootpos] = old[idx]
   /\ \A k \in 1..(Len(res.trial)-1) : res.trial[k+1] - res.trial[k] \in {-1, 0, 1}
(* C01: detailed balance of the length rule.  A shooting point is chosen with probability 1/n_old *)
(* and the trial of n_new interior points accepted with probability Acc(n_old, n_new):            *)
(* Acc(a,b)/a = Acc(b,a)/b must hold.  The rule of the property, min(1, a/b), satisfies it; the   *)
(* rule min(1, a/(b+1)) - what add_to_path implemented before the fix - does not (a lead).        *)
AccR(a, b) == IF a >= b THEN <<1, 1>> ELSE <<a, b>>
AccI(a, b) == IF a >= b + 1 THEN <<1, 1>> ELSE <<a, b + 1>>
Balanced(Acc(_, _)) == \A a, b \in 1..8 : Acc(a, b)[1] * Acc(b, a)[2] * b = Acc(b, a)[1] * Acc(a, b)[2] * a
LengthRuleBalanced == Balanced(AccR)
ImplementedRuleBalanced == Balanced(AccI)
=============================================================================
