------------------------------ MODULE PathAlg ------------------------------
(***************************************************************************)
(* C15.  The algebra of paths: a path is a sequence of frames, a frame is a  *)
(* record [id, op, rev] (identity of the configuration it references, order  *)
(* parameter, velocity-reversed flag).                                       *)
(*                                                                           *)
(* Every initial state is one case (an operation and its arguments); the     *)
(* single action Apply computes the result the property demands.  The dump   *)
(* of the state graph is the oracle for the real paste_paths / Path.reverse  *)
(* / Path.copy / Path.__iadd__ / check_interfaces / get_start_point / ...    *)
(***************************************************************************)
EXTENDS Integers, Sequences, FiniteSets, TLC

CONSTANTS MaxLen,   \* longest argument path
          Ops,      \* order-parameter values, e.g. 0..2
          Cases     \* which families to enumerate: subset of {"paste","reverse","iadd","classify"}

VARIABLES kind, a, b, flag, lim, intf, res, done
vars == <<kind, a, b, flag, lim, intf, res, done>>

Frames   == [op : Ops, rev : BOOLEAN]
PathsUpTo(n) == UNION {[1..k -> Frames] : k \in 0..n}
(* identity of a frame = (which argument, position); the harness maps real objects back to it *)
Tag(p, who) == [k \in 1..Len(p) |-> [src |-> who, pos |-> k, op |-> p[k].op, rev |-> p[k].rev]]

RevSeq(s) == [k \in 1..Len(s) |-> s[Len(s) + 1 - k]]
Trunc(s, n) == IF Len(s) <= n THEN s ELSE SubSeq(s, 1, n)

(* paste_paths(back, forw, overlap, maxlen): the backward segment in reverse order, then the   *)
(* forward segment without its first frame if they share the shooting point; cut at the limit. *)
Paste(back, forw, overlap, maxlen) ==
  Trunc(RevSeq(back) \o (IF overlap /\ Len(forw) > 0 THEN Tail(forw) ELSE forw), maxlen)

(* Path.reverse: frame order reversed, every velocity flag flipped *)
Reverse(p) == [k \in 1..Len(p) |-> [p[Len(p) + 1 - k] EXCEPT !.rev = ~@]]

(* self += other, self.maxlen = lim: frames of other are appended (as copies) until the limit *)
IAdd(p, q, maxlen) == Trunc(p \o q, IF Len(p) > maxlen THEN Len(p) ELSE maxlen)

SeqMin(s) == CHOOSE x \in {s[k].op : k \in 1..Len(s)} : \A y \in {s[k].op : k \in 1..Len(s)} : x <= y
SeqMax(s) == CHOOSE x \in {s[k].op : k \in 1..Len(s)} : \A y \in {s[k].op : k \in 1..Len(s)} : x >= y
StartOf(s, l, r) == IF s[1].op <= l THEN "L" ELSE IF s[1].op >= r THEN "R" ELSE "?"
EndOf(s, l, r)   == IF s[Len(s)].op <= l THEN "L" ELSE IF s[Len(s)].op >= r THEN "R" ELSE "None"
Cross(s, x)      == SeqMin(s) < x /\ x <= SeqMax(s)
Classify(s, i)   == [start |-> StartOf(s, i[1], i[3]), end |-> EndOf(s, i[1], i[3]),
                     cross |-> <<Cross(s, i[1]), Cross(s, i[2]), Cross(s, i[3])>>,
                     middle |-> IF Cross(s, i[2]) THEN "M" ELSE "*",
                     min |-> SeqMin(s), max |-> SeqMax(s)]

Triples == {t \in Ops \X Ops \X Ops : t[1] <= t[2] /\ t[2] <= t[3]}
NoRes   == <<>>

Init ==
  /\ done = FALSE /\ res = NoRes
  /\ \/ /\ "paste" \in Cases /\ kind = "paste"
        /\ a \in {Tag(p, "back") : p \in PathsUpTo(MaxLen)} /\ b \in {Tag(p, "forw") : p \in PathsUpTo(MaxLen)}
        /\ flag \in BOOLEAN /\ lim \in 1..(2 * MaxLen) /\ intf = <<0, 0, 0>>
     \/ /\ "reverse" \in Cases /\ kind = "reverse"
        /\ a \in {Tag(p, "a") : p \in PathsUpTo(MaxLen + 1)} /\ b = <<>> /\ flag = FALSE /\ lim = 0 /\ intf = <<0, 0, 0>>
     \/ /\ "iadd" \in Cases /\ kind = "iadd"
        /\ a \in {Tag(p, "a") : p \in PathsUpTo(MaxLen)} /\ b \in {Tag(p, "b") : p \in PathsUpTo(MaxLen)}
        /\ flag = FALSE /\ lim \in 1..(2 * MaxLen) /\ intf = <<0, 0, 0>>
     \/ /\ "classify" \in Cases /\ kind = "classify"
        /\ a \in {Tag(p, "a") : p \in PathsUpTo(MaxLen + 1) \ {<<>>}} /\ b = <<>> /\ flag = FALSE /\ lim = 0
        /\ intf \in Triples

Apply ==
  /\ ~done /\ done' = TRUE
  /\ res' = CASE kind = "paste"    -> [out |-> Paste(a, b, flag, lim)]
              [] kind = "reverse"  -> [out |-> Reverse(a), twice |-> Reverse(Reverse(a))]
              [] kind = "iadd"     -> [out |-> IAdd(a, b, lim)]
              [] kind = "classify" -> Classify(a, intf)
  /\ UNCHANGED <<kind, a, b, flag, lim, intf>>
Next == Apply
Spec == Init /\ [][Next]_vars

(* the laws the property states, checked on the model's own definitions *)
PasteLength == (done /\ kind = "paste") =>
   LET full == Len(a) + Len(b) - (IF flag /\ Len(b) > 0 THEN 1 ELSE 0) IN
   /\ Len(res.out) = (IF full <= lim THEN full ELSE lim)
   /\ (Len(a) > 0) => (res.out[1].src = "back" /\ res.out[1].pos = Len(a))
PasteOrdered == (done /\ kind = "paste") =>
   \A k \in 1..(Len(res.out) - 1) :
      \/ (res.out[k].src = "back" /\ res.out[k+1].src = "back" /\ res.out[k+1].pos = res.out[k].pos - 1)
      \/ (res.out[k].src = "back" /\ res.out[k+1].src = "forw" /\ res.out[k].pos = 1
              /\ res.out[k+1].pos = (IF flag THEN 2 ELSE 1))
      \/ (res.out[k].src = "forw" /\ res.out[k+1].src = "forw" /\ res.out[k+1].pos = res.out[k].pos + 1)
ReverseTwice == (done /\ kind = "reverse") =>
   /\ res.twice = a
   /\ Len(res.out) = Len(a)
   /\ \A k \in 1..Len(a) : res.out[k].pos = Len(a) + 1 - k /\ res.out[k].rev = ~a[Len(a) + 1 - k].rev
ClassifyAgrees == (done /\ kind = "classify") =>
   /\ (res.start = "L") <=> (a[1].op <= intf[1])
   /\ (res.end = "R") <=> (a[Len(a)].op >= intf[3] /\ ~(a[Len(a)].op <= intf[1]))
   /\ \A k \in 1..3 : res.cross[k] <=> (res.min < intf[k] /\ intf[k] <= res.max)
=============================================================================
