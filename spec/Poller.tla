------------------------------- MODULE Poller -------------------------------
(***************************************************************************)
(* C13 and C12: an external MD program appends frames to a trajectory file   *)
(* while infretis polls it.                                                  *)
(*                                                                           *)
(* The file is a byte sequence that only grows.  The program's complete       *)
(* output is F frames of U units each (a unit stands for a run of bytes: the  *)
(* last unit of a frame is its final line terminator, the unit before it the  *)
(* last value of the frame).  Reader state: how many frames it has returned.  *)
(*                                                                           *)
(* Layer R for a poll: it does not raise, and it returns, in order and each   *)
(* once, the frames out+1 .. m for some m between Strict(written) (frames     *)
(* whose every byte is on disk) and Loose(written) (frames whose every value  *)
(* byte is on disk; only the final terminator may be missing).                *)
(*                                                                           *)
(* Engine part: the poller processes the frames it has read one by one with   *)
(* the stop rule; when a frame is outside the interfaces (or the length       *)
(* limit is reached) it stops the program; a program that exits with a        *)
(* non-zero code without having been stopped makes the engine raise.          *)
(***************************************************************************)
EXTENDS Integers, Sequences, FiniteSets, TLC

CONSTANTS F,        \* frames the program will write
          U,        \* units per frame
          MaxPolls,
          StopAt,   \* index of the first frame outside the interfaces (F+1: none)
          MaxLen,   \* length limit of the path
          ExitCodes \* possible exit codes of the program

VARIABLES written,  \* units on disk
          out,      \* frames returned by the reader so far
          npoll,
          cuts,     \* history: written at each poll (the cut sequence handed to the harness)
          prog,     \* "running" | "exited" | "killed"
          code,     \* exit code once exited
          path,     \* frames accepted into the path so far
          result    \* "none" | "success" | "maxlen" | "raised"
vars == <<written, out, npoll, cuts, prog, code, path, result>>

Total == F * U
Strict(w) == w \div U
Loose(w)  == (w + 1) \div U

Init == /\ written = 0 /\ out = 0 /\ npoll = 0 /\ cuts = <<>>
        /\ prog = "running" /\ code = 0 /\ path = 0 /\ result = "none"

Write(n) == /\ prog = "running" /\ result = "none" /\ n >= 1 /\ written + n <= Total
            /\ written' = written + n
            /\ UNCHANGED <<out, npoll, cuts, prog, code, path, result>>
Exit(c)  == /\ prog = "running" /\ result = "none" /\ c \in ExitCodes
            /\ prog' = "exited" /\ code' = c
            /\ UNCHANGED <<written, out, npoll, cuts, path, result>>

(* one poll of the reader followed by the processing of what it returned *)
Poll == /\ result = "none" /\ npoll < MaxPolls
        /\ npoll' = npoll + 1 /\ cuts' = Append(cuts, written)
        /\ \E m \in Strict(written)..Loose(written) :
             LET m2 == IF m < out THEN out ELSE m
                 \* frames out+1..m2 are processed with the stop rule, one by one
                 hit  == StopAt <= m2 /\ StopAt > out          \* a processed frame is outside
                 full == MaxLen <= m2 /\ MaxLen > out /\ ~(StopAt <= MaxLen)
             IN /\ out' = m2
                /\ IF hit THEN /\ path' = StopAt /\ result' = "success"
                               /\ prog' = IF prog = "running" THEN "killed" ELSE prog
                   ELSE IF full THEN /\ path' = MaxLen /\ result' = "maxlen"
                                     /\ prog' = IF prog = "running" THEN "killed" ELSE prog
                   ELSE IF prog = "exited" /\ code # 0 THEN path' = m2 /\ result' = "raised" /\ prog' = prog
                   ELSE path' = m2 /\ result' = "none" /\ prog' = prog
        /\ UNCHANGED <<written, code>>

Next == (\E n \in 1..U : Write(n)) \/ (\E c \in ExitCodes : Exit(c)) \/ Poll
Spec == Init /\ [][Next]_vars

(* C13 *)
NoTornFrame   == out <= Loose(written)
EachOnce      == out >= 0 /\ (npoll > 0 => out >= Strict(cuts[Len(cuts)]))
(* C12 *)
StopsAtFirstOutside == (result = "success") => path = StopAt
ProgramStopped      == (result \in {"success", "maxlen"}) => prog # "running"
FailureRaises       == (prog = "exited" /\ code # 0 /\ result # "none") => result \in {"raised", "success", "maxlen"}
=============================================================================
