---------------------------- MODULE TraceEngine ----------------------------
(***************************************************************************)
(* Trace specification for C12.  Every recorded propagation of a real       *)
(* engine class is one event: in-process engines (TurtleMD, ASE, the        *)
(* lattice plug-in) run for real; GROMACS, CP2K and LAMMPS run through       *)
(* EngineBase.propagate against an impersonated program whose output timing  *)
(* follows a Poller.tla schedule and whose dynamics is time reversible.      *)
(*                                                                           *)
(* The event carries raw numbers (micro-units), the clauses are evaluated    *)
(* here:                                                                     *)
(*   stored[k]   order parameter stored in the k-th frame of the path        *)
(*   recomp[k]   the one recomputed (by the harness' own parser) from the    *)
(*               configuration that frame references, using that frame's     *)
(*               coordinates, box and velocity-direction flag                *)
(*   expect[k]   what a program started from the given phase point in the    *)
(*               requested direction produces (<<>>: not known)              *)
(*   start       order parameter of the phase point handed to propagate      *)
(*   refs, vrev  frame index and velocity-direction flag of each frame       *)
(*   retrace / retrace_of   a backward propagation from a frame of a forward *)
(*               path, and the forward frames it has to retrace              *)
(***************************************************************************)
EXTENDS Integers, Sequences, FiniteSets, TLC, Json, IOUtils

Tr == ndJsonDeserialize(IOEnv.TRACE_FILE)
VARIABLES l, bad
tvars == <<l, bad>>

TOL  == 50       \* stored vs recomputed from the referenced frame (file precision)
TOLX == 3000     \* against the reference dynamics (round trips through text / single precision)
Abs(x) == IF x < 0 THEN -x ELSE x
Cls(ev, k) == IF ev.stored[k] < ev.left THEN 1 ELSE IF ev.stored[k] > ev.right THEN 2 ELSE 0

Clauses(ev) ==
  LET n == Len(ev.stored) IN
  [ E_Returned       |-> ev.raised => (ev.must_raise \/ ev.may_raise),
    E_FailureRaises  |-> ev.must_raise => ev.raised,
    E_FirstIsStart   |-> ~ev.raised => (n >= 1 /\ Abs(ev.stored[1] - ev.start) <= TOL),
    E_FramesInOrder  |-> ~ev.raised => (ev.samefile /\ Len(ev.refs) = n /\ \A k \in 1..n : ev.refs[k] = k - 1),
    E_OrdersRecomputed |-> ~ev.raised => (Len(ev.recomp) = n /\ \A k \in 1..n : Abs(ev.stored[k] - ev.recomp[k]) <= TOL),
    E_VelocityDirection |-> ~ev.raised => (Len(ev.vrev) = n /\ \A k \in 1..n : ev.vrev[k] = ev.reverse),
    E_RanFromStart   |-> (~ev.raised /\ Len(ev.expect) > 0) =>
                           \A k \in 1..n : k <= Len(ev.expect) /\ Abs(ev.stored[k] - ev.expect[k]) <= TOLX,
    E_StopRule       |-> ~ev.raised =>
                           /\ n >= 1 /\ n <= ev.maxlen
                           /\ \A k \in 1..(n - 1) : Cls(ev, k) = 0
                           /\ ev.success <=> (Cls(ev, n) # 0)
                           /\ ~ev.success => n = ev.maxlen,
    E_ProgramStopped |-> ev.program_stopped,
    E_Request        |-> ev.request_ok,
    E_Retrace        |-> Len(ev.retrace_of) > 0 =>
                           /\ Len(ev.retrace) = Len(ev.retrace_of)
                           /\ \A k \in 1..Len(ev.retrace) : Abs(ev.retrace[k] - ev.retrace_of[k]) <= TOLX ]
Failed(rec) == {n \in DOMAIN rec : ~rec[n]}
Note(idx, names) == LET RECURSIVE F(_)
                        F(S) == IF S = {} THEN <<>> ELSE
                                LET n == CHOOSE x \in S : TRUE IN <<<<idx, n>>>> \o F(S \ {n})
                    IN F(names)
TInit == l = 1 /\ bad = <<>>
TNext == /\ l <= Len(Tr) /\ l' = l + 1 /\ bad' = bad \o Note(l, Failed(Clauses(Tr[l])))
TSpec == TInit /\ [][TNext]_tvars
Report == (l = Len(Tr) + 1) =>
            /\ \A k \in 1..Len(bad) : PrintT(<<"BADCLAUSE", bad[k][1], bad[k][2]>>)
            /\ PrintT(<<"TRACE-CONSUMED", Len(Tr), Len(bad)>>)
=============================================================================
