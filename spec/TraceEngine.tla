---------------------------- MODULE TraceEngine ----------------------------
(***************************************************************************)
(* Trace specification for C12: every recorded propagation of a real engine  *)
(* (in-process engines run for real; external engines run against a fake     *)
(* program whose output timing follows a Poller.tla schedule) is checked      *)
(* against the engine part of Poller.tla: the path starts at the given        *)
(* point, every stored order parameter equals the one recomputed from the     *)
(* configuration the frame references, the stop rule, the program is          *)
(* stopped, a failing program raises.  cls[k]: 0 inside, 1 left, 2 right.     *)
(***************************************************************************)
EXTENDS Integers, Sequences, FiniteSets, TLC, Json, IOUtils

Tr == ndJsonDeserialize(IOEnv.TRACE_FILE)
VARIABLES l, bad
tvars == <<l, bad>>

Clauses(ev) ==
  [ E_Returned       |-> ev.raised => ev.must_raise,
    E_FailureRaises  |-> ev.must_raise => ev.raised,
    E_FirstIsStart   |-> ~ev.raised => ev.first_is_start,
    E_FramesInOrder  |-> ~ev.raised => ev.frames_reference_k,
    E_OrdersRecomputed |-> ~ev.raised => ev.orders_match,
    E_StopRule       |-> ~ev.raised =>
                           /\ Len(ev.cls) >= 1 /\ Len(ev.cls) <= ev.maxlen
                           /\ \A k \in 1..(Len(ev.cls) - 1) : ev.cls[k] = 0
                           /\ ev.success <=> (ev.cls[Len(ev.cls)] # 0)
                           /\ ~ev.success => Len(ev.cls) = ev.maxlen,
    E_ExpectedLength |-> (~ev.raised /\ ev.expected_len > 0) => Len(ev.cls) = ev.expected_len,
    E_ProgramStopped |-> ~ev.raised => ev.program_stopped,
    E_Retrace        |-> ev.retrace_checked => ev.retrace_ok ]
Failed(rec) == {n \in DOMAIN rec : ~rec[n]}
Note(idx, names) == LET RECURSIVE F(_)
                        F(S) == IF S = {} THEN <<>> ELSE
                                LET n == CHOOSE x \in S : TRUE IN <<<<idx, n>>>> \o F(S \ {n})
                    IN F(names)
TInit == l = 1 /\ bad = <<>>
TNext == /\ l <= Len(Tr) /\ l' = l + 1 /\ bad' = bad \o Note(l, Failed(Clauses(Tr[l])))
TSpec == TInit /\ [][TNext]_tvars
Report == (l = Len(Tr) + 1) =>
            /\ \A k \in 1..Len(bad) : PrintT(<<"BADCLAUSE", bad[k][1], bad[k][2]>>)
            /\ PrintT(<<"TRACE-CONSUMED", Len(Tr), Len(bad)>>)
=============================================================================
