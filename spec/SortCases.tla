----------------------------- MODULE SortCases -----------------------------
(***************************************************************************)
(* C05 (and C03/C04 through the same replay): the states in which           *)
(* sort_trajstate is called, built the way the sampler builds them, with     *)
(* weights that are not 0/1.                                                 *)
(*                                                                           *)
(* A sorted arrangement (every plus ensemble e holds a path whose weight     *)
(* row is a staircase reaching at least e) is disturbed by up to K picks:    *)
(* Pick(i, e) moves the path of slot i into ensemble e, which becomes busy,  *)
(* and leaves the displaced path of e in slot i, possibly where its weight   *)
(* is zero.  As in the program a pick has non-zero probability only if the   *)
(* rest of the idle block still admits a perfect matching (P = W * perm of   *)
(* the minor / perm).  Then one busy ensemble completes with a new path      *)
(* (any staircase reaching at least its ensemble) - that is the moment       *)
(* treat_output calls sort_trajstate.  Heavy gives the non-zero weights      *)
(* magnitudes: in column j the row h[j] weighs 2, the others 1 (wire-fencing *)
(* weights: the heaviest entry of a column is not the first one).            *)
(*                                                                           *)
(* Every `done` state is one case; the harness runs the real                 *)
(* sort_trajstate on it and checks the law stated in Apply.                  *)
(***************************************************************************)
EXTENDS Integers, FiniteSets, TLC

CONSTANTS N,      \* ensembles including [0-]
          K       \* at most K picks before the completion

Ens  == 0..(N-1)
Plus == 1..(N-1)
Stair(r) == [j \in Ens |-> IF j >= 1 /\ j <= r THEN 1 ELSE 0]
Minus    == [j \in Ens |-> IF j = 0 THEN 1 ELSE 0]

VARIABLES rows,    \* [Ens -> [Ens -> 0..2]]  weight row of the path sitting in each slot
          lock,    \* SUBSET Ens   busy ensembles
          npick, phase, law
vars == <<rows, lock, npick, phase, law>>

(* the idle block admits a perfect matching *)
Matchable(rw, idle) ==
  \E f \in [idle -> idle] :
     /\ \A a, b \in idle : a # b => f[a] # f[b]
     /\ \A x \in idle : rw[f[x]][x] > 0

SwapRows(rw, a, b) == [x \in Ens |-> IF x = a THEN rw[b] ELSE IF x = b THEN rw[a] ELSE rw[x]]

Init == /\ \E reach \in [Plus -> Plus] :
             /\ \A e \in Plus : reach[e] >= e
             /\ rows = [x \in Ens |-> IF x = 0 THEN Minus ELSE Stair(reach[x])]
        /\ lock = {} /\ npick = 0 /\ phase = "pick" /\ law = "?"

Pick(i, e) ==
  /\ phase = "pick" /\ npick < K
  /\ i \in Plus \ lock /\ e \in Plus \ lock
  /\ rows[i][e] > 0
  /\ LET rw == SwapRows(rows, i, e) IN
       /\ Matchable(rw, (Ens \ lock) \ {e})
       /\ rows' = rw
  /\ lock' = lock \cup {e} /\ npick' = npick + 1
  /\ UNCHANGED <<phase, law>>

Complete(e, r) ==
  /\ phase = "pick" /\ e \in lock /\ r \in Plus /\ r >= e
  /\ rows' = [rows EXCEPT ![e] = Stair(r)]
  /\ lock' = lock \ {e}
  /\ phase' = "heavy"
  /\ UNCHANGED <<npick, law>>

Heavy(h) ==
  /\ phase = "heavy"
  /\ rows' = [x \in Ens |-> [j \in Ens |-> IF rows[x][j] = 0 THEN 0 ELSE IF j \in Plus /\ h[j] = x THEN 2 ELSE 1]]
  /\ phase' = "done"
  /\ law' = "sort_trajstate returns; busy ensembles keep their paths; the paths are permuted, each with its own weight row; every idle ensemble ends with a path whose weight there is non-zero; the busy marks are unchanged"
  /\ UNCHANGED <<lock, npick>>

Next == \/ \E i, e \in Plus : Pick(i, e)
        \/ \E e, r \in Plus : Complete(e, r)
        \/ \E h \in [Plus -> Plus] : Heavy(h)
Spec == Init /\ [][Next]_vars

(* the model's own sanity: a case is always sortable, so the law can be demanded *)
Sortable == (phase \in {"heavy", "done"}) => Matchable(rows, Ens \ lock)
BusyValid == \A e \in lock : rows[e][e] > 0
=============================================================================
