----------------------------- MODULE WireFence -----------------------------
(***************************************************************************)
(* C10.  Wire-fencing weights of a path (a sequence of order values) for a   *)
(* region [left, right) = [lambda_i, cap).                                   *)
(*                                                                           *)
(* Layer R (Decl...): the frames inside the region that lie on a maximal run *)
(* of inside frames which is entered and left within the path, unless it is  *)
(* entered from the right and left to the right.                             *)
(* Layer I (Lit...): the scan of tis.wirefence_weight_and_pick, transcribed  *)
(* statement by statement.  TLC checks Literal = Declarative on every        *)
(* sequence, symmetry under time reversal and positivity.                    *)
(***************************************************************************)
EXTENDS Integers, Sequences, FiniteSets, TLC

CONSTANTS MaxLen, Vals, Pairs     \* Pairs: set of <<left, right>>

VARIABLES ops, lr, done, res
vars == <<ops, lr, done, res>>

Inside(x, l, r) == l <= x /\ x < r
RevSeq(s) == [k \in 1..Len(s) |-> s[Len(s) + 1 - k]]

(* ---- Layer R ---------------------------------------------------------- *)
(* maximal runs <<s, e>> (1-based, inclusive) of inside frames with a predecessor and a successor *)
Runs(s, l, r) ==
  {<<a, b>> \in (2..(Len(s)-1)) \X (2..(Len(s)-1)) :
      /\ a <= b
      /\ \A k \in a..b : Inside(s[k], l, r)
      /\ ~Inside(s[a-1], l, r) /\ ~Inside(s[b+1], l, r)}
Side(x, l) == IF x < l THEN "L" ELSE "R"
Counted(s, l, r) == {run \in Runs(s, l, r) : ~(Side(s[run[1]-1], l) = "R" /\ Side(s[run[2]+1], l) = "R")}
RECURSIVE SumCounts(_)
SumCounts(S) == IF S = {} THEN 0 ELSE LET x == CHOOSE y \in S : TRUE IN (x[2] - x[1] + 1) + SumCounts(S \ {x})
DeclWeight(s, l, r) == SumCounts(Counted(s, l, r))
(* segments in path order as <<entry index, exit index, count>>, 0-based like the code *)
RECURSIVE SortRuns(_)
SortRuns(S) == IF S = {} THEN <<>> ELSE
               LET m == CHOOSE x \in S : \A y \in S : x[1] <= y[1]
               IN <<<<m[1] - 2, m[2], m[2] - m[1] + 1>>>> \o SortRuns(S \ {m})
DeclSegments(s, l, r) == SortRuns(Counted(s, l, r))

(* ---- Layer I ---------------------------------------------------------- *)
RECURSIVE Scan(_, _, _, _, _)
Scan(s, l, r, i, st) ==      \* i is the code's loop index (0-based); st = [kl, kr, isave, arr]
  IF i > Len(s) - 2 THEN st.arr ELSE
  LET op1 == s[i+1]
      op2 == s[i+2]
      st2 == IF (op1 < l /\ op2 >= r) \/ (op2 < l /\ op1 >= r) THEN st
             ELSE IF op2 >= l /\ l > op1 /\ ~st.kl THEN [st EXCEPT !.isave = i, !.kl = TRUE]
             ELSE IF op2 < r /\ r <= op1 /\ ~st.kr THEN [st EXCEPT !.isave = i, !.kr = TRUE]
             ELSE IF st.kr /\ op2 >= r /\ r > op1 THEN [st EXCEPT !.kl = FALSE, !.kr = FALSE]
             ELSE IF (st.kl \/ st.kr) /\ ((op2 < l /\ l <= op1) \/ (op2 >= r /\ r > op1))
                  THEN [st EXCEPT !.kl = FALSE, !.kr = FALSE, !.arr = Append(st.arr, <<st.isave, i + 1, i - st.isave>>)]
             ELSE st
  IN Scan(s, l, r, i + 1, st2)
LitSegments(s, l, r) == Scan(s, l, r, 0, [kl |-> FALSE, kr |-> FALSE, isave |-> 0, arr |-> <<>>])
RECURSIVE SumThird(_)
SumThird(a) == IF a = <<>> THEN 0 ELSE a[1][3] + SumThird(Tail(a))
LitWeight(s, l, r) == SumThird(LitSegments(s, l, r))

(* compute_weight: doubled when the path connects the two outer sides (lambda_0, cap) *)
StartSide(s, l0, r) == IF s[1] <= l0 THEN "L" ELSE IF s[1] >= r THEN "R" ELSE "?"
EndSide(s, l0, r)   == IF s[Len(s)] <= l0 THEN "L" ELSE IF s[Len(s)] >= r THEN "R" ELSE "None"

Seqs == UNION {[1..k -> Vals] : k \in 2..MaxLen}
Init == /\ ops \in Seqs /\ lr \in Pairs /\ done = FALSE /\ res = <<>>
Apply == /\ ~done /\ done' = TRUE
         /\ res' = [w |-> DeclWeight(ops, lr[1], lr[2]), segs |-> DeclSegments(ops, lr[1], lr[2]),
                    wrev |-> DeclWeight(RevSeq(ops), lr[1], lr[2])]
         /\ UNCHANGED <<ops, lr>>
Next == Apply
Spec == Init /\ [][Next]_vars

LiteralIsDeclarative == done => (LitSegments(ops, lr[1], lr[2]) = res.segs /\ LitWeight(ops, lr[1], lr[2]) = res.w)
ReversalSymmetric    == done => res.w = res.wrev
PositiveIffFrame     == done => ((res.w > 0) <=> (Counted(ops, lr[1], lr[2]) # {}))
SegmentsSpanEntryToExit == done => \A k \in 1..Len(res.segs) :
                              /\ res.segs[k][2] - res.segs[k][1] - 1 = res.segs[k][3]
                              /\ ~Inside(ops[res.segs[k][1] + 1], lr[1], lr[2]) /\ ~Inside(ops[res.segs[k][2] + 1], lr[1], lr[2])
=============================================================================
