----------------------------- MODULE TraceCrash -----------------------------
(***************************************************************************)
(* Trace specification for C08 (code -> spec).  The interposer logs every   *)
(* file-system effect of the real main process - over several lifetimes,    *)
(* with the crash that ended each - and what the restarted program saw.     *)
(* harness/crashtrace.py names each effect by the Crash.tla action it is;   *)
(* this module applies the very operators of Crash.tla (FxStoreDone, FxRow, *)
(* FxTmp, FxReplace, FxRestart, ...) to a model disk and memory, checks     *)
(* that the real program performs its effects in the order the protocol     *)
(* prescribes, and compares what the model predicts with what was observed  *)
(* on the real disk after every completed step and after every restart.     *)
(* A total monitor: every event is consumed, a failed clause is recorded by  *)
(* name, the model re-synchronises on the observation.                      *)
(***************************************************************************)
EXTENDS Crash, Json, IOUtils

Tr == ndJsonDeserialize(IOEnv.TRACE_FILE)
VARIABLES l, bad
tvars == <<l, bad, up, mem, pc, job, disk, ncrash>>

SeqToSet(s) == {s[i] : i \in DOMAIN s}
ev == Tr[l]

(* the k-th new path is complete: move to the next picked ensemble, or the move is in memory *)
AfterStoreDone(m, j) == IF j.k = Len(j.olds) THEN <<MemAfterMove(m, j), "row", j>>
                                             ELSE <<m, "store", [j EXCEPT !.k = @ + 1]>>

RowsOnceObserved(rows, active, next) ==
  /\ \A i \in DOMAIN rows : rows[i] >= 0 /\ rows[i] < next /\ rows[i] \notin active
  /\ \A i, j \in DOMAIN rows : i # j => rows[i] # rows[j]
  /\ \A p \in 0..(next - 1) : p \notin active => \E i \in DOMAIN rows : rows[i] = p

Clauses ==
  CASE ev.a = "Init" -> [T_Init |-> TRUE]
    [] ev.a = "Begin" ->
         [ T_OrderBegin |-> up /\ pc = "idle",
           T_OldsLive   |-> SeqToSet(ev.olds) \subseteq mem.active ]
    [] ev.a = "Store" ->
         [ T_OrderStore |-> up /\ pc = "store" /\ job.k <= Len(job.news) /\ ev.p = job.news[job.k] ]
    [] ev.a = "Delete" ->
         [ T_OrderDelete |-> up /\ pc \in {"store", "row"},
           T_DeleteSafe  |-> /\ ev.p \notin mem.active /\ ev.p \notin SeqToSet(job.olds) /\ ev.p \notin SeqToSet(job.news)
                             /\ (IsRec(disk.restart) => ev.p \notin disk.restart.active) ]
    [] ev.a = "Row" ->
         [ T_OrderRow |-> up /\ pc = "row" ]
    [] ev.a = "Tmp" ->
         [ T_OrderTmp |-> up /\ pc \in {"tmp", "idle"} ]
    [] ev.a = "Replace" ->
         [ T_OrderReplace |-> up /\ pc \in {"replace", "ireplace"} ]
    [] ev.a = "Crash" -> [ T_Crash |-> up ]
    [] ev.a = "Restart" ->
         [ T_Startable     |-> CanRestartFrom(disk),
           T_ActiveFromRestart |-> IsRec(disk.restart) => SeqToSet(ev.active) = disk.restart.active,
           T_NextFromRestart   |-> IsRec(disk.restart) => ev.next = disk.restart.next,
           T_RowsAfterRestart  |-> IsRec(disk.restart) => ev.rows = FxRestart(disk).rows,
           T_RowsNotLive   |-> \A i \in DOMAIN ev.rows : ev.rows[i] \notin SeqToSet(ev.active) /\ ev.rows[i] < ev.next /\ ev.rows[i] >= 0 ]
    [] ev.a = "Refused" -> [ T_Refused |-> FALSE ]
    [] ev.a = "Check" ->
         [ T_OrderCheck |-> up /\ pc = "idle",
           T_Rows     |-> ev.rows = disk.rows,
           T_Active   |-> SeqToSet(ev.active) = mem.active,
           T_Next     |-> ev.next = mem.next,
           T_RowsOnce |-> RowsOnceObserved(ev.rows, SeqToSet(ev.active), ev.next),
           T_RestartIsMemory |-> IsRec(disk.restart) /\ disk.restart.active = mem.active /\ disk.restart.next = mem.next,
           T_LiveHaveFiles   |-> mem.active \subseteq disk.files ]
    [] OTHER -> [ T_KnownEvent |-> FALSE ]

Failed(rec) == {n \in DOMAIN rec : ~rec[n]}
Note(idx, names) == LET RECURSIVE F(_)
                        F(S) == IF S = {} THEN <<>> ELSE
                                LET n == CHOOSE x \in S : TRUE IN <<<<idx, n>>>> \o F(S \ {n})
                    IN F(names)

Apply ==
  CASE ev.a = "Init" ->
         /\ up' = TRUE /\ pc' = "idle" /\ job' = NoJob /\ mem' = MemInit(ev.n0) /\ disk' = DiskInit(ev.n0) /\ ncrash' = 0
    [] ev.a = "Begin" ->
         /\ job' = JobOf(mem, ev.olds, ev.acc)
         /\ pc' = IF ev.acc THEN "store" ELSE "tmp"
         /\ mem' = [mem EXCEPT !.cstep = @ + 1]
         /\ UNCHANGED <<up, disk, ncrash>>
    [] ev.a = "Store" ->
         IF ev.last /\ pc = "store" /\ job.k <= Len(job.news)
         THEN LET nx == AfterStoreDone(mem, job) IN
                /\ disk' = FxStoreDone(disk, ev.p) /\ mem' = nx[1] /\ pc' = nx[2] /\ job' = nx[3]
                /\ UNCHANGED <<up, ncrash>>
         ELSE /\ disk' = IF ev.last THEN FxStoreDone(disk, ev.p) ELSE FxStorePart(disk, ev.p)
              /\ UNCHANGED <<up, mem, pc, job, ncrash>>
    [] ev.a = "Delete" ->
         /\ disk' = FxDelete(disk, ev.p) /\ UNCHANGED <<up, mem, pc, job, ncrash>>
    [] ev.a = "Row" ->
         /\ disk' = FxRow(disk, job.olds) /\ pc' = "tmp" /\ UNCHANGED <<up, mem, job, ncrash>>
    [] ev.a = "Tmp" ->
         /\ disk' = FxTmp(disk, mem) /\ pc' = IF pc = "idle" THEN "ireplace" ELSE "replace"
         /\ UNCHANGED <<up, mem, job, ncrash>>
    [] ev.a = "Replace" ->
         /\ disk' = FxReplace(disk) /\ pc' = "idle" /\ job' = NoJob /\ UNCHANGED <<up, mem, ncrash>>
    [] ev.a = "Crash" ->
         /\ up' = FALSE /\ pc' = "down" /\ job' = NoJob /\ mem' = NoMem /\ ncrash' = ncrash + 1
         /\ disk' = IF ev.torn = "row" THEN FxTornRow(disk, job.olds, 0)
                    ELSE IF ev.torn = "tmp" THEN FxTornTmp(disk) ELSE disk
    [] ev.a = "Restart" ->
         /\ up' = TRUE /\ pc' = "idle" /\ job' = NoJob
         /\ mem' = [active |-> SeqToSet(ev.active), next |-> ev.next,
                    cstep |-> IF IsRec(disk.restart) THEN disk.restart.cstep ELSE 0, queue |-> <<>>, kept |-> <<>>]
         /\ disk' = [disk EXCEPT !.rows = ev.rows]            \* re-synchronise on what the program saw
         /\ UNCHANGED ncrash
    [] ev.a = "Check" ->
         /\ mem' = [mem EXCEPT !.active = SeqToSet(ev.active), !.next = ev.next]
         /\ disk' = [disk EXCEPT !.rows = ev.rows]
         /\ UNCHANGED <<up, pc, job, ncrash>>
    [] OTHER -> UNCHANGED <<up, mem, pc, job, disk, ncrash>>

TInit == /\ l = 1 /\ bad = <<>> /\ up = TRUE /\ pc = "idle" /\ job = NoJob /\ mem = MemInit(0) /\ disk = DiskInit(0) /\ ncrash = 0
TNext == /\ l <= Len(Tr) /\ l' = l + 1
         /\ bad' = bad \o Note(l, Failed(Clauses))
         /\ Apply
TSpec == TInit /\ [][TNext]_tvars
Report == (l = Len(Tr) + 1) =>
            /\ \A k \in 1..Len(bad) : PrintT(<<"BADCLAUSE", bad[k][1], bad[k][2]>>)
            /\ PrintT(<<"TRACE-CONSUMED", Len(Tr), Len(bad)>>)
=============================================================================
