------------------------------ MODULE Infretis ------------------------------
(***************************************************************************)
(* The infretis main process as a state machine (Layer R: what the listed   *)
(* properties allow; see DESIGN.md section 1).                              *)
(*                                                                           *)
(* One sequential main process (scheduler.py driving a REPEX_state) hands   *)
(* jobs to Workers worker slots ("pins") and consumes their results in any  *)
(* order.  The file system (restart file, data rows, path store) is what    *)
(* survives a stop.                                                          *)
(*                                                                           *)
(*   code                                   action                           *)
(*   initiate + prep_md_items (pick_lock)    InitPick(pin)  (Reissue | Draw)  *)
(*   loop + as_completed + treat_output      Complete(pin, ...)               *)
(*   prep_md_items (pick) for the same pin   LoopPick(pin)                    *)
(*   loop() returning False                  Finish                           *)
(*   process death                           Kill                             *)
(*   setup_config + REPEX_state + load_paths Restart                          *)
(***************************************************************************)
EXTENDS InfretisOps

CONSTANTS Workers,     \* 1..N-1
          Steps,       \* steps requested for the first run
          MoreSteps,   \* steps added when a finished run is restarted
          MaxPn,       \* largest path number that may be issued (bounds the model)
          WSet,        \* positive weights a new path may have in a plus column
          ZeroSwap,    \* BOOLEAN  zero swaps may be drawn
          MaxRestarts, \* bound on Kill/Restart cycles
          TrackFrac,   \* BOOLEAN  carry the fractional weights (exact rationals)
          EngTypes,    \* engine names
          EngNeed,     \* [Ens -> SUBSET EngTypes]   (ensemble_engines)
          LiteralOrd,  \* BOOLEAN  Layer I stream ordinals (the code before 36c2f14: ordinal := cstep at a restart)
          FormulaOrd,  \* BOOLEAN  Layer I (the code between 36c2f14 and fe85e87: ordinal := cstep + jobs in flight);
                       \*          both FALSE: Layer R, the count is part of the restart record (the code since fe85e87)
          VaryInit,    \* BOOLEAN  start from every valid set of loaded paths, not only the canonical one
          OverIssue    \* BOOLEAN  Layer I (the code before 7cc4d53): initiate() submits one job per worker whenever a step is
                       \*          left, also when fewer steps than workers are left; FALSE: never more jobs than steps left

Pins  == 0..(Workers-1)
Pn    == 0..MaxPn
NoJob == [ens |-> <<>>, pns |-> <<>>, ord |-> None]
NoRec == [cstep |-> None]

VARIABLES
  slot,      \* [Ens -> Pn]      the live path sitting in each ensemble slot
  wt,        \* [Pn -> [Ens -> Nat]]  weight vector of every path ever numbered
  lock,      \* SUBSET Ens       busy ensembles
  jobs,      \* [Pins -> job]    in-flight job of each worker slot
  lockedSeq, \* Seq(Pins)        in-flight jobs in the order they were drawn (state.locked)
  locked0,   \* Seq(<<ens, pns>>) jobs still to be re-issued after a restart
  cstep, tsteps, trajnum,
  started,   \* how many initial submissions have been made in this run
  pend,      \* pin whose result was just treated and that gets the next job, or None
  phase,     \* "init" | "loop" | "done" | "dead"
  ordn,      \* next stream ordinal
  engOcc,    \* [EngTypes -> Seq(Pins \cup {None})]  engine instance -> worker
  jobEng,    \* [Pins -> [EngTypes -> Nat]]  instance index held per type (0 = none)
  frac,      \* [Pn -> [Ens -> Rat]]
  rfile,     \* restart record on disk, or NoRec
  rows,      \* Seq([pn, frac])  data-file rows
  nrestart,
  \* history variables (observation only)
  usedOrd,   \* [ordinal -> job signature] for ordinals handed out and not forgotten by a Kill
  idleSteps, \* [Ens -> Nat] number of completed steps at which the ensemble was idle
  completed, \* number of Complete actions since the very beginning
  presort    \* the slot arrangement, weights and locks the last completed step handed to the re-sorting

vars == <<slot, wt, lock, jobs, lockedSeq, locked0, cstep, tsteps, trajnum, started, pend, phase,
          ordn, engOcc, jobEng, frac, rfile, rows, nrestart, usedOrd, idleSteps, completed, presort>>

---------------------------------------------------------------------------
WM(sl, w)     == [i \in Ens |-> w[sl[i]]]                  \* weight matrix, rows by slot
SetToSeqOrd(S) == LET RECURSIVE F(_)
                      F(T) == IF T = {} THEN <<>> ELSE
                              LET m == CHOOSE x \in T : \A y \in T : x <= y IN <<m>> \o F(T \ {m})
                  IN F(S)
EngCount(t)   == LET need == Cardinality({e \in Ens : t \in EngNeed[e]}) IN
                 IF need < Workers THEN need ELSE Workers

Support(sl, lk, w)   == SupportM(WM(sl, w), lk)
CanDrawIn(sl, lk, w) == CanDrawM(WM(sl, w), lk)

MinusRow    == [j \in Ens |-> IF j = 0 THEN 1 ELSE 0]
PlusRows(e) == {r \in [Ens -> {0} \cup WSet] :
                  /\ r[0] = 0
                  /\ \E reach \in e..(N-1) : \A j \in Plus : (j <= reach) <=> (r[j] > 0)}
NewRows(e)  == IF e = 0 THEN {MinusRow} ELSE PlusRows(e)

InFlightPins == {p \in Pins : jobs[p] # NoJob}
JobEns(j) == SeqSet(j.ens)
JobPns(j) == SeqSet(j.pns)
Sig(j) == <<j.ens, j.pns>>

ZeroFrac == [p \in Pn |-> [e \in Ens |-> RZero]]

---------------------------------------------------------------------------
InitialW == [p \in Pn |-> IF p = 0 THEN MinusRow
                          ELSE IF p < N THEN [j \in Ens |-> IF j >= 1 /\ j <= p THEN 1 ELSE 0]
                          ELSE [j \in Ens |-> 0]]
Init ==
  /\ slot = [e \in Ens |-> e]
  /\ wt \in IF ~VaryInit THEN {InitialW} ELSE
            { [p \in Pn |-> IF p = 0 THEN MinusRow ELSE IF p < N THEN r[p] ELSE [j \in Ens |-> 0]] :
                 r \in {q \in [Plus -> UNION {PlusRows(e) : e \in Plus}] : \A p \in Plus : q[p] \in PlusRows(p)} }
  /\ lock = {} /\ jobs = [p \in Pins |-> NoJob] /\ lockedSeq = <<>> /\ locked0 = <<>>
  /\ cstep = 0 /\ tsteps = Steps /\ trajnum = N /\ started = 0 /\ pend = None
  /\ phase = "init" /\ ordn = 0
  /\ engOcc = [t \in EngTypes |-> [k \in 1..EngCount(t) |-> None]]
  /\ jobEng = [p \in Pins |-> [t \in EngTypes |-> 0]]
  /\ frac = ZeroFrac /\ rfile = NoRec /\ rows = <<>> /\ nrestart = 0
  /\ usedOrd = [o \in {} |-> <<>>] /\ idleSteps = [e \in Ens |-> 0] /\ completed = 0
  /\ presort = <<>>

---------------------------------------------------------------------------
(* engine hand-out (factory.assign_engines): release what the pin held, then *)
(* take the lowest free instance of every type the job needs                 *)
Release(occ, pin) == [t \in EngTypes |-> [k \in DOMAIN occ[t] |-> IF occ[t][k] = pin THEN None ELSE occ[t][k]]]
Needed(ens) == UNION {EngNeed[ens[k]] : k \in 1..Len(ens)}
FreeIdx(occ, t) == {k \in DOMAIN occ[t] : occ[t][k] = None}
Assign(pin, ens) ==
  LET occ1 == Release(engOcc, pin)
      need == Needed(ens)
  IN /\ \A t \in need : FreeIdx(occ1, t) # {}
     /\ LET idx == [t \in EngTypes |-> IF t \in need
                                       THEN CHOOSE k \in FreeIdx(occ1, t) : \A m \in FreeIdx(occ1, t) : k <= m
                                       ELSE 0]
        IN /\ engOcc' = [t \in EngTypes |-> IF t \in need THEN [occ1[t] EXCEPT ![idx[t]] = pin] ELSE occ1[t]]
           /\ jobEng' = [jobEng EXCEPT ![pin] = idx]

(* stream ordinals *)
TakeOrd(j) ==
  /\ ordn' = ordn + 1
  /\ usedOrd' = IF ordn \in DOMAIN usedOrd THEN usedOrd ELSE (ordn :> Sig(j)) @@ usedOrd

(* draw a job from the exact P (pick), with an optional zero swap (pick_traj_ens) *)
Draw(pin) ==
  \E c \in Support(slot, lock, wt) :
    LET i  == c[1]
        e  == c[2]
        s1 == Swap(slot, i, e)
        l1 == lock \cup {e}
    IN \/ LET j == [ens |-> <<e>>, pns |-> <<s1[e]>>, ord |-> ordn] IN
          /\ slot' = s1 /\ lock' = l1
          /\ jobs' = [jobs EXCEPT ![pin] = j]
          /\ Assign(pin, j.ens) /\ TakeOrd(j)
       \/ /\ ZeroSwap /\ e \in {0, 1} /\ (1 - e) \notin lock
          /\ \E c2 \in {d \in Support(s1, l1, wt) : d[2] = 1 - e} :
               LET s2 == Swap(s1, c2[1], 1 - e)
                   j  == [ens |-> <<0, 1>>, pns |-> <<s2[0], s2[1]>>, ord |-> ordn]
               IN /\ slot' = s2 /\ lock' = l1 \cup {1 - e}
                  /\ jobs' = [jobs EXCEPT ![pin] = j]
                  /\ Assign(pin, j.ens) /\ TakeOrd(j)

(* re-issue the first recorded in-flight job of the stopped run (pick_lock) *)
RECURSIVE PlaceAll(_, _, _, _)
PlaceAll(sl, ens, pns, k) ==
  IF k > Len(ens) THEN sl ELSE
  LET i == CHOOSE x \in Ens : sl[x] = pns[k]
  IN PlaceAll(Swap(sl, i, ens[k]), ens, pns, k + 1)
Reissue(pin) ==
  LET h == Head(locked0)
      j == [ens |-> h[1], pns |-> h[2], ord |-> ordn]
  IN /\ \A k \in 1..Len(h[2]) : \E x \in Ens : slot[x] = h[2][k]
     /\ SeqSet(h[1]) \cap lock = {}
     /\ slot' = PlaceAll(slot, h[1], h[2], 1)
     /\ lock' = lock \cup SeqSet(h[1])
     /\ jobs' = [jobs EXCEPT ![pin] = j]
     /\ locked0' = Tail(locked0)
     /\ Assign(pin, j.ens) /\ TakeOrd(j)

(* initiate(): another initial submission is due *)
InitGo == started < Workers /\ (IF OverIssue THEN cstep < tsteps ELSE cstep + started < tsteps)

InitPick(pin) ==
  /\ phase = "init" /\ started = pin /\ InitGo
  /\ IF locked0 # <<>> THEN Reissue(pin) ELSE (Draw(pin) /\ UNCHANGED locked0)
  /\ lockedSeq' = Append(lockedSeq, pin)
  /\ started' = started + 1
  /\ phase' = IF started + 1 = Workers THEN "loop" ELSE "init"
  /\ UNCHANGED <<wt, cstep, tsteps, trajnum, pend, frac, rfile, rows, nrestart, idleSteps, completed, presort>>

(* nothing (more) to submit: initiate() returns False before all workers have a job *)
InitSkip ==
  /\ phase = "init" /\ started < Workers /\ ~InitGo
  /\ phase' = "loop"
  /\ UNCHANGED <<slot, wt, lock, jobs, lockedSeq, locked0, cstep, tsteps, trajnum, started, pend, ordn,
                 engOcc, jobEng, frac, rfile, rows, nrestart, usedOrd, idleSteps, completed, presort>>

LoopPick(pin) ==
  /\ phase = "loop" /\ pend = pin
  /\ Draw(pin)
  /\ lockedSeq' = Append(lockedSeq, pin)
  /\ pend' = None
  /\ UNCHANGED <<wt, locked0, cstep, tsteps, trajnum, started, phase, frac, rfile, rows, nrestart,
                 idleSteps, completed, presort>>

---------------------------------------------------------------------------
(* arrangements the re-sorting may produce: busy slots untouched, every idle *)
(* slot ends up with a path that has weight there                            *)
Arrangements(sl, lk, w) ==
  {t \in {[x \in Ens |-> sl[p[x]]] : p \in {q \in Perms : \A x \in lk : q[x] = x}} :
      \A x \in IdleOf(lk) : w[t[x]][x] > 0}

PNumOf(sl, lk, w) == PNumM(WM(sl, w), lk)
PDenOf(sl, lk, w) == PDenM(WM(sl, w), lk)

RecordOf(sl, lseq, jb, cs, tn, fr, on) ==
  [cstep |-> cs, trajnum |-> tn, active |-> [e \in Ens |-> sl[e]],
   locked |-> [k \in 1..Len(lseq) |-> <<jb[lseq[k]].ens, jb[lseq[k]].pns>>],
   frac |-> fr, ordn |-> on]

Complete(pin) ==
  /\ phase = "loop" /\ pend = None /\ jobs[pin] # NoJob /\ cstep < tsteps
  /\ LET j   == jobs[pin]
         nE  == Len(j.ens)
         lk1 == lock \ JobEns(j)
         ls1 == RemoveFirst(lockedSeq, pin)
         jb1 == [jobs EXCEPT ![pin] = NoJob]
     IN \E acc \in BOOLEAN :
        \E nw \in [1..nE -> UNION {NewRows(e) : e \in Ens}] :
          /\ \A k \in 1..nE : nw[k] \in NewRows(j.ens[k])
          /\ ~acc => \A k \in 1..nE : nw[k] = CHOOSE r \in NewRows(j.ens[k]) : TRUE  \* outcome irrelevant
          /\ acc => trajnum + nE - 1 <= MaxPn
          /\ LET newpn(k) == trajnum + k - 1
                 w1  == IF acc THEN [p \in Pn |-> IF p >= trajnum /\ p < trajnum + nE
                                                  THEN nw[p - trajnum + 1] ELSE wt[p]]
                        ELSE wt
                 s1  == IF acc THEN [e \in Ens |-> IF e \in JobEns(j)
                                                   THEN newpn(CHOOSE k \in 1..nE : j.ens[k] = e)
                                                   ELSE slot[e]]
                        ELSE slot
                 tn1 == IF acc THEN trajnum + nE ELSE trajnum
                 den == PDenOf(s1, lk1, w1)
                 num == PNumOf(s1, lk1, w1)
                 fr1 == IF TrackFrac
                        THEN [p \in Pn |-> IF \E i \in IdleOf(lk1) : s1[i] = p
                                           THEN LET i == CHOOSE x \in IdleOf(lk1) : s1[x] = p IN
                                                [e \in Ens |-> RAdd(frac[p][e], RMk(num[i][e], den))]
                                           ELSE frac[p]]
                        ELSE frac
                 newrows == IF acc THEN [k \in 1..nE |-> [pn |-> j.pns[k], frac |-> fr1[j.pns[k]]]] ELSE <<>>
                 fr2 == IF acc THEN [p \in Pn |-> IF p \in JobPns(j) THEN ZeroFrac[p] ELSE fr1[p]] ELSE fr1
             IN /\ wt' = w1 /\ trajnum' = tn1 /\ lock' = lk1
                /\ presort' = [slot |-> s1, lock |-> lk1, rows |-> [e \in Ens |-> w1[s1[e]]]]
                \* the re-sorting may produce any valid arrangement; if none exists (or P is
                \* undefined) the sampler is stuck - made visible instead of disabling the step
                /\ IF den = 0 \/ Arrangements(s1, lk1, w1) = {}
                   THEN slot' = s1 /\ phase' = "stuck"
                   ELSE slot' \in Arrangements(s1, lk1, w1) /\ phase' = phase
                /\ frac' = fr2
                /\ rows' = rows \o newrows
                /\ jobs' = jb1 /\ lockedSeq' = ls1
                /\ cstep' = cstep + 1
                /\ pend' = IF cstep + 1 + Workers <= tsteps THEN pin ELSE None
                /\ rfile' = RecordOf(slot', ls1, jb1, cstep + 1, tn1, fr2, ordn)
                /\ idleSteps' = [e \in Ens |-> IF e \in IdleOf(lk1) THEN idleSteps[e] + 1 ELSE idleSteps[e]]
                /\ completed' = completed + 1
  /\ UNCHANGED <<locked0, tsteps, started, ordn, engOcc, jobEng, nrestart, usedOrd>>

Finish ==
  /\ phase = "loop" /\ pend = None /\ cstep >= tsteps
  /\ phase' = "done"
  /\ rfile' = RecordOf(slot, lockedSeq, jobs, cstep, trajnum, frac, ordn)
  /\ UNCHANGED <<slot, wt, lock, jobs, lockedSeq, locked0, cstep, tsteps, trajnum, started, pend, ordn,
                 engOcc, jobEng, frac, rows, nrestart, usedOrd, idleSteps, completed, presort>>

(* the main process dies between two of the actions above (finer crash points: Crash.tla) *)
Kill ==
  /\ phase \in {"init", "loop"} /\ nrestart < MaxRestarts /\ rfile # NoRec
  /\ phase' = "dead"
  /\ UNCHANGED <<slot, wt, lock, jobs, lockedSeq, locked0, cstep, tsteps, trajnum, started, pend, ordn,
                 engOcc, jobEng, frac, rfile, rows, nrestart, usedOrd, idleSteps, completed, presort>>

Restart ==
  /\ phase \in {"done", "dead"} /\ rfile # NoRec /\ nrestart < MaxRestarts
  /\ (phase = "done") => MoreSteps > 0
  /\ slot' = rfile.active /\ lock' = {}
  /\ jobs' = [p \in Pins |-> NoJob] /\ lockedSeq' = <<>>
  /\ locked0' = rfile.locked
  /\ cstep' = rfile.cstep /\ trajnum' = rfile.trajnum
  /\ tsteps' = IF phase = "done" THEN tsteps + MoreSteps ELSE tsteps
  /\ started' = 0 /\ pend' = None /\ phase' = "init"
  /\ ordn' = IF LiteralOrd THEN rfile.cstep ELSE IF FormulaOrd THEN rfile.cstep + Len(rfile.locked) ELSE rfile.ordn
  /\ engOcc' = [t \in EngTypes |-> [k \in 1..EngCount(t) |-> None]]
  /\ jobEng' = [p \in Pins |-> [t \in EngTypes |-> 0]]
  /\ frac' = rfile.frac
  /\ nrestart' = nrestart + 1
  \* jobs drawn after the last completed step died with the process: their ordinals are forgotten
  /\ usedOrd' = [o \in {x \in DOMAIN usedOrd : x < rfile.ordn} |-> usedOrd[o]]
  \* paths numbered after the last restart record are orphaned on disk; the counters go back
  /\ wt' = [p \in Pn |-> IF p < rfile.trajnum THEN wt[p] ELSE [e \in Ens |-> 0]]
  /\ rows' = rows
  /\ UNCHANGED <<rfile, idleSteps, completed, presort>>

Next == \/ \E p \in Pins : InitPick(p) \/ LoopPick(p) \/ Complete(p)
        \/ InitSkip \/ Finish \/ Kill \/ Restart
Spec == Init /\ [][Next]_vars
Fairness == /\ \A p \in Pins : WF_vars(InitPick(p)) /\ WF_vars(LoopPick(p)) /\ WF_vars(Complete(p))
            /\ WF_vars(InitSkip) /\ WF_vars(Finish)
FairSpec == Spec /\ Fairness

---------------------------------------------------------------------------
(* C03 *)
MutexEns  == \A a, b \in InFlightPins : a # b => JobEns(jobs[a]) \cap JobEns(jobs[b]) = {}
MutexPath == \A a, b \in InFlightPins : a # b => JobPns(jobs[a]) \cap JobPns(jobs[b]) = {}
LocksExact == lock = UNION {JobEns(jobs[p]) : p \in InFlightPins}
JobHoldsItsPaths == \A p \in InFlightPins : \A k \in 1..Len(jobs[p].ens) : slot[jobs[p].ens[k]] = jobs[p].pns[k]
PickedNonZero == \A p \in InFlightPins : \A k \in 1..Len(jobs[p].ens) : wt[jobs[p].pns[k]][jobs[p].ens[k]] > 0
EngineExclusive ==
  /\ \A t \in EngTypes : \A k \in DOMAIN engOcc[t] : engOcc[t][k] # None =>
        /\ jobEng[engOcc[t][k]][t] = k
  /\ \A a, b \in InFlightPins : a # b => \A t \in EngTypes :
        (jobEng[a][t] # 0 /\ jobEng[b][t] # 0) => jobEng[a][t] # jobEng[b][t]
  /\ \A p \in InFlightPins : \A t \in Needed(jobs[p].ens) : jobEng[p][t] # 0 /\ engOcc[t][jobEng[p][t]] = p
ZeroSwapHoldsBoth == \A p \in InFlightPins : Len(jobs[p].ens) = 2 => (jobs[p].ens = <<0, 1>> /\ {0, 1} \subseteq lock)
LockedSeqExact == SeqSet(lockedSeq) = InFlightPins /\ Len(lockedSeq) = Cardinality(InFlightPins)
(* a zero swap is only started when both [0-] and [0+] were idle *)
ZeroSwapAtomic ==
  [][\A p \in Pins : (jobs[p] = NoJob /\ jobs'[p] # NoJob /\ Len(jobs'[p].ens) = 2 /\ locked0 = <<>>)
        => ({0, 1} \cap lock = {})]_vars

(* C05 *)
Distinct  == \A a, b \in Ens : a # b => slot[a] # slot[b]
MinusAtZero == wt[slot[0]][0] > 0 /\ \A e \in Plus : wt[slot[e]][0] = 0
CanDraw   == ((phase = "init" /\ InitGo /\ locked0 = <<>>) \/ (phase = "loop" /\ pend # None))
               => CanDrawIn(slot, lock, wt)
CanReissue == (phase = "init" /\ InitGo /\ locked0 # <<>>) =>
                 LET h == Head(locked0) IN
                 /\ \A k \in 1..Len(h[2]) : \E x \in Ens : slot[x] = h[2][k] /\ x \notin lock
                 /\ SeqSet(h[1]) \cap lock = {}
                 /\ \A k \in 1..Len(h[1]) : wt[h[2][k]][h[1][k]] > 0
NotStuck == phase # "stuck"
IdleSorted == \* right after a completed step every idle slot holds a path with weight there
  [][\A p \in Pins : Complete(p) => \A e \in Ens : e \notin lock' => wt'[slot'[e]][e] > 0]_vars
FreshNumbers == \A e \in Ens : slot[e] < trajnum
NumbersNeverReused ==
  [][trajnum' >= trajnum \/ phase' = "init"]_vars
(* the restart record written by a completed step satisfies what Restart needs *)
RestartLoads ==
  rfile # NoRec =>
     /\ \A e \in Ens : wt[rfile.active[e]][e] > 0 \/ \E k \in 1..Len(rfile.locked) : \E m \in 1..Len(rfile.locked[k][1]) :
                                                          rfile.locked[k][1][m] = e
     /\ \A a, b \in Ens : a # b => rfile.active[a] # rfile.active[b]
     /\ \A e \in Ens : rfile.active[e] < rfile.trajnum
     /\ \A k \in 1..Len(rfile.locked) : \A m \in 1..Len(rfile.locked[k][2]) :
           /\ \E e \in Ens : rfile.active[e] = rfile.locked[k][2][m]
           /\ wt[rfile.locked[k][2][m]][rfile.locked[k][1][m]] > 0
Progress == <>(phase = "done")

(* C17 *)
(* whatever the restart points: a finished run has done exactly the requested moves and leaves nothing in flight *)
StepsExact == (phase = "done" /\ Steps >= Workers) =>
                 /\ completed = tsteps /\ cstep = tsteps /\ rfile.cstep = tsteps
                 /\ InFlightPins = {} /\ lockedSeq = <<>> /\ rfile.locked = <<>>
RecordCounts == rfile # NoRec => rfile.cstep <= cstep
(* never more jobs in flight than workers, nor than steps left *)
NeverTooMany == /\ cstep <= tsteps /\ Cardinality(InFlightPins) <= Workers
                /\ (Steps >= Workers /\ phase \in {"init", "loop", "done"}) => cstep + Cardinality(InFlightPins) <= tsteps
NoLostJob    == (phase = "loop" /\ pend = None /\ cstep < tsteps) => InFlightPins # {}

(* C07 *)
OrdinalsFresh == \A p \in InFlightPins : jobs[p].ord \in DOMAIN usedOrd /\ usedOrd[jobs[p].ord] = Sig(jobs[p])
OrdinalsDistinct == \A a, b \in InFlightPins : a # b => jobs[a].ord # jobs[b].ord

(* C06: restarting a cleanly finished run changes nothing the future depends on, *)
(* and the jobs re-issued are exactly the recorded ones, in order                *)
RestartIsStutter ==
  [][(phase = "done" /\ phase' = "init") =>
        /\ slot' = slot /\ cstep' = cstep /\ trajnum' = trajnum /\ frac' = frac /\ wt' = wt
        /\ lock' = {} /\ ordn' = ordn]_vars
RestartRestoresRecord ==
  [][(phase \in {"done", "dead"} /\ phase' = "init") =>
        /\ slot' = rfile.active /\ cstep' = rfile.cstep /\ trajnum' = rfile.trajnum
        /\ frac' = rfile.frac /\ locked0' = rfile.locked]_vars
ReissueExact ==
  [][\A p \in Pins : (phase = "init" /\ locked0 # <<>> /\ jobs[p] = NoJob /\ jobs'[p] # NoJob) =>
        /\ <<jobs'[p].ens, jobs'[p].pns>> = Head(locked0) /\ locked0' = Tail(locked0)]_vars
NoFreeDrawBeforeReissue ==
  [][\A p \in Pins : (phase = "init" /\ jobs[p] = NoJob /\ jobs'[p] # NoJob /\ locked0' = locked0) => locked0 = <<>>]_vars

(* C04 *)
RECURSIVE SumRows(_, _)
SumRows(k, e) == IF k = 0 THEN RZero ELSE RAdd(rows[k].frac[e], SumRows(k - 1, e))
RECURSIVE SumLive(_, _)
SumLive(S, e) == IF S = {} THEN RZero ELSE LET x == CHOOSE y \in S : TRUE IN RAdd(frac[slot[x]][e], SumLive(S \ {x}, e))
Accounting == TrackFrac =>
                 \A e \in Ens : REq(RAdd(SumRows(Len(rows), e), SumLive(Ens, e)), RInt(idleSteps[e]))
WrittenOnce == \A a, b \in 1..Len(rows) : a # b => rows[a].pn # rows[b].pn
NeverWrittenWhileLive == \A k \in 1..Len(rows) : \A e \in Ens : slot[e] # rows[k].pn
RecordFracIsLive == (TrackFrac /\ rfile # NoRec /\ phase = "loop" /\ rfile.cstep = cstep) => rfile.frac = frac
=============================================================================
