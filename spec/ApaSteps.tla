----------------------------- MODULE ApaSteps -----------------------------
(***************************************************************************)
(* C17, the counting argument of scheduler() / initiate() / loop() for     *)
(* EVERY worker count, step count and restart point (symbolic constants):  *)
(* an inductive invariant discharged by Apalache.                          *)
(*                                                                         *)
(*   while state.initiate(): submit            InitSubmit / InitEnd        *)
(*   while state.loop():                       (cstep += 1)                *)
(*       future = as_completed()               Consume  (Idle: none left)  *)
(*       if cstep + workers <= tsteps: submit                              *)
(*   runner.stop()                             Finish                      *)
(*                                                                         *)
(* OverIssue = TRUE is the code before 7cc4d53 (one initial submission per *)
(* worker whenever a step is left): the invariant is then not inductive,   *)
(* Apalache reports the run restarted with fewer steps left than workers.  *)
(* The same actions, with job identities and completion orders, are in     *)
(* Runner.tla (InitSubmit, InitSkip, Deliver, Finish) and Infretis.tla     *)
(* (InitPick, InitSkip, Complete, LoopPick, Finish).                       *)
(***************************************************************************)
EXTENDS Integers

CONSTANTS
  \* @type: Int;
  W,
  \* @type: Int;
  Steps,
  \* @type: Int;
  C0,
  \* @type: Bool;
  OverIssue

VARIABLES
  \* @type: Str;
  phase,
  \* @type: Int;
  cstep,
  \* @type: Int;
  started,
  \* @type: Int;
  inflight,
  \* @type: Int;
  nsub,
  \* @type: Int;
  ndel,
  \* @type: Int;
  nidle

vars == <<phase, cstep, started, inflight, nsub, ndel, nidle>>

ConstInit == /\ W \in Int /\ Steps \in Int /\ C0 \in Int /\ OverIssue = FALSE
             /\ W >= 1 /\ C0 >= 0 /\ Steps >= C0
ConstInitOld == /\ W \in Int /\ Steps \in Int /\ C0 \in Int /\ OverIssue = TRUE
                /\ W >= 1 /\ C0 >= 0 /\ Steps >= C0 /\ Steps >= W

InitGo == started < W /\ (IF OverIssue THEN cstep < Steps ELSE cstep + started < Steps)

Init == /\ phase = "init" /\ cstep = C0 /\ started = 0 /\ inflight = 0 /\ nsub = 0 /\ ndel = 0 /\ nidle = 0

InitSubmit == /\ phase = "init" /\ InitGo
              /\ started' = started + 1 /\ inflight' = inflight + 1 /\ nsub' = nsub + 1
              /\ UNCHANGED <<phase, cstep, ndel, nidle>>
InitEnd    == /\ phase = "init" /\ ~InitGo /\ phase' = "loop"
              /\ UNCHANGED <<cstep, started, inflight, nsub, ndel, nidle>>
(* one iteration of the main loop with a finished future *)
Consume    == /\ phase = "loop" /\ cstep < Steps /\ inflight > 0
              /\ cstep' = cstep + 1 /\ ndel' = ndel + 1
              /\ IF cstep + 1 + W <= Steps
                 THEN nsub' = nsub + 1 /\ inflight' = inflight
                 ELSE nsub' = nsub /\ inflight' = inflight - 1
              /\ UNCHANGED <<phase, started, nidle>>
(* one iteration with nothing in flight: as_completed() returns None, the step counter still advances *)
Idle       == /\ phase = "loop" /\ cstep < Steps /\ inflight = 0
              /\ cstep' = cstep + 1 /\ nidle' = nidle + 1
              /\ UNCHANGED <<phase, started, inflight, nsub, ndel>>
Finish     == /\ phase = "loop" /\ cstep >= Steps /\ phase' = "done"
              /\ UNCHANGED <<cstep, started, inflight, nsub, ndel, nidle>>
Next == InitSubmit \/ InitEnd \/ Consume \/ Idle \/ Finish

Min(a, b) == IF a <= b THEN a ELSE b

(* what C17 promises about the counts *)
StepsExact   == (phase = "done") => (cstep = Steps /\ ndel = Steps - C0 /\ nsub = Steps - C0 /\ inflight = 0)
NeverTooMany == cstep <= Steps /\ inflight <= W /\ cstep + inflight <= Steps
NoLostJob    == nidle = 0 /\ ((phase = "loop" /\ cstep < Steps) => inflight > 0)
CounterIsConsumed == cstep = C0 + ndel

IndInv ==
  /\ phase \in {"init", "loop", "done"}
  /\ cstep >= C0 /\ started >= 0 /\ started <= W /\ inflight >= 0 /\ nsub >= 0 /\ ndel >= 0 /\ nidle = 0
  /\ nsub = ndel + inflight
  /\ cstep = C0 + ndel
  /\ cstep <= Steps
  /\ (phase = "init") => (ndel = 0 /\ inflight = started /\ C0 + started <= Steps)
  /\ (phase \in {"loop", "done"}) => inflight = Min(W, Steps - cstep)
  /\ (phase = "done") => cstep = Steps
  /\ StepsExact /\ NeverTooMany /\ NoLostJob
IndInit == /\ phase \in {"init", "loop", "done"}
           /\ cstep \in Int /\ started \in Int /\ inflight \in Int /\ nsub \in Int /\ ndel \in Int /\ nidle \in Int
           /\ IndInv
===========================================================================
