--------------------------- MODULE TraceVelocity ---------------------------
(* Trace specification for C16 / C07: recorded real modify_velocities calls of every engine   *)
(* class are checked clause by clause (see Velocity.tla for the call matrix and the contract). *)
EXTENDS Integers, Sequences, FiniteSets, TLC, Json, IOUtils

Tr == ndJsonDeserialize(IOEnv.TRACE_FILE)
VARIABLES l, bad
tvars == <<l, bad>>

Abs(x) == IF x < 0 THEN -x ELSE x
(* raw numbers: positions in micro-units, box lengths in 1e-4 units (the configuration files carry fewer digits for the box), *)
(* atom names as written; an event that is not a file-level call carries empty sequences                                    *)
SameWithin(a, b, tol) == Len(a) = Len(b) /\ \A i \in 1..Len(a) : Abs(a[i] - b[i]) <= tol
Clauses(ev) ==
  [ V_PositionsKept   |-> /\ SameWithin(ev.x1, ev.x0, 2)                          \* every coordinate of every atom
                          /\ (ev.b0 = <<>> \/ SameWithin(ev.b1, ev.b0, 2))         \* the box of the shooting frame (one added from the template is fine)
                          /\ ev.names1 = ev.names0,
    V_SourceUntouched |-> ev.source_bytes_same /\ ev.caller_system_same,
    V_NewConfig       |-> ev.config_is_new_file /\ ev.config_index_zero,
    V_ZeroMomentum    |-> ev.zero_momentum => ev.momentum_zero,
    V_KinNew          |-> ev.kin_new_matches_written,
    V_Dek             |-> ev.dek_consistent,
    V_Reproducible    |-> ev.same_stream_same_velocities,
    V_StreamAdvances  |-> ev.stream_advanced,
    V_NoForeign       |-> ev.foreign = 0,
    \* C07: the noise of a stochastic integrator is decided by the job's engine stream - two jobs with different streams never
    \* propagate with the same noise, whatever the engine's own settings say
    V_StreamDecides   |-> ev.stream_decides,
    V_Distribution    |-> ev.stat_checked => (ev.mean_ok /\ ev.var_ok),
    \* the ensemble's zero_momentum setting is what every modify_velocities call of a move is handed
    V_RequestReachesEngine |-> ev.request_ok ]
Failed(rec) == {n \in DOMAIN rec : ~rec[n]}
Note(idx, names) == LET RECURSIVE F(_)
                        F(S) == IF S = {} THEN <<>> ELSE
                                LET n == CHOOSE x \in S : TRUE IN <<<<idx, n>>>> \o F(S \ {n})
                    IN F(names)
TInit == l = 1 /\ bad = <<>>
TNext == /\ l <= Len(Tr) /\ l' = l + 1 /\ bad' = bad \o Note(l, Failed(Clauses(Tr[l])))
TSpec == TInit /\ [][TNext]_tvars
Report == (l = Len(Tr) + 1) =>
            /\ \A k \in 1..Len(bad) : PrintT(<<"BADCLAUSE", bad[k][1], bad[k][2]>>)
            /\ PrintT(<<"TRACE-CONSUMED", Len(Tr), Len(bad)>>)
=============================================================================
