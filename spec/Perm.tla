------------------------------- MODULE Perm -------------------------------
(***************************************************************************)
(* C02.  The path-to-ensemble probability matrix of infinite swapping.      *)
(*                                                                           *)
(* Ensembles are 0..N-1 (0 = [0-], 1..N-1 = [0+], [1+], ...).  The weight    *)
(* matrix W has one row per live path, stored at the slot (= ensemble index) *)
(* the path currently occupies, and one column per ensemble.  A set L of     *)
(* ensembles is busy (locked); the path sitting in a locked slot is busy     *)
(* with it, so row e and column e leave the matrix together.                 *)
(*                                                                           *)
(* Layer R (what the property states):                                       *)
(*   P[i][j] = W[i][j] * perm(W_idle minus row i, column j) / perm(W_idle)   *)
(*   on the idle block, 0 elsewhere.                                         *)
(* Layer I (what repex.py does): quick_prob's column sweep for matrices      *)
(*   whose rows are constant on their support, find_blocks' block            *)
(*   decomposition.  TLC checks Layer I = Layer R on every reachable state.  *)
(*                                                                           *)
(* The state machine mirrors REPEX_state's own operations on (state,_locks): *)
(*   Lock(e), Unlock(e), SwapRows(i,j), SetW(i,j,v), ScaleRow(i,k).          *)
(* Every state carries num/den (exact numerators and the common denominator  *)
(* of P) so that the state dump is the replay oracle for the real code.      *)
(***************************************************************************)
EXTENDS Integers, Sequences, FiniteSets, TLC, Rat, PermOps

CONSTANTS N,          \* number of ensembles, >= 2  (N-1 plus ensembles)
          MaxW,       \* largest weight value
          AllowSwap,  \* explore row arrangements
          AllowSetW,  \* explore arbitrary positive weights entry by entry
          AllowScale  \* explore row rescaling

Ens  == 0..(N-1)
Plus == 1..(N-1)

VARIABLES W,    \* [Ens -> [Ens -> 0..MaxW]]  weight of the path in slot i for ensemble j
          L,    \* SUBSET Ens, the locked ensembles (= locked slots)
          num,  \* [Ens -> [Ens -> Nat]]  numerators of P
          den   \* Nat, common denominator of P  (perm of the idle block)
vars == <<W, L, num, den>>

Idle(l) == Ens \ l

---------------------------------------------------------------------------
PDen(w, l) == PermRC(w, Idle(l), Idle(l))
PNum(w, l) == [i \in Ens |-> [j \in Ens |->
                 IF i \in l \/ j \in l \/ w[i][j] = 0 THEN 0
                 ELSE w[i][j] * PermRC(w, Idle(l) \ {i}, Idle(l) \ {j})]]

---------------------------------------------------------------------------
(* the reachable family: minus row (1,0,..,0); plus rows zero on column 0   *)
(* and positive exactly on a prefix 1..r of the plus columns                 *)
Reach(w, i)    == IF \E j \in Plus : w[i][j] > 0
                  THEN CHOOSE j \in Plus : w[i][j] > 0 /\ \A k \in Plus : k > j => w[i][k] = 0
                  ELSE 0
IsMinusRow(w, i) == w[i][0] > 0
Staircase(w) ==
  /\ \E m \in Ens : /\ w[m][0] = 1 /\ \A j \in Plus : w[m][j] = 0
                    /\ \A i \in Ens \ {m} : w[i][0] = 0
  /\ \A i \in Ens : ~IsMinusRow(w, i) =>
        /\ Reach(w, i) >= 1
        /\ \A j \in Plus : (j <= Reach(w, i)) <=> (w[i][j] > 0)

RowOf(r) == [j \in Ens |-> IF j >= 1 /\ j <= r THEN 1 ELSE 0]
MinusRow == [j \in Ens |-> IF j = 0 THEN 1 ELSE 0]
(* initial matrices: minus path in slot 0, plus slots hold 0/1 staircases    *)
(* with non-decreasing reach and a non-zero diagonal (the loaded paths are   *)
(* valid in their own ensembles)                                             *)
InitW == { [i \in Ens |-> IF i = 0 THEN MinusRow ELSE RowOf(r[i])] :
             r \in { q \in [Plus -> Plus] : /\ \A i \in Plus : q[i] >= i
                                            /\ \A i, k \in Plus : i < k => q[i] <= q[k] } }

Derived == /\ num' = PNum(W', L')
           /\ den' = PDen(W', L')

Init == /\ W \in InitW
        /\ L = {}
        /\ num = PNum(W, L)
        /\ den = PDen(W, L)

(* REPEX_state.lock(e): only a slot whose resident has weight in e is ever   *)
(* locked (pick() swaps the chosen path in first), and only if the rest can  *)
(* still be matched (C05)                                                    *)
Lock(e) == /\ e \notin L /\ W[e][e] > 0
           /\ PDen(W, L \cup {e}) > 0
           /\ L' = L \cup {e} /\ W' = W /\ Derived
Unlock(e) == /\ e \in L
             /\ L' = L \ {e} /\ W' = W /\ Derived
(* REPEX_state.swap(i, j) of two idle slots *)
SwapRows(i, j) == /\ AllowSwap /\ i \in Plus /\ j \in Plus /\ i < j
                  /\ i \notin L /\ j \notin L
                  /\ W' = [W EXCEPT ![i] = W[j], ![j] = W[i]]
                  /\ L' = L /\ Derived
(* a wire-fencing column gives a path any positive weight *)
SetW(i, j, v) == /\ AllowSetW /\ L = {} /\ i \in Plus /\ j \in Plus
                 /\ W[i][j] > 0 /\ v \in 1..MaxW /\ v # W[i][j]
                 /\ W' = [W EXCEPT ![i][j] = v]
                 /\ L' = L /\ Derived
ScaleRow(i, k) == /\ AllowScale /\ i \in Plus /\ k \in 2..MaxW
                  /\ \A j \in Ens : W[i][j] * k <= MaxW
                  /\ W' = [W EXCEPT ![i] = [j \in Ens |-> W[i][j] * k]]
                  /\ L' = L /\ Derived

Next == \/ \E e \in Ens : Lock(e) \/ Unlock(e)
        \/ \E i, j \in Plus : SwapRows(i, j)
        \/ \E i, j \in Plus : \E v \in 1..MaxW : SetW(i, j, v)
        \/ \E i \in Plus : \E k \in 2..MaxW : ScaleRow(i, k)
Spec == Init /\ [][Next]_vars

---------------------------------------------------------------------------
(* Layer R consequences, checked on every reachable state *)
TypeOK == /\ W \in [Ens -> [Ens -> 0..MaxW]] /\ L \subseteq Ens
InFamily == Staircase(W)
CanDraw == den > 0                                   \* C05's matching clause
RowSums == \A i \in Idle(L) : (LET RECURSIVE S(_)
                                   S(T) == IF T = {} THEN 0 ELSE LET j == CHOOSE x \in T : TRUE
                                           IN num[i][j] + S(T \ {j})
                               IN S(Ens)) = den
ColSums == \A j \in Idle(L) : (LET RECURSIVE S(_)
                                   S(T) == IF T = {} THEN 0 ELSE LET i == CHOOSE x \in T : TRUE
                                           IN num[i][j] + S(T \ {i})
                               IN S(Ens)) = den
ZeroWhereZero == \A i, j \in Ens : (W[i][j] = 0 \/ i \in L \/ j \in L) => num[i][j] = 0
BusyZero == \A i \in Ens : \A j \in L : num[i][j] = 0 /\ num[j][i] = 0
Bounded == den < 100000000

(* rescaling one path's weights leaves P unchanged: an action property *)
ScaleInvariant ==
  [][\A i \in Plus : \A k \in 2..MaxW : ScaleRow(i, k) =>
        \A a, b \in Ens : num'[a][b] * den = num[a][b] * den']_vars
(* exchanging two paths exchanges their rows of P *)
SwapEquivariant ==
  [][\A i, j \in Plus : SwapRows(i, j) =>
        /\ den' = den
        /\ \A b \in Ens : num'[i][b] = num[j][b] /\ num'[j][b] = num[i][b]]_vars

---------------------------------------------------------------------------
(* Layer I: quick_prob.  Columns are swept from the highest ensemble down;   *)
(* every idle path that can live in the column takes a share proportional    *)
(* to what is left of its unit of probability.                               *)
IdlePlus(l) == Idle(l) \cap Plus
RECURSIVE RSumOver(_, _)
RSumOver(f, S) == IF S = {} THEN RZero ELSE
                  LET x == CHOOSE y \in S : TRUE IN RAdd(f[x], RSumOver(f, S \ {x}))
SetMax(S) == CHOOSE x \in S : \A y \in S : y <= x
RECURSIVE QuickRec(_, _, _, _)
QuickRec(w, R, Cs, tot) ==
  IF Cs = {} THEN [c \in {} |-> 0] ELSE
  LET c    == SetMax(Cs)
      ens0 == [i \in R |-> IF w[i][c] # 0 THEN tot[i] ELSE RZero]
      s    == RSumOver(ens0, R)
      ens  == [i \in R |-> IF RIsZero(s) THEN ens0[i] ELSE RDiv(ens0[i], s)]
      tot2 == [i \in R |-> LET d == RSub(tot[i], ens[i]) IN IF d[1] < 0 THEN RZero ELSE d]
  IN (c :> ens) @@ QuickRec(w, R, Cs \ {c}, tot2)
Quick(w, l) == QuickRec(w, IdlePlus(l), IdlePlus(l), [i \in IdlePlus(l) |-> ROne])

RowConstant(w, l) == \A i \in IdlePlus(l) : \A j, k \in IdlePlus(l) :
                        (w[i][j] > 0 /\ w[i][k] > 0) => w[i][j] = w[i][k]
(* the minus ensemble always forms its own 1x1 block *)
MinusBlock == (0 \notin L) => (\E m \in Idle(L) : num[m][0] = den)
QuickIsExact ==
  RowConstant(W, L) =>
     LET q == Quick(W, L) IN
     \A i \in IdlePlus(L) : \A j \in IdlePlus(L) :
        ~IsMinusRow(W, i) => REq(q[j][i], <<num[i][j], den>>)

(* Layer I: find_blocks.  Sort the idle plus rows by reach; a block ends at  *)
(* the k-th row when its reach is the k-th idle plus column.  P is the       *)
(* direct sum of the blocks' P.                                              *)
IdlePlusRows(w, l) == {i \in Idle(l) : ~IsMinusRow(w, i)}
ColRank(l, c) == Cardinality({x \in IdlePlus(l) : x <= c})
RowRank(w, l, i) == Cardinality({x \in IdlePlusRows(w, l) :
                       Reach(w, x) < Reach(w, i) \/ (Reach(w, x) = Reach(w, i) /\ x <= i)})
(* rows of rank <= k and columns of rank <= k form a union of blocks iff     *)
(* the row of rank k reaches exactly the column of rank k                    *)
BlockEnd(w, l, i) == ColRank(l, Reach(w, i)) = RowRank(w, l, i)
BlockOf(w, l, i) == Cardinality({x \in IdlePlusRows(w, l) :
                       BlockEnd(w, l, x) /\ RowRank(w, l, x) < RowRank(w, l, i)})
ColBlockOf(w, l, c) == Cardinality({x \in IdlePlusRows(w, l) :
                       BlockEnd(w, l, x) /\ RowRank(w, l, x) < ColRank(l, c)})
BlocksAreClosed ==
  \A i \in IdlePlusRows(W, L) : \A c \in IdlePlus(L) :
     (BlockOf(W, L, i) # ColBlockOf(W, L, c)) => num[i][c] = 0
BlockwiseIsExact ==
  \A i \in IdlePlusRows(W, L) :
     LET b  == BlockOf(W, L, i)
         R  == {x \in IdlePlusRows(W, L) : BlockOf(W, L, x) = b}
         C  == {c \in IdlePlus(L) : ColBlockOf(W, L, c) = b}
     IN /\ Cardinality(R) = Cardinality(C)
        /\ \A c \in C : W[i][c] > 0 =>
              W[i][c] * PermRC(W, R \ {i}, C \ {c}) * den = num[i][c] * PermRC(W, R, C)
=============================================================================
