------------------------------- MODULE Runner -------------------------------
(***************************************************************************)
(* C17 (second half).  The task runner of asyncrunner.py and the way         *)
(* scheduler.py drives it.                                                   *)
(*                                                                           *)
(*   submit_work      Submit(u)     unit u enters the queue, its future the   *)
(*                                  managed list                              *)
(*   _task_wrapper    Take(w)       wrapper w dequeues the head unit and       *)
(*                                  starts it in the executor                 *)
(*                    Done(w, ok)   the executor finishes: the unit's future   *)
(*                                  gets its result or its exception          *)
(*   as_completed     Deliver(u)    the main loop removes one finished future  *)
(*                                  from the list and consumes it             *)
(*   stop             Stop / Exit(w)                                          *)
(*                                                                           *)
(* The main loop is scheduler(): W initial submissions, then one delivery     *)
(* per step and one new submission while cstep + W <= Steps.  A delivered    *)
(* exception ends the run (scheduler() lets it propagate).                   *)
(***************************************************************************)
EXTENDS Integers, Sequences, FiniteSets, TLC

CONSTANTS W, Steps, C0, MayFail,
          ContinueOnFail,  \* TRUE: the caller consumes a delivered exception and goes on (the runner alone);
                           \* FALSE: scheduler() lets it propagate and the run ends
          OverIssue        \* TRUE: the code before 7cc4d53 (one initial submission per worker whenever a step is left)

Units == 1..(Steps + W)
Wrk   == 1..W
None  == 0

VARIABLES queue,     \* Seq(Units) waiting in the asyncio queue
          running,   \* [Wrk -> Units \cup {None}]
          fut,       \* [Units -> {"none","pending","result","exception"}]
          flist,     \* Seq(Units): the managed future list
          nexec,     \* [Units -> Nat] how often a unit was started
          ndeliv,    \* [Units -> Nat] how often its future was handed to the main loop
          nset,      \* [Units -> Nat] how often its future was completed
          nsub,      \* units submitted so far
          cstep, phase, alive
vars == <<queue, running, fut, flist, nexec, ndeliv, nset, nsub, cstep, phase, alive>>

Init == /\ queue = <<>> /\ running = [w \in Wrk |-> None]
        /\ fut = [u \in Units |-> "none"] /\ flist = <<>>
        /\ nexec = [u \in Units |-> 0] /\ ndeliv = [u \in Units |-> 0] /\ nset = [u \in Units |-> 0]
        /\ nsub = 0 /\ cstep = C0 /\ phase = "init" /\ alive = [w \in Wrk |-> TRUE]

SubmitNext == LET u == nsub + 1 IN
  /\ u \in Units
  /\ queue' = Append(queue, u) /\ flist' = Append(flist, u)
  /\ fut' = [fut EXCEPT ![u] = "pending"] /\ nsub' = u

(* scheduler(): the initial submissions *)
InitGo == nsub < W /\ (IF OverIssue THEN cstep < Steps ELSE cstep + nsub < Steps)
InitSubmit == /\ phase = "init" /\ InitGo
              /\ SubmitNext
              /\ phase' = IF nsub + 1 = W THEN "loop" ELSE "init"
              /\ UNCHANGED <<running, nexec, ndeliv, nset, cstep, alive>>
InitSkip   == /\ phase = "init" /\ nsub < W /\ ~InitGo /\ phase' = "loop"
              /\ UNCHANGED <<queue, running, fut, flist, nexec, ndeliv, nset, nsub, cstep, alive>>

Take(w) == /\ alive[w] /\ running[w] = None /\ queue # <<>>
           /\ running' = [running EXCEPT ![w] = Head(queue)]
           /\ queue' = Tail(queue)
           /\ nexec' = [nexec EXCEPT ![Head(queue)] = @ + 1]
           /\ UNCHANGED <<fut, flist, ndeliv, nset, nsub, cstep, phase, alive>>

Done(w, ok) == /\ running[w] # None /\ (ok \/ MayFail)
               /\ fut' = [fut EXCEPT ![running[w]] = IF ok THEN "result" ELSE "exception"]
               /\ nset' = [nset EXCEPT ![running[w]] = @ + 1]
               /\ running' = [running EXCEPT ![w] = None]
               /\ UNCHANGED <<queue, flist, nexec, ndeliv, nsub, cstep, phase, alive>>

(* one iteration of the main loop: loop() increments the step counter, a finished *)
(* future is taken from the list, its result consumed, possibly a new submission  *)
Deliver(u) ==
  /\ phase = "loop" /\ cstep < Steps
  /\ \E k \in 1..Len(flist) : flist[k] = u
  /\ fut[u] \in {"result", "exception"}
  /\ ndeliv' = [ndeliv EXCEPT ![u] = @ + 1]
  /\ LET k == CHOOSE x \in 1..Len(flist) : flist[x] = u
         fl1 == SubSeq(flist, 1, k - 1) \o SubSeq(flist, k + 1, Len(flist))
     IN IF fut[u] = "exception" /\ ~ContinueOnFail
        THEN /\ phase' = "raised" /\ flist' = fl1 /\ cstep' = cstep + 1
             /\ UNCHANGED <<queue, fut, nsub>>
        ELSE /\ cstep' = cstep + 1
             /\ IF cstep + 1 + W <= Steps
                THEN LET v == nsub + 1 IN
                     /\ queue' = Append(queue, v) /\ flist' = Append(fl1, v)
                     /\ fut' = [fut EXCEPT ![v] = "pending"] /\ nsub' = v
                ELSE /\ flist' = fl1 /\ UNCHANGED <<queue, fut, nsub>>
             /\ phase' = phase
  /\ UNCHANGED <<running, nexec, nset, alive>>

Finish == /\ phase = "loop" /\ cstep >= Steps /\ phase' = "stopping"
          /\ UNCHANGED <<queue, running, fut, flist, nexec, ndeliv, nset, nsub, cstep, alive>>
(* stop(): waits for the queue to drain, then sets the stop event; wrappers leave when idle *)
Exit(w) == /\ phase = "stopping" /\ queue = <<>> /\ alive[w] /\ running[w] = None
           /\ alive' = [alive EXCEPT ![w] = FALSE]
           /\ UNCHANGED <<queue, running, fut, flist, nexec, ndeliv, nset, nsub, cstep, phase>>
Stopped == /\ phase = "stopping" /\ \A w \in Wrk : ~alive[w] /\ phase' = "stopped"
           /\ UNCHANGED <<queue, running, fut, flist, nexec, ndeliv, nset, nsub, cstep, alive>>

Next == \/ InitSubmit \/ InitSkip \/ Finish \/ Stopped
        \/ \E w \in Wrk : Take(w) \/ Done(w, TRUE) \/ Done(w, FALSE) \/ Exit(w)
        \/ \E u \in Units : Deliver(u)
Spec == Init /\ [][Next]_vars
FairSpec == Spec /\ WF_vars(Next)

ExecOnce    == \A u \in Units : nexec[u] <= 1 /\ nset[u] <= nexec[u]
DeliverOnce == \A u \in Units : ndeliv[u] <= 1 /\ (ndeliv[u] = 1 => nset[u] = 1)
NothingLost == (phase = "stopped") => \A u \in 1..nsub : nexec[u] = 1 /\ nset[u] = 1
StepsExact  == (phase \in {"stopping", "stopped"} /\ Steps >= W /\ Steps >= C0) =>
                  /\ cstep = Steps /\ nsub = Steps - C0 /\ flist = <<>> /\ queue = <<>>
                  /\ \A u \in 1..nsub : ndeliv[u] = 1
NeverTooMany == cstep <= Steps /\ ((Steps >= W /\ Steps >= C0) => (nsub <= Steps - C0 /\ cstep + Len(flist) <= Steps))
CleanStop   == (phase = "stopped") => (queue = <<>> /\ \A w \in Wrk : running[w] = None)
Terminates  == <>(phase \in {"stopped", "raised"})
=============================================================================
