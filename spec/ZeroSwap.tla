------------------------------ MODULE ZeroSwap ------------------------------
(***************************************************************************)
(* C11.  The [0-] <-> [0+] swap over the lattice engine, as a case           *)
(* enumeration (spec -> code).  lambda_0 lies between the sites R0 - 1 and   *)
(* R0; the product interface between RR - 1 and RR; a reflecting wall at     *)
(* Wall.  Every initial state is one swap attempt: the old [0-] path, the    *)
(* old [0+] path, the scripted steps of the backward extension in [0-] and   *)
(* of the forward extension in [0+], and the length limit.  Apply computes   *)
(* what the property demands:                                                *)
(*   new [0-] = (backward walk from the first frame of old [0+], reversed    *)
(*               in time) followed by the second frame of old [0+];          *)
(*   new [0+] = the second-last frame of old [0-], then the forward walk     *)
(*               from its last frame;                                        *)
(* i.e. the two frames that cross lambda_0 are exchanged; the swap is        *)
(* accepted when both new paths are complete members within the limit, and   *)
(* swapping back returns the crossing frames.  A new path that is complete   *)
(* with exactly `maxlength` frames is a don't-care (the property does not    *)
(* say whether the limit is inclusive for a swap): verdict "free".           *)
(***************************************************************************)
EXTENDS LatticeOps

CONSTANTS R0, RR, Wall, MaxOld, NSteps, MaxLengths,
          WfPlus      \* BOOLEAN: [0+] is a wire-fencing ensemble: the swap then also passes a Metropolis step on the
                      \* high-acceptance weights, accepted with probability min(1, w(new [0+]) / w(old [0+]))

VARIABLES old0, old1, back, forw, maxlength, xi, done, res
vars == <<old0, old1, back, forw, maxlength, xi, done, res>>

Unit(p) == \A k \in 1..(Len(p) - 1) : p[k+1] - p[k] \in {-1, 0, 1}
MinusPaths == {p \in UNION {[1..k -> Wall..R0] : k \in 3..MaxOld} : MemberMinus(p, R0) /\ Unit(p)
                 /\ \A k \in 1..(Len(p)-1) : p[k+1] = p[k] => p[k] = Wall}
PlusPaths  == {p \in UNION {[1..k -> (R0 - 1)..RR] : k \in 3..MaxOld} :
                 /\ MemberPlus(p, R0 - 1, R0, RR) /\ \A k \in 1..(Len(p)-1) : p[k+1] - p[k] \in {-1, 1}}
StepSeqs == [1..NSteps -> {-1, 1}]

(* a case is realisable with NSteps scripted steps if each walk ends inside the script or the length limit cuts it there *)
Scripted(x0, steps, l, r, ml) == Walk(x0, steps, l, r, Wall)[2] \/ ml - 1 <= NSteps + 1
Init == /\ old0 \in MinusPaths /\ old1 \in PlusPaths
        /\ back \in StepSeqs /\ forw \in StepSeqs
        /\ maxlength \in MaxLengths
        /\ xi \in (IF WfPlus THEN {"below", "above"} ELSE {"below"})       \* the drawn number relative to the weight ratio
        /\ Scripted(old1[1], back, Wall - 1, R0, maxlength) /\ Scripted(old0[Len(old0)], forw, R0 - 1, RR, maxlength)
        /\ done = FALSE /\ res = <<>>

(* the walk of the engine: at most `limit` frames including the start frame *)
Limited(w, limit) == IF Len(w[1]) > limit THEN <<SubSeq(w[1], 1, limit), FALSE>> ELSE w

Apply ==
  /\ ~done /\ done' = TRUE
  /\ LET a0   == old1[1]                                   \* left of lambda_0
         b    == old1[2]                                   \* right of lambda_0
         wb   == Limited(Walk(a0, back, Wall - 1, R0, Wall), maxlength - 1)      \* in [0-]: stop right of lambda_0
         new0 == RevSeq(wb[1]) \o <<b>>
         c0   == old0[Len(old0)]                           \* right of lambda_0
         d    == old0[Len(old0) - 1]                       \* left of lambda_0
         wf   == Limited(Walk(c0, forw, R0 - 1, RR, Wall), maxlength - 1)        \* in [0+]: stop left of lambda_0 or in the product
         new1 == <<d>> \o wf[1]
         ok0  == wb[2] /\ Len(new0) >= 3 /\ MemberMinus(new0, R0)
         ok1  == wf[2] /\ Len(new1) >= 3 /\ MemberPlus(new1, R0 - 1, R0, RR)
         edge == (ok0 /\ Len(new0) = maxlength) \/ (ok1 /\ Len(new1) = maxlength)
         geo  == ok0 /\ ok1 /\ Len(new0) < maxlength /\ Len(new1) < maxlength
         wOld == HAWeight(old1, R0, RR)
         wNew == IF ok1 THEN HAWeight(new1, R0, RR) ELSE 0
         sure == wOld = 0 \/ wNew >= wOld                   \* the ratio is at least one (or undefined: the code then accepts)
         acc  == geo /\ (~WfPlus \/ sure \/ xi = "below")
     IN res' = [new0 |-> new0, new1 |-> new1, complete0 |-> wb[2], complete1 |-> wf[2], wold |-> wOld, wnew |-> wNew,
                geometric |-> geo,
                empty |-> WfPlus /\ geo /\ sure /\ xi = "above",      \* no number above a ratio >= 1 exists: the class is empty
                verdict |-> IF acc THEN "accept" ELSE IF ok0 /\ ok1 /\ edge THEN "free" ELSE "reject"]
  /\ UNCHANGED <<old0, old1, back, forw, maxlength, xi>>
Next == Apply
Spec == Init /\ [][Next]_vars

(* what the property promises *)
AcceptedAreMembers == (done /\ res.verdict = "accept") =>
   /\ MemberMinus(res.new0, R0) /\ MemberPlus(res.new1, R0 - 1, R0, RR)
   /\ Len(res.new0) <= maxlength /\ Len(res.new1) <= maxlength
CrossingExchanged == (done /\ res.verdict = "accept") =>
   /\ res.new0[Len(res.new0) - 1] = old1[1] /\ res.new0[Len(res.new0)] = old1[2]
   /\ res.new1[1] = old0[Len(old0) - 1] /\ res.new1[2] = old0[Len(old0)]
(* swapping back from the new pair returns the crossing frames of the old pair, whatever the extensions do *)
SwapBackRestores == (done /\ res.verdict = "accept") =>
   LET n0 == res.new0  n1 == res.new1 IN
     /\ <<n1[1], n1[2]>> = <<old0[Len(old0) - 1], old0[Len(old0)]>>      \* would end the next [0-] path
     /\ <<n0[Len(n0) - 1], n0[Len(n0)]>> = <<old1[1], old1[2]>>          \* would start the next [0+] path
=============================================================================
