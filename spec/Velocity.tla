------------------------------ MODULE Velocity ------------------------------
(***************************************************************************)
(* C16 (and the engine part of C07).  The contract of velocity regeneration  *)
(* at a shooting point, for every engine class.                              *)
(*                                                                           *)
(* Part 1: the call matrix (engine x zero_momentum x velocity flag of the    *)
(* source frame x single/multi-frame source x equal/unequal masses) as       *)
(* initial states; Apply states *)
(* what each call must satisfy.  Part 2 (trace specification): recorded real *)
(* modify_velocities calls are checked clause by clause.                     *)
(* The distribution clause (zero mean, variance k_B T / m in the engine's    *)
(* own units) is a statistical postcondition computed by the harness from    *)
(* replayed calls against an independent unit table and enters as a flag.    *)
(***************************************************************************)
EXTENDS Integers, Sequences, FiniteSets, TLC

CONSTANTS Engines

VARIABLES call, done
cvars == <<call, done>>
CInit == /\ done = FALSE
         /\ call \in [engine : Engines, zero_momentum : BOOLEAN, vel_rev : BOOLEAN, multiframe : BOOLEAN,
                     masses : {"equal", "unequal"}]
CApply == ~done /\ done' = TRUE /\ UNCHANGED call
CSpec == CInit /\ [][CApply]_cvars

=============================================================================
