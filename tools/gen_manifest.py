#!/venv/bin/python
"""Regenerate MANIFEST.json from the table below (claimed checks) and properties.jsonl."""
import json
import os

ROOT = os.path.dirname(os.path.dirname(os.path.abspath(__file__)))
TECH = "explicit TLA+ specification checked by TLC; bound to the code by replaying TLC behaviours into the real code and by validating recorded executions against the trace specification"

CLAIMS = {
    "C02": ("model_checking",
            "TLC enumerates every reachable (weight matrix, lock set) of Perm.tla within the bounds (0/1 staircases up to 6-7 ensembles with all arrangements and lock sets, weighted up to 4-5 ensembles), checks double stochasticity, zero pattern, scaling invariance, row-swap equivariance and that the transcribed quick_prob / block decomposition equal the permanent formula; every state and every lock/unlock/swap edge is replayed on the real REPEX_state (inf_retis, prob, quick_prob, permanent_prob, fast_glynn_perm, find_blocks); the P actually drawn from and credited in recorded executions is re-derived by TLC in TraceInfretis.tla.",
            "exact integers/rationals in TLC (32-bit safe at these bounds); floats compared to 1e-10; random_prob (blocks > 12, Monte Carlo by design) excluded",
            "DESIGN.md 5/C02"),
    "C03": ("model_checking",
            "Infretis.tla (Layer R) model-checked for mutual exclusion of ensembles, paths, engine instances, exact lock marking and zero-swap atomicity over all interleavings of small systems; TLC-sampled behaviours are replayed on the real REPEX_state/assign_engines with forced draws, real multi-worker runs are recorded step-driven, and the unmodified scheduler() runs with a real process pool (completion order decided by the operating system) under a recorder in the main process; every step is validated by TLC against TraceInfretis.tla.",
            "in replayed and step-driven runs workers are executed in-process in the order the driver chooses; engine exclusivity is that of the instances handed out by the main process",
            "DESIGN.md 5/C03"),
    "C04": ("model_checking",
            "Infretis.tla with exact rational fractional weights model-checked for the accounting identity and write-once rows; every Complete event of replayed behaviours, recorded step-driven runs and recorded histories of the unmodified scheduler with a real process pool and the real TurtleMD engine (8 ensembles, wire-fencing weights, several workers, SIGKILL and continuation) is checked by TLC for unit credit per idle column, zero on busy rows/columns, support, rows and restart-file contents. Across restarts: the main process is killed at every file-system effect on the data file and the restart file (before, empty, half written, after), restarted and driven to the end; the recorded effects are applied to the Crash.tla disk by TraceCrash.tla (rows written once, never for a live path, none kept beyond the restart file) and the recorded events judged by the credit / record clauses of TraceInfretis.tla.",
            "floats cross the boundary as micro-units and, per step, as exact numerators over perm(W_idle)",
            "DESIGN.md 5/C04"),
    "C05": ("model_checking",
            "Infretis.tla model-checked for CanDraw / NotStuck / sorted idle slots / fresh numbers / loadable restart records (also from varied initial paths and with kills); behaviours with kills and restarts replayed on the real code, real runs with sh and wf moves recorded, all validated by the trace specification; any exception of the main process is a stall. SortCases.tla enumerates the states in which sort_trajstate is called the way the sampler builds them (sorted arrangement, up to K picks admitted by the matching condition of P, one completion, weights 1 / 2, five ensembles) and every case runs through the real sort_trajstate under a swap counter.",
            "termination of sort_trajstate is observed under a watchdog on every explored state, not proved for all N",
            "DESIGN.md 5/C05"),
    "C06": ("model_checking",
            "Restart is model-checked to be a stuttering step on the abstract state and to re-issue exactly the recorded jobs; on the real code every (seed, split chain) is executed straight and split with the real restart path and the data and restart files are compared byte for byte; multi-worker kills/restarts are validated by the trace specification.",
            "one-worker comparisons (completion order is then fixed); allowmaxlength = true and integer order parameters as the property's scope note says",
            "DESIGN.md 5/C06"),
    "C07": ("model_checking",
            "Stream ordinals are model-checked to be fresh across kills and restarts (the as-implemented ordinal rule is refuted by TLC as a lead); in recorded real runs every job's move and engine streams are fingerprinted and TLC checks distinctness, freshness across restarts, seed ownership and that the k-th job of a seed has the same streams whatever the worker count or completion order; draws from outside the job's streams are counted.",
            "a stream is identified by seed-sequence identity and generator state at hand-out; independence of PCG64 children is numpy's guarantee",
            "DESIGN.md 5/C07"),
    "C08": ("fault_enumeration",
            "the real main process is killed at every one of its file-system effects (numbered by an interposer from a crash-free reference run) - before the effect, with the file created empty, half written, after - and at sampled second crash points; the real restart path runs on what is on disk, the run is continued to the end, and the recorded events are validated by the trace specification (record restored, weights, rows once, re-issue).",
            "process death only (os._exit); completed writes/renames are assumed durable; worker-side effects are outside",
            "DESIGN.md 5/C08"),
    "C17": ("model_checking",
            "Runner.tla (queue, task wrappers, futures, managed list, stop) model-checked for exactly-once execution and delivery, clean stop and termination over all completion orders including failing tasks; its behaviours are replayed on the real aiorunner/future_list; the real scheduler() runs under a scripted executor for (workers, steps, restart point) combinations; step counting of Infretis.tla is replayed and validated by the trace specification; the unmodified scheduler() with a real process pool and real moves is run, SIGKILLed, restarted and continued with more steps, every history validated by TraceInfretis.tla. The counting argument itself (never more jobs in flight than steps left, nothing in flight at the end, exactly steps - restart point submissions and deliveries) is an inductive invariant of ApaSteps.tla that Apalache discharges for symbolic worker count, step count and restart point; the weakening the code had before 7cc4d53 (OverIssue) is refuted by TLC and by Apalache in every run.",
            "for the exhaustive completion orders the process pool is replaced by a scripted executor; everything else of the runner and the scheduler runs unmodified",
            "DESIGN.md 5/C17"),
}


def main():
    props = [json.loads(l) for l in open(os.path.join(ROOT, "properties.jsonl"))]
    extra = {}
    p = os.path.join(ROOT, "tools", "claims_extra.json")
    if os.path.isfile(p):
        extra = json.load(open(p))
    claims = dict(CLAIMS)
    for k, v in extra.items():
        claims[k] = tuple(v)
    checks = []
    for pr in props:
        pid = pr["id"]
        if pid not in claims:
            continue
        cat, text, note, ref = claims[pid][:4]
        tech = claims[pid][4] if len(claims[pid]) > 4 else TECH
        checks.append({
            "property_id": pid, "quick_cmd": f"./check {pid} --tier quick", "thorough_cmd": f"./check {pid} --tier thorough",
            "evidence_file": f"evidence/{pid}.json", "replay_cmd_template": f"./check {pid} --replay {{path}}",
            "engine": "tlc+conformance",
            "level_claimed": {"category": cat, "text": text, "design_ref": ref},
            "level_note": note, "technique": tech})
    na = [{"property_id": pr["id"], "reason": "check not built yet in this session (see DESIGN.md section 8 for the plan)"}
          for pr in props if pr["id"] not in claims]
    man = {
        "version": 1,
        "setup_cmd": "./setup.sh",
        "hooks": {"guard": "INFRETIS_VERIF",
                  "enable": "no source hooks: events are recorded by wrapping public methods from the harness; the guard name is reserved",
                  "baseline_off_cmd": "cd /repo && /venv/bin/python -m pytest -ra -q -p no:cacheprovider --timeout=900 --continue-on-collection-errors",
                  "source_commits": [], "add_only": True},
        "engines": [{"name": "tlc+conformance", "path": "harness/", "serves_properties": [c["property_id"] for c in checks],
                     "kind_free_text": "TLA+ specifications under spec/ checked by TLC; TLC behaviours / state graphs replayed into the real code; recorded executions validated by TLC against trace specifications"}],
        "checks": checks,
        "notes": "See DESIGN.md. Genuine defects found by the checks are listed in KNOWN_FINDINGS.json (open findings and 'fix:' commits in /repo).",
        "not_applicable": na,
    }
    json.dump(man, open(os.path.join(ROOT, "MANIFEST.json"), "w"), indent=1)
    print(f"{len(checks)} checks claimed, {len(na)} not yet")


if __name__ == "__main__":
    main()
