#!/bin/sh
# usage: tools/confirm_seed.sh <PROP> <M1|M2>   -- confirm a sub-agent's mutant in its scratch worktree /tmp/wt/<PROP>
ID="$1"; M="$2"; BASE=${SEED_BASE:-/tmp/wt}; WT=$BASE/$ID; OUT=$WT/_out; LOG=$BASE/confirm_${ID}_$M.log
cd "$WT" || exit 2
git checkout -q -- . ; git apply --check "$OUT/$M.diff" || { echo "$ID $M: patch does not apply" | tee $LOG; exit 2; }
export PYTHONPATH=$WT REPO_ROOT=$WT
timeout 300 /venv/bin/python "$OUT/demo_$M.py" > $LOG.demo_clean 2>&1; rc_clean=$?
git apply "$OUT/$M.diff"
timeout 300 /venv/bin/python "$OUT/demo_$M.py" > $LOG.demo_mut 2>&1; rc_mut=$?
cd $WT && timeout 1200 /venv/bin/python -m pytest -q -p no:cacheprovider -p no:randomly --timeout=900 --deselect test/simulations/test_run_infretis.py::test_restart_multiple_w > $LOG.tests 2>&1; rc_tests=$?
git checkout -q -- .
echo "$ID $M: demo_clean=$rc_clean demo_mutant=$rc_mut tests_with_mutant=$rc_tests $(tail -1 $LOG.tests)" | tee $LOG
