#!/bin/sh
# usage: tools/seed_matrix.sh "<seed dirs>" [tier] [check id]
# run each seeded mutant's own property check (or the given check) on a scratch copy of /repo; one line per seed
TIER="${2:-quick}"
HERE=$(cd "$(dirname "$0")/.." && pwd)
for d in $1; do
  id=$(basename $d); prop=${3:-${id%%-*}}
  out=$("$HERE/tools/try_patch_scratch.sh" $(readlink -f $d/patch.diff) $prop $TIER 2>&1 | grep -v conda | sed 's/^ *//' | tr '\n' '|' | cut -c1-600)
  echo "$id [$prop]: $out"
done
