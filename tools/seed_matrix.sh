#!/bin/sh
# usage: tools/seed_matrix.sh "<seed dirs>" [tier]  -- run each seeded mutant's own property check on a scratch copy of /repo
TIER="${2:-quick}"
for d in $1; do
  id=$(basename $d); prop=${id%%-*}
  out=$(tools/try_patch_scratch.sh $(readlink -f $d/patch.diff) $prop $TIER 2>&1 | tr '\n' '|' | cut -c1-700)
  echo "$id: $out"
done
