#!/bin/sh
# usage: tools/try_patch.sh <patch.diff> <ID> [tier]   -- apply a seeded change to /repo, run a check, undo it.
P="$1"; ID="$2"; TIER="${3:-quick}"
cd /verif || exit 2
if ! git -C /repo diff --quiet; then echo "/repo has local changes; refusing"; exit 2; fi
git -C /repo apply "$P" || { echo "patch does not apply"; exit 2; }
trap 'git -C /repo checkout -- . ' EXIT INT TERM
./check "$ID" --tier "$TIER" > /tmp/try_patch.$$.log 2>&1
rc=$?
grep -E "^(VIOLATION|KNOWN-FINDING|MACHINERY|C[0-9]+:)" /tmp/try_patch.$$.log | head -8
echo "exit=$rc (1 = detected)"; rm -f /tmp/try_patch.$$.log
rm -rf /verif/replays/$ID 2>/dev/null
exit $rc
