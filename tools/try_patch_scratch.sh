#!/bin/sh
# usage: tools/try_patch_scratch.sh <patch.diff> <ID> [tier]
# apply a seeded change to a scratch worktree of /repo (HEAD) and run a check against it (VERIF_REPO); /repo is untouched
P=$(readlink -f "$1"); ID="$2"; TIER="${3:-quick}"
HERE=$(cd "$(dirname "$0")/.." && pwd)
W=/tmp/mw/$$; mkdir -p /tmp/mw
git -C /repo worktree add -q --detach $W HEAD || exit 2
trap 'git -C /repo worktree remove --force '$W' 2>/dev/null; rm -rf /tmp/mw/ev$$ /tmp/mw/rp$$ /tmp/mw/log$$' EXIT INT TERM
if ! git -C $W apply "$P" 2>/dev/null; then echo "patch does not apply on the current tree"; exit 3; fi
cd "$HERE"
VERIF_REPO=$W VERIF_EVIDENCE_DIR=/tmp/mw/ev$$ VERIF_REPLAY_DIR=/tmp/mw/rp$$ ./check "$ID" --tier "$TIER" > /tmp/mw/log$$ 2>&1
rc=$?
grep -E "^(MACHINERY|C[0-9]+:)" /tmp/mw/log$$ | cut -c1-160 | sort | uniq -c | sort -rn | head -3
grep -c "^VIOLATION" /tmp/mw/log$$ | sed 's/^/VIOLATION lines: /'
grep -c "^KNOWN-FINDING" /tmp/mw/log$$ | sed 's/^/KNOWN-FINDING lines: /'
grep -h "^  signature" /tmp/mw/log$$ | sort | uniq -c | sort -rn | head -5
echo "exit=$rc (1 = detected)"
exit $rc
