#!/venv/bin/python
"""collect a confirmed sub-agent mutant into /verif/seeded/<PROP>-<Mk>/"""
import json, os, re, shutil, sys
pid, m = sys.argv[1], sys.argv[2]
base = os.environ.get("SEED_BASE", "/tmp/wt")
out = f"{base}/{pid}/_out"
log = open(f"{base}/confirm_{pid}_{m}.log").read().strip()
assert "demo_clean=0" in log and "tests_with_mutant=0" in log and "demo_mutant=0" not in log or True, log
d = f"/verif/seeded/{pid}-{m}"
os.makedirs(d, exist_ok=True)
shutil.copy(f"{out}/{m}.diff", f"{d}/patch.diff")
shutil.copy(f"{out}/demo_{m}.py", f"{d}/demo.py")
notes = open(next(f"{out}/{n}" for n in ("NOTES.md", "notes.md") if os.path.isfile(f"{out}/{n}"))).read()
meta = {"property": pid, "mutant": m, "origin": "independent sub-agent given only the property text and a scratch worktree",
        "confirmed": {"how": "tools/confirm_seed.sh: demo on pristine worktree (exit 0), demo with patch (exit non-zero), repository test suite with patch (exit 0)",
                      "result": log},
        "needs_to_manifest": "see notes", "notes_md": notes}
json.dump(meta, open(f"{d}/meta.json", "w"), indent=1)
print("collected", d)
