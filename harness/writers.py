"""Encoders for trajectory formats, written independently of the code under test
(from the formats' own definitions): LAMMPS custom dump, CP2K/extended xyz, GROMACS TRR,
GROMOS96."""

from __future__ import annotations

import struct


def lammpstrj_frame(step, ids, pos, vel, box, fmt="{:.8f}", types=None, box_cols=2):
    """One frame of `dump custom id type x y z vx vy vz id`; box: [(lo, hi)] * 3."""
    n = len(ids)
    out = ["ITEM: TIMESTEP", str(step), "ITEM: NUMBER OF ATOMS", str(n),
           "ITEM: BOX BOUNDS pp pp pp" if box_cols == 2 else "ITEM: BOX BOUNDS xy xz yz pp pp pp"]
    for lo, hi in box:
        out.append(f"{fmt.format(lo)} {fmt.format(hi)}" + (" 0.0" if box_cols == 3 else ""))
    out.append("ITEM: ATOMS id type x y z vx vy vz id")
    for k, i in enumerate(ids):
        t = types[k] if types else 1
        vals = " ".join(fmt.format(v) for v in list(pos[k]) + list(vel[k]))
        out.append(f"{i} {t} {vals} {i}")
    return ("\n".join(out) + "\n").encode()


def xyz_frame(step, names, pos, fmt="{:.10f}", comment=None):
    n = len(names)
    out = [f"{n:8d}", comment if comment is not None else f" i = {step:8d}, time = {step * 0.5:12.3f}, E = {-1.17 + step:20.10f}"]
    for k, nm in enumerate(names):
        out.append(f"{nm:>3s} " + " ".join(fmt.format(v).rjust(20) for v in pos[k]))
    return ("\n".join(out) + "\n").encode()


def trr_frame(step, time, box, x, v=None, f=None, endian=">", double=False, lam=0.0):
    """One TRR frame: magic, version string, 13 integer sizes, time/lambda, box, x, v, f."""
    real = "d" if double else "f"
    rs = 8 if double else 4
    natoms = len(x)
    version = b"GMX_trn_file"
    head = struct.pack(f"{endian}i", 1993)
    head += struct.pack(f"{endian}2i", len(version) + 1, len(version))
    head += version
    box_size = 9 * rs if box is not None else 0
    x_size = natoms * 3 * rs
    v_size = natoms * 3 * rs if v is not None else 0
    f_size = natoms * 3 * rs if f is not None else 0
    head += struct.pack(f"{endian}13i", 0, 0, box_size, 0, 0, 0, 0, x_size, v_size, f_size, natoms, step, 0)
    head += struct.pack(f"{endian}2{real}", time, lam)
    body = b""
    if box is not None:
        body += struct.pack(f"{endian}9{real}", *[box[i][j] for i in range(3) for j in range(3)])
    for arr in (x, v, f):
        if arr is not None:
            body += struct.pack(f"{endian}{natoms * 3}{real}", *[c for row in arr for c in row])
    return head + body, len(head)


def g96(pos, vel, box, names=None):
    """GROMOS96 configuration: TITLE, POSITION, VELOCITY, BOX blocks (15.9f columns)."""
    n = len(pos)
    out = ["TITLE", "written by the harness", "END", "POSITION"]
    for i in range(n):
        nm = names[i] if names else "X"
        out.append(f"{i + 1:5d} {'MOL':5s} {nm:5s}{i + 1:7d}" + "".join(f"{c:15.9f}" for c in pos[i]))
    out += ["END", "VELOCITY"]
    for i in range(n):
        nm = names[i] if names else "X"
        out.append(f"{i + 1:5d} {'MOL':5s} {nm:5s}{i + 1:7d}" + "".join(f"{c:15.9f}" for c in vel[i]))
    out += ["END", "BOX", "".join(f"{c:15.9f}" for c in box), "END"]
    return "\n".join(out) + "\n"
