"""Helpers to run the real Monte Carlo moves (tis.py) on the lattice plug-in engine
with scripted random numbers and scripted engine steps."""

from __future__ import annotations

import importlib.util  # noqa: F401
import os
import sys

import numpy as np

REPO = os.environ.get("VERIF_REPO", "/repo")
if REPO not in sys.path:
    sys.path.insert(0, REPO)


class ScriptedRgen:
    """Stands in for the ensemble's move stream: integers() and random() are scripted and recorded."""

    def __init__(self, integers=None, randoms=None):
        self._ints = list(integers or [])
        self._rands = list(randoms or [])
        self.calls = []

    def integers(self, low, high=None, *a, **k):
        self.calls.append(("integers", low, high))
        if not self._ints:
            raise RuntimeError("scripted integers exhausted")
        return self._ints.pop(0)

    def random(self, *a, **k):
        self.calls.append(("random",))
        if not self._rands:
            raise RuntimeError("scripted randoms exhausted")
        return self._rands.pop(0)


def engine(exe_dir, velocity=False, left_wall=-50):
    from harness.plugins.lattice_engine import LatticeEngine
    from harness.plugins.lattice_orderp import LatticeOrder
    eng = LatticeEngine(left_wall=left_wall)
    eng.exe_dir = exe_dir
    eng.order_function = LatticeOrder(velocity=velocity)
    eng.rgen = np.random.default_rng(12345)
    return eng


def make_path(xs, exe_dir, name="old.lat", generated=("sh", 0.0, 1, 1), maxlen=1000, vel_rev=None):
    """A real Path over a real trajectory file holding the positions xs."""
    from infretis.classes.path import Path
    from infretis.classes.system import System
    fn = os.path.join(exe_dir, name)
    with open(fn, "w") as fh:
        prev = None
        for x in xs:
            v = 1 if prev is None or x >= prev else -1
            fh.write(f"{int(x)} {v}\n")
            prev = x
    p = Path(maxlen=maxlen)
    for k, x in enumerate(xs):
        s = System()
        s.order = [float(x)]
        s.config = (fn, k)
        s.vel_rev = bool(vel_rev[k]) if vel_rev else False
        s.vpot, s.ekin = float(x), 0.5
        p.phasepoints.append(s)
    p.generated = generated
    p.status = "ACC"
    p.path_number = 7
    return p


def snapshot(path):
    """Everything a rejected move must leave untouched: frames, fields and the bytes of the files."""
    files = {}
    for s in path.phasepoints:
        f = s.config[0]
        if f not in files and os.path.isfile(f):
            with open(f, "rb") as fh:
                files[f] = fh.read()
    return ([(float(s.order[0]), s.config, bool(s.vel_rev), s.vpot, s.ekin) for s in path.phasepoints],
            files, path.length)


_ARCH = {"n": 0}


def archive(path, exe_dir):
    """What PathStorage does for an accepted path: its files get a place of their own, so that later
    moves (which reuse scratch file names such as second.lat) cannot touch them."""
    import shutil
    _ARCH["n"] += 1
    d = os.path.join(exe_dir, f"acc{_ARCH['n']}")
    os.makedirs(d, exist_ok=True)
    moved = {}
    for s in path.phasepoints:
        f = s.config[0]
        if f not in moved:
            moved[f] = os.path.join(d, os.path.basename(f))
            shutil.copyfile(f, moved[f])
        s.config = (moved[f], s.config[1])
    return path


def positions(path):
    return [int(round(float(s.order[0]))) for s in path.phasepoints]


def ens_set(l, m, r, maxlength, rgen, allowmax=False, start_cond="L", name="002", cap=None, n_jumps=2, move="sh"):
    tis = {"maxlength": maxlength, "allowmaxlength": allowmax, "zero_momentum": False, "n_jumps": n_jumps,
           "quantis": False, "lambda_minus_one": False, "accept_all": False}
    if cap is not None:
        tis["interface_cap"] = cap
    return {"interfaces": (l, m, r), "tis_set": tis, "mc_move": move, "ens_name": name, "start_cond": start_cond, "rgen": rgen}
