"""C16 - velocity regeneration changes only velocities, at the right temperature.

Velocity.tla enumerates the call matrix (engine x zero_momentum x velocity flag x
source shape) and TLC hands it to the harness; each call is executed on the real
modify_velocities of the five engine classes and the recorded facts are validated by
TLC against TraceVelocity.tla.  The distribution clause is a statistical postcondition
(6-sigma bands against an independent unit table), reported as such.
"""

from __future__ import annotations

import json
import math
import os
import re
import shutil

import numpy as np

from harness import common, engines, sysdrv, tlc

PID = "C16"
CLAUSES = {"V_RequestReachesEngine", "V_PositionsKept", "V_SourceUntouched", "V_NewConfig", "V_ZeroMomentum", "V_KinNew", "V_Dek", "V_Reproducible",
           "V_StreamAdvances", "V_Distribution"}
_BAD = re.compile(r'<<"BADCLAUSE", (\d+), "(\w+)">>')
_DONE = re.compile(r'<<"TRACE-CONSUMED", (\d+), (\d+)>>')


def _ints(arr, scale):
    return [int(round(float(v) * scale)) for v in np.ravel(arr)]


RAW_DEFAULT = {"x0": [], "x1": [], "b0": [], "b1": [], "names0": [], "names1": [], "stream_decides": True}


def one_call(eng, conf, info, zm, vel_rev, seed, work, tag, multiframe=False):
    from infretis.classes.system import System
    exe = os.path.join(work, f"exe_{tag}")
    shutil.rmtree(exe, ignore_errors=True)
    os.makedirs(exe)
    idx = 0
    frames = None
    if multiframe:        # the shooting point is frame 2 of a three-frame trajectory file
        src, frames = engines.make_multiframe(tag.split("_")[0], eng, conf, os.path.join(exe, "source_traj"))
        idx = 2
    else:
        src = os.path.join(exe, "source." + conf.rsplit(".", 1)[1])
        shutil.copyfile(conf, src)
    with open(src, "rb") as fh:
        before = fh.read()
    eng.exe_dir = exe
    eng.rgen = np.random.default_rng(seed)
    st0 = json.dumps(eng.rgen.bit_generator.state, default=str)
    s = System()
    s.set_pos((src, idx))
    s.vel_rev = vel_rev
    if multiframe:
        _x, _v, _b, n0 = engines.read_conf(eng, conf)
        x0, v0, b0 = frames[idx]
    else:
        x0, v0, b0, n0 = engines.read_conf(eng, src)
    mass = engines.masses_of(eng, info)
    with sysdrv.ForeignRandomness() as fr:
        dek, kin_new = eng.modify_velocities(s, {"zero_momentum": zm})
    st1 = json.dumps(eng.rgen.bit_generator.state, default=str)
    x1, v1, b1, n1 = engines.read_conf(eng, s.config[0])
    with open(src, "rb") as fh:
        after = fh.read()
    mom = np.sum(mass[:, None] * v1, axis=0)
    scale = float(np.sum(np.abs(mass[:, None] * v1))) + 1e-300
    kin_w = engines.kinetic(v1, mass)
    kin_old = engines.kinetic(v0, mass)
    if math.isinf(dek):
        dek_ok = kin_old == 0.0 or getattr(eng, "name", "") == "gromacs" or eng.__class__.__name__ == "GromacsEngine"
    else:
        dek_ok = abs(dek - (kin_new - kin_old)) <= 1e-6 * max(1.0, abs(kin_new), abs(kin_old))
    # same stream -> same velocities
    eng.rgen = np.random.default_rng(seed)
    s2 = System()
    s2.set_pos((src, idx))
    s2.vel_rev = vel_rev
    eng.modify_velocities(s2, {"zero_momentum": zm})
    _x, v2, _b, _n = engines.read_conf(eng, s2.config[0])
    ev = {
        "engine": tag.split("_")[0], "zero_momentum": bool(zm), "vel_rev": bool(vel_rev),
        # raw numbers for TraceVelocity.tla (V_PositionsKept is decided there): positions in micro-units, box lengths in 1e-4 units
        "x0": _ints(x0, 1e6), "x1": _ints(x1, 1e6),
        "b0": [] if b0 is None else _ints(np.ravel(b0)[:3], 1e4), "b1": [] if b1 is None else _ints(np.ravel(b1)[:3], 1e4),
        "names0": [str(a) for a in (n0 or [])], "names1": [str(a) for a in (n1 or [])],
        "stream_decides": True,
        "source_bytes_same": before == after, "caller_system_same": True,
        "config_is_new_file": os.path.abspath(s.config[0]) != os.path.abspath(src) and os.path.isfile(s.config[0]),
        "config_index_zero": s.config[1] in (0, None),
        # velocities go through text files with 9 decimals: each component carries up to 5e-10 of rounding
        "momentum_zero": bool(np.max(np.abs(mom)) <= 1e-7 * scale + 1e-9 * float(np.sum(mass))),
        "kin_new_matches_written": bool(abs(kin_new - kin_w) <= 1e-5 * abs(kin_w) + 1e-18 * float(np.sum(mass))),
        "dek_consistent": bool(dek_ok), "same_stream_same_velocities": bool(np.array_equal(v1, v2)),
        "stream_advanced": st0 != st1, "foreign": int(fr.count), "foreign_who": fr.who[:3],
        "stat_checked": False, "mean_ok": True, "var_ok": True,
        "detail": {"kin_new": float(kin_new), "kin_written": float(kin_w), "dek": (None if math.isinf(dek) else float(dek)), "kin_old": float(kin_old)},
    }
    return ev


def name_is_1d(eng):
    return getattr(eng, "dim", 3) == 1


def caller_untouched(eng, conf, work, tag):
    """prepare_shooting_point must leave the path's own frame alone."""
    from infretis.classes import orderparameter as OP
    from infretis.classes.path import Path
    from infretis.classes.system import System
    from infretis.core import tis
    from harness.moves import ScriptedRgen
    exe = os.path.join(work, f"psp_{tag}")
    os.makedirs(exe, exist_ok=True)
    eng.exe_dir = exe
    eng.order_function = OP.Position((0, 0), periodic=False) if name_is_1d(eng) else OP.Distance((0, 1), periodic=False)
    eng.rgen = np.random.default_rng(5)
    p = Path()
    for k in range(3):
        s = System()
        s.set_pos((conf, 0))
        s.order = [0.7 + 0.01 * k]
        p.phasepoints.append(s)
    before = [(s.config, list(s.order), s.vel_rev, s.ekin) for s in p.phasepoints]
    sp, idx, dek = tis.prepare_shooting_point(p, ScriptedRgen(integers=[1]), eng, {"tis_set": {"zero_momentum": False}})
    same = before == [(s.config, list(s.order), s.vel_rev, s.ekin) for s in p.phasepoints]
    return same and sp is not p.phasepoints[1]


def request_job(args):
    """shoot / wire_fencing on the lattice plug-in: every velocity regeneration of the move is handed the ensemble's zero_momentum."""
    kind, zm, seed = args
    from infretis.core import tis
    from harness import moves
    work = common.tmpdir("c16q-")
    try:
        eng = moves.engine(work, left_wall=-6)
        eng.rgen = np.random.default_rng(seed)
        rg = np.random.default_rng(seed + 1)
        es = moves.ens_set(0.5, 1.5, 3.5, 40, rg, move=kind, name="002", n_jumps=3)
        es["tis_set"]["zero_momentum"] = zm
        path = moves.make_path([0, 1, 2, 1, 0], work, name="old.lat")
        n_moves = 0
        for _ in range(6):
            eng.vel_requests.clear()
            if kind == "wf":
                acc, trial, _st = tis.wire_fencing(es, path, eng, start_cond=("L",))
            else:
                acc, trial, _st = tis.shoot(es, path, eng, start_cond=("L",))
            n_moves += 1
            if not eng.vel_requests or any(r is not zm for r in eng.vel_requests):
                return [{"kind": kind, "zero_momentum": zm, "request_ok": False, "seen": [str(r) for r in eng.vel_requests], "seed": seed}]
            if acc:
                path = moves.archive(trial, work)
        return [{"kind": kind, "zero_momentum": zm, "request_ok": True, "seen": [], "seed": seed, "moves": n_moves}]
    except Exception as exc:  # noqa: BLE001
        import traceback
        return [{"_error": f"{type(exc).__name__}: {exc}", "engine": f"lattice/{kind}", "call": {}, "tb": traceback.format_exc()[-1000:]}]
    finally:
        shutil.rmtree(work, ignore_errors=True)


def engine_job(args):
    name, hetero, calls, nstat, seed = args
    work = common.tmpdir("c16-")
    events = []
    try:
        eng, conf, info = engines.build(name, hetero=hetero, work=work)
        mass = engines.masses_of(eng, info)
        for i, c in enumerate(calls):
            try:
                ev = one_call(eng, conf, info, c["zero_momentum"], c["vel_rev"], seed + i, work, f"{name}_{i}", multiframe=bool(c.get("multiframe")))
                ev["multiframe"] = bool(c.get("multiframe"))
                ev["masses"] = "unequal" if hetero else "equal"
                ev["request_ok"] = True
            except Exception as exc:  # noqa: BLE001
                import traceback
                events.append({"_error": f"{type(exc).__name__}: {exc}", "engine": name, "call": c, "tb": traceback.format_exc()[-1000:]})
                continue
            events.append(ev)
        if events and "_error" not in events[0]:
            try:
                events[0]["caller_system_same"] = bool(caller_untouched(eng, conf, work, name))
            except Exception as exc:  # noqa: BLE001
                events.append({"_error": f"prepare_shooting_point: {type(exc).__name__}: {exc}", "engine": name, "call": {}})
        # the statistical postcondition: N draws without momentum reset
        from infretis.classes.system import System
        vs = []
        exe = os.path.join(work, "stat")
        os.makedirs(exe, exist_ok=True)
        eng.exe_dir = exe
        eng.rgen = np.random.default_rng(seed + 1000)
        src = os.path.join(exe, "source." + conf.rsplit(".", 1)[1])
        shutil.copyfile(conf, src)
        for _ in range(nstat):
            s = System()
            s.set_pos((src, 0))
            eng.modify_velocities(s, {"zero_momentum": False})
            _x, v, _b, _n = engines.read_conf(eng, s.config[0])
            vs.append(v)
        vs = np.array(vs)                      # (nstat, natoms, 3)
        dim = getattr(eng, "dim", 3)
        ok_mean = ok_var = True
        detail = []
        for a in range(vs.shape[1]):
            sig2 = info["kbt"] / mass[a] * info["vfac"] ** 2
            comp = vs[:, a, :dim].reshape(-1)
            n = comp.size
            m, var = float(comp.mean()), float(comp.var())
            if abs(m) > 6 * math.sqrt(sig2 / n):
                ok_mean = False
            if abs(var - sig2) > 6 * sig2 * math.sqrt(2.0 / n):
                ok_var = False
            detail.append({"atom": a, "expected_var": sig2, "var": var, "mean": m, "n": n})
        events.append({**RAW_DEFAULT, "engine": name, "request_ok": True, "masses": "unequal" if hetero else "equal", "zero_momentum": False, "vel_rev": False,
                       "source_bytes_same": True, "caller_system_same": True, "config_is_new_file": True, "config_index_zero": True,
                       "momentum_zero": True, "kin_new_matches_written": True, "dek_consistent": True, "same_stream_same_velocities": True,
                       "stream_advanced": True, "foreign": 0, "foreign_who": [], "stat_checked": True, "mean_ok": ok_mean, "var_ok": ok_var,
                       "detail": detail})
    except Exception as exc:  # noqa: BLE001
        import traceback
        events.append({"_error": f"{type(exc).__name__}: {exc}", "engine": name, "call": {}, "tb": traceback.format_exc()[-1200:]})
    finally:
        shutil.rmtree(work, ignore_errors=True)
    return events


def collect(chk, tier, work, pid, clauses, extra_events=None):
    """Run the call matrix on every engine, validate with TraceVelocity.tla, report the given clauses."""
    q = tier == "quick"
    cfg = os.path.join(work, "Velocity.cfg")
    with open(os.path.join(work, "MC_Velocity.tla"), "w") as fh:
        fh.write('---- MODULE MC_Velocity ----\nEXTENDS Velocity\nEng == {"gromacs", "cp2k", "lammps", "ase", "turtlemd", "turtlemd1d"}\n====\n')
    os.symlink(os.path.join(tlc.SPEC_DIR, "Velocity.tla"), os.path.join(work, "Velocity.tla"))
    with open(cfg, "w") as fh:
        fh.write("SPECIFICATION CSpec\nCONSTANTS\n  Engines <- Eng\nCHECK_DEADLOCK FALSE\n")
    dot = os.path.join(work, "vel.dot")
    res = tlc.run_tlc(os.path.join(work, "MC_Velocity.tla"), cfg, dump=dot, timeout=600, allow_violation=True, cwd=work)
    chk.add_tlc(res, {"Engines": 6})
    raw, _i, _e = tlc.read_dot(dot, parse=True)
    calls = {}
    for st in raw.values():
        if st["done"]:
            calls.setdefault((st["call"]["engine"], st["call"]["masses"] == "unequal"), []).append(st["call"])
    jobs = [(name, het, sorted(cl, key=lambda c: (c["zero_momentum"], c["vel_rev"])), 400 if q else 4000, chk.seed * 17 + 3 + 7 * het)
            for (name, het), cl in sorted(calls.items())]
    results = common.pmap(engine_job, jobs)
    base = {**RAW_DEFAULT, "zero_momentum": False, "vel_rev": False, "source_bytes_same": True,
            "caller_system_same": True, "config_is_new_file": True, "config_index_zero": True, "momentum_zero": True, "kin_new_matches_written": True,
            "dek_consistent": True, "same_stream_same_velocities": True, "stream_advanced": True, "foreign": 0, "foreign_who": [], "stat_checked": False,
            "mean_ok": True, "var_ok": True}
    for evs in common.pmap(request_job, [(k, zm, chk.seed + 31 * i) for i, (k, zm) in enumerate((k, zm) for k in ("sh", "wf") for zm in (True, False))]):
        out = []
        for ev in evs:
            if "_error" not in ev:
                ev = dict(base, engine=f"move:{ev['kind']}", masses="-", zero_momentum=ev["zero_momentum"], request_ok=ev["request_ok"], detail=ev)
            out.append(ev)
        results.append(out)
    if extra_events:
        results.append([dict(base, **ev) if "_error" not in ev else ev for ev in extra_events])
    events = []
    for evs in results:
        for ev in evs:
            if "_error" in ev:
                chk.violation(f"raise:{ev['engine']}", f"modify_velocities of {ev['engine']} failed: {ev['_error']}",
                              {"property": pid, "observed": ev, "clause": "does not raise"})
            else:
                events.append(ev)
    path = os.path.join(work, "vel.ndjson")
    with open(path, "w") as fh:
        for ev in events:
            fh.write(json.dumps({k: v for k, v in ev.items() if k not in ("detail", "foreign_who", "engine", "masses", "multiframe")}) + "\n")
    tcfg = os.path.join(work, "TraceVelocity.cfg")
    with open(tcfg, "w") as fh:
        fh.write("SPECIFICATION TSpec\nINVARIANT Report\nCHECK_DEADLOCK FALSE\n")
    sub = os.path.join(work, "tv")
    os.makedirs(sub, exist_ok=True)
    r2 = tlc.run_tlc("TraceVelocity", tcfg, workers=1, cwd=sub, env={"TRACE_FILE": path}, coverage=False, timeout=900, keep_output=True, allow_violation=True)
    out = r2.get("output", "")
    done = _DONE.search(out)
    if not (r2["ok"] and done and int(done.group(1)) == len(events)):
        chk.machinery("TraceVelocity did not consume its batch:\n" + "\n".join(out.splitlines()[-15:]))
    chk.cov["states"] += int(r2.get("distinct") or 0)
    chk.cov["transitions"] += int(r2.get("states") or 0)
    for m in _BAD.finditer(out):
        idx, clause = int(m.group(1)) - 1, m.group(2)
        if clause not in clauses:
            continue
        ev = events[idx]
        chk.violation(f"clause:{clause};engine:{ev['engine']}" + (";multiframe" if ev.get("multiframe") and clause in ("V_PositionsKept", "V_Dek", "V_KinNew") else "") + (";unequal-masses" if ev.get("masses") == "unequal" and clause in ("V_ZeroMomentum", "V_Distribution") else "") + (";zero_momentum" if ev["zero_momentum"] and clause in ("V_KinNew", "V_Dek", "V_ZeroMomentum") else ""),
                      f"modify_velocities of the {ev['engine']} engine violates {clause}: {json.dumps(ev.get('detail'))[:300]} {ev.get('foreign_who')}",
                      {"property": pid, "binding": "C", "spec": "TraceVelocity", "clause": clause, "observed": ev})
    chk.evaluated(len(events))
    chk.traces(len(events))
    for i, ev in enumerate(events):
        chk.nontrivial((ev["engine"], ev.get("masses"), ev["zero_momentum"], ev["vel_rev"], ev["stat_checked"], ev.get("multiframe")))
    if events:
        chk.sample({k: v for k, v in events[0].items()})
    stats = [e for e in events if e["stat_checked"]]
    chk.cov["statistical_clauses"] = [{"engine": e["engine"], "mean_ok": e["mean_ok"], "var_ok": e["var_ok"], "detail": e["detail"]} for e in stats]
    print(f"  modify_velocities calls recorded and validated: {len(events)} ({len(stats)} engines with the distribution clause)", flush=True)


def main(tier, replay=None):
    chk = common.Check(PID, tier, "other")
    if replay:
        with open(replay) as fh:
            rp = json.load(fh)
        ev = rp["observed"]
        work = common.tmpdir("c16r-")
        try:
            collect(chk, "quick", work, PID, {rp["clause"]})
        finally:
            common.rmtree(work)
        if chk.violations:
            return 1
        print("replay: holds")
        return 0
    work = common.tmpdir("c16-")
    try:
        collect(chk, tier, work, PID, CLAUSES)
    finally:
        common.rmtree(work)
    chk.assumptions += ["the distribution clause is statistical (6-sigma bands on mean and variance of each component from replayed calls) and is "
                        "not a model-checking result; the expected variance k_B T / m comes from an independent unit table",
                        "GROMACS is exercised with infretis_genvel (its own gen_vel is outside the property)"]
    return chk.finish("the call matrix of Velocity.tla (engine x zero_momentum x velocity flag) executed on the five real engine classes; "
                      "a case is distinct by (engine, settings)",
                      explanation="Contract clauses (positions/box/names kept, source untouched, zero momentum, kinetic-energy bookkeeping, "
                                  "reproducibility from the job's stream) are decided by TLC on recorded calls (TraceVelocity.tla); the Gaussian "
                                  "mean/variance clause is a 6-sigma statistical test against an independent unit table.")
