"""C18 - invalid configurations are rejected up front; accepted ones initialise.

Config.tla enumerates the whole (bounded) space of the validated fields and states
the verdict the property demands; every configuration is written as a real TOML file
and passed to the real setup_config; accepted ones continue through setup_internal
(with generated load paths) and the first picks; the restart file written is re-read.
"""

from __future__ import annotations

import importlib.util  # noqa: F401
import json
import logging
import os
import shutil
import sys

from harness import common, sysdrv, tlc

PID = "C18"
REPO = os.environ.get("VERIF_REPO", "/repo")
if REPO not in sys.path:
    sys.path.insert(0, REPO)
_RAW = {}
NONE = -99


def pos(k):
    return k + 0.5


def write_case(root, cfg):
    """infretis.toml + load paths for one configuration record of Config.tla."""
    intf = [pos(k) for k in cfg["intf"]]
    n = len(intf)
    lines = ["[runner]", f"workers = {cfg['workers']}", "", "[simulation]", f"interfaces = {sysdrv.toml_value(intf)}",
             "steps = 4", "seed = 1", 'load_dir = "load"', f"shooting_moves = {sysdrv.toml_value(list(cfg['moves']))}", "",
             "[simulation.tis_set]", "maxlength = 30", "allowmaxlength = false", "zero_momentum = false", "n_jumps = 2"]
    if cfg["cap"] != NONE:
        lines.append(f"interface_cap = {cfg['cap'] / 2.0}")
    if cfg["lm1"] != NONE:
        lines.append(f"lambda_minus_one = {cfg['lm1'] / 2.0}")
    if cfg["quantis"]:
        lines.append("quantis = true")
    eng = os.path.join(sysdrv.PLUGINS, "lattice_engine.py")
    orp = os.path.join(sysdrv.PLUGINS, "lattice_orderp.py")
    names = {"none": [], "main": ["engine"], "both": ["engine", "engine0"]}[cfg["engines"]]
    for name in names:
        lines += ["", f"[{name}]", 'class = "LatticeEngine"', f'module = "{eng}"', 'engine = "lattice"', "timestep = 1.0",
                  "subcycles = 1", "temperature = 1.0", "left_wall = -3", "sleep = 0.0"]
    lines += ["", "[orderparameter]", 'class = "LatticeOrder"', f'module = "{orp}"', "", "[output]", 'data_dir = "./"', "screen = 0",
              f"pattern = {'true' if cfg.get('pattern') else 'false'}", "delete_old = false"]
    if cfg.get("ee", "default") != "default":       # an explicit ensemble_engines list: one entry per ensemble, or one too few
        k = n if cfg["ee"] == "full" else max(0, n - 1)
        at = lines.index('load_dir = "load"')
        lines.insert(at + 1, "ensemble_engines = " + sysdrv.toml_value([["engine"] for _ in range(k)]))
    os.makedirs(root, exist_ok=True)
    with open(os.path.join(root, "infretis.toml"), "w") as fh:
        fh.write("\n".join(lines) + "\n")
    if n >= 1:
        lam0 = intf[0]
        load = os.path.join(root, "load")
        _write_path(load, 0, [lam0 + 0.1, lam0 - 0.3, lam0 + 0.1])
        for p in range(1, n):
            _write_path(load, p, [lam0 - 0.3, intf[p - 1] + 0.1, lam0 - 0.3])


def _write_path(load, pn, orders):
    d = os.path.join(load, str(pn))
    os.makedirs(os.path.join(d, "accepted"), exist_ok=True)
    with open(os.path.join(d, "accepted", "traj.lat"), "w") as fh:
        for x in orders:
            fh.write(f"{int(round(x))} 1\n")
    with open(os.path.join(d, "traj.txt"), "w") as fh:
        fh.write("# Cycle: 0, status: ACC\n#     Step              Filename       index    vel\n")
        for i in range(len(orders)):
            fh.write(f"{i:>10}  {'traj.lat':>20s}  {i:>10}  {1:>5}\n")
    with open(os.path.join(d, "order.txt"), "w") as fh:
        fh.write("# Cycle: 0, status: ACC, move: ('ld', 0, 0, 0)\n#     Time       Orderp\n")
        for i, x in enumerate(orders):
            fh.write(f"{i:>10d} {float(x):>12.6f}\n")


def eval_case(cfg, verdict, work):
    from infretis import setup as isetup
    import tomli
    root = os.path.join(work, "case")
    shutil.rmtree(root, ignore_errors=True)
    write_case(root, cfg)
    cwd = os.getcwd()
    os.chdir(root)
    fails = []
    try:
        sysdrv.reset_infretis_globals()
        try:
            config = isetup.setup_config("infretis.toml")
            outcome = "accepted" if config is not None else "none"
        except isetup.TOMLConfigError:
            outcome, config = "rejected", None
        except Exception as exc:  # noqa: BLE001
            outcome, config = f"raise:{type(exc).__name__}", None
            msg = str(exc)[:120]
        if verdict == "reject" and outcome != "rejected":
            what = _why(cfg)
            fails.append((f"not-rejected:{what}:{outcome}", f"configuration with {what} was {outcome.replace('raise:', 'met with ')} instead of a configuration error"))
        elif verdict == "free" and outcome.startswith("raise:"):
            fails.append((f"valid:{outcome}", f"a valid configuration made setup_config raise {outcome[6:]}: {msg}"))
        elif verdict == "free" and outcome == "accepted" and cfg["workers"] >= 0:
            try:
                md_items, state = isetup.setup_internal(config)
                import copy
                # the accepted fields are the ones the ensembles are built from
                intf = [pos(k) for k in cfg["intf"]]
                want0 = (cfg["lm1"] / 2.0, (cfg["lm1"] / 2.0 + intf[0]) / 2, intf[0]) if cfg["lm1"] != NONE else (float("-inf"), intf[0], intf[0])
                got0 = tuple(state.ensembles[0]["interfaces"])
                if got0 != want0:
                    fails.append(("init:ensemble0-interfaces", f"[0-] was given the interfaces {got0}, the configuration (lambda_minus_one = "
                                  f"{cfg['lm1'] / 2.0 if cfg['lm1'] != NONE else 'absent'}) asks for {want0}"))
                for i in range(1, len(intf)):
                    want = (intf[0], intf[0] if i == 1 else intf[i - 1], intf[-1])
                    if tuple(state.ensembles[i]["interfaces"]) != want:
                        fails.append(("init:ensemble-interfaces", f"ensemble {i} was given {tuple(state.ensembles[i]['interfaces'])}, expected {want}"))
                want_cap = cfg["cap"] / 2.0 if cfg["cap"] != NONE else None
                got_cap = state.ensembles[1]["tis_set"].get("interface_cap", None)
                if (got_cap if got_cap is not False else None) != want_cap:
                    fails.append(("init:cap", f"the ensembles carry interface_cap = {got_cap}, the configuration says {want_cap}"))
                if state.n != len(intf) + 1 or state.workers != cfg["workers"] or [state.ensembles[i]["mc_move"] for i in range(len(intf))] != list(cfg["moves"])[:len(intf)]:
                    fails.append(("init:shape", "ensemble count, worker count or moves differ from the configuration"))
                npick = 0
                while state.initiate():
                    state.prep_md_items(copy.deepcopy(md_items))
                    npick += 1
                if npick != cfg["workers"]:
                    fails.append(("init:picks", f"{npick} first picks for {cfg['workers']} workers"))
                state.write_toml()
                with open("restart.toml", "rb") as fh:
                    written = tomli.load(fh)
                sysdrv.reset_infretis_globals()
                again = isetup.setup_config("restart.toml")
                if again is None:
                    fails.append(("fixedpoint:none", "setup_config refuses the restart file the program has just written"))
                else:
                    again["current"].pop("restarted_from", None)
                    if again != written:
                        keys = [k for k in again if again.get(k) != written.get(k)]
                        fails.append(("fixedpoint:differs", f"re-reading the written restart file changes sections {keys}"))
            except Exception as exc:  # noqa: BLE001
                import traceback
                tb = traceback.extract_tb(exc.__traceback__)
                where = next((f"{os.path.basename(f.filename)}:{f.name}" for f in reversed(tb) if "/infretis/" in f.filename), "harness")
                fails.append((f"init:raise:{type(exc).__name__}:{where}", f"an accepted configuration failed to initialise: {type(exc).__name__} in {where}: {str(exc)[:150]}"))
    finally:
        os.chdir(cwd)
        sysdrv.reset_infretis_globals()
        for h in list(logging.getLogger("main").handlers):
            logging.getLogger("main").removeHandler(h)
    return fails


def _why(cfg):
    n = len(cfg["intf"])
    intf = list(cfg["intf"])
    if n < 2:
        return "fewer-than-two-interfaces"
    if sorted(intf) != intf:
        return "unsorted-interfaces"
    if len(set(intf)) != n:
        return "duplicate-interfaces"
    if cfg["workers"] > n - 1:
        return "too-many-workers"
    if len(cfg["moves"]) < n:
        return "too-few-moves"
    if cfg["engines"] == "none" or (cfg["quantis"] and cfg["engines"] != "both"):
        return "undefined-engine" + (":quantis-without-engine0" if cfg["engines"] == "main" else "")
    if cfg["lm1"] != NONE and cfg["lm1"] >= 2 * intf[0] + 1:
        return "lambda_minus_one-not-below-lambda_0"
    if cfg["cap"] != NONE:
        if cfg["cap"] < 2 * intf[0] + 1 or cfg["cap"] > 2 * intf[-1] + 1:
            return "cap-outside-interfaces" + ("(zero)" if cfg["cap"] == 0 else "")
        return "cap-leaves-wf-ensemble-no-room"
    return "other"


def _job(chunk):
    work = common.tmpdir("c18x-")
    out, n, sample = [], 0, None
    try:
        for sid in chunk:
            st = tlc.parse_state(_RAW[sid])
            if not st["done"]:
                continue
            cfg = dict(st["cfg"])
            cfg["intf"], cfg["moves"] = list(cfg["intf"]), list(cfg["moves"])
            n += 1
            fails = eval_case(cfg, st["verdict"], work)
            if sample is None and st["verdict"] == "reject":
                sample = {"cfg": cfg, "verdict": st["verdict"]}
            for sig, msg in fails:
                out.append((sig, msg, {"cfg": cfg, "verdict": st["verdict"]}))
    finally:
        shutil.rmtree(work, ignore_errors=True)
    return n, out, sample


def main(tier, replay=None):
    global _RAW
    chk = common.Check(PID, tier, "model_checking")
    q = tier == "quick"
    if replay:
        with open(replay) as fh:
            rp = json.load(fh)
        work = common.tmpdir("c18r-")
        try:
            fails = eval_case(rp["case"]["cfg"], rp["case"]["verdict"], work)
        finally:
            shutil.rmtree(work, ignore_errors=True)
        if fails:
            print(f"VIOLATION property={PID} replay={replay}\n  {fails[:2]}")
            return 1
        print("replay: holds")
        return 0
    work = common.tmpdir("c18-")
    try:
        os.symlink(os.path.join(tlc.SPEC_DIR, "Config.tla"), os.path.join(work, "Config.tla"))
        iv, mi = ("-1..1", 3) if q else ("-1..2", 4)      # interface k sits at k + 0.5: negative, and values around zero
        wv = "0..3"      # thorough: about 5 million configurations (341 interface lists with up to four interfaces), most of an hour on 16 cores
        ml = "{0, 2, 3, 4}" if q else "{0, 2, 3, 4, 5}"
        capv = "{None, -2, -1, 0, 1, 3, 4}" if q else "{None, -2, -1, 0, 1, 3, 5, 6}"        # half steps: interface k is 2k + 1
        lm = "{None, -3, 0, 1}" if q else "{None, -3, 0, 1, 2}"
        with open(os.path.join(work, "MC_Config.tla"), "w") as fh:
            fh.write(f"---- MODULE MC_Config ----\nEXTENDS Config\nNoneDef == {NONE}\nIV == {iv}\nWV == {wv}\nML == {ml}\n"
                     f"CV == {capv.replace('None', str(NONE))}\nLV == {lm.replace('None', str(NONE))}\n====\n")
        cfg = os.path.join(work, "Config.cfg")
        with open(cfg, "w") as fh:
            fh.write(f"SPECIFICATION Spec\nCONSTANTS\n  IntfVals <- IV\n  MaxIntf = {mi}\n  WorkerVals <- WV\n  MoveLens <- ML\n  CapVals <- CV\n"
                     "  Lm1Vals <- LV\n  None <- NoneDef\nINVARIANT RejectHasReason\nCHECK_DEADLOCK FALSE\n")
        dot = os.path.join(work, "cfg.dot")
        res = tlc.run_tlc(os.path.join(work, "MC_Config.tla"), cfg, dump=dot, timeout=3400, allow_violation=True, cwd=work, heap="12g")
        chk.add_tlc(res, {"IntfVals": iv, "MaxIntf": mi, "WorkerVals": wv, "MoveLens": ml, "CapVals": capv, "Lm1Vals": lm})
        if not res["ok"]:
            chk.machinery(f"TLC refuted {res['violated']} on Config.tla")
        _RAW, _i, _e = tlc.read_dot(dot, parse=False)
        os.remove(dot)
        ids = sorted(_RAW)
        results = common.pmap(_job, common.chunks(ids, 64))
        ncases = 0
        for n, fails, sample in results:
            ncases += n
            if sample:
                chk.sample(sample, limit=4)
            for sig, msg, case in fails:
                chk.violation(sig, msg, {"property": PID, "binding": "B", "spec": "Config", "case": case, "clause": sig})
        chk.evaluated(ncases)
        chk.traces(ncases)
        for i in range(ncases):
            chk.nontrivial(i)
        chk.cov["exhaustive"] = True
        print(f"  Config: {res['distinct']} states, {ncases} configurations passed to the real setup_config", flush=True)
    finally:
        common.rmtree(work)
    chk.assumptions += ["conditions the code checks but the property does not list (QuanTIS with lambda_minus_one, a short ensemble_engines list) are don't-care for the verdict: if such a configuration is accepted it must initialise"]
    return chk.finish("the whole bounded space of the validated fields (interface lists in any order with duplicates, workers, move lists, cap, "
                      "lambda_minus_one, engine defined or not, quantis); every configuration is distinct")
