"""C12 - every engine returns the trajectory it actually ran.

Poller.tla (engine part) is model-checked over all emit / poll / exit interleavings and
its behaviours supply the output timing of a fake external program; the real
LAMMPSEngine._propagate_from runs against that fake program (frames with a box that
changes every frame and a box-dependent order parameter); TurtleMD and the lattice
plug-in run for real.  Every propagation is recorded and validated by TLC against
TraceEngine.tla.
"""

from __future__ import annotations

import importlib.util  # noqa: F401
import json
import math
import os
import random
import re
import shutil
import sys
import types

import numpy as np

from harness import common, engines, moves, tlc, writers

PID = "C12"
REPO = os.environ.get("VERIF_REPO", "/repo")
if REPO not in sys.path:
    sys.path.insert(0, REPO)
_BAD = re.compile(r'<<"BADCLAUSE", (\d+), "(\w+)">>')
_DONE = re.compile(r'<<"TRACE-CONSUMED", (\d+), (\d+)>>')


def cls_of(x, left, right):
    return 1 if x < left else (2 if x > right else 0)


def blank_event(engine, **kw):
    ev = {"engine": engine, "raised": False, "must_raise": False, "first_is_start": True, "frames_reference_k": True, "orders_match": True,
          "cls": [0], "maxlen": 1, "success": False, "expected_len": 0, "program_stopped": True, "retrace_checked": False, "retrace_ok": True}
    ev.update(kw)
    return ev


# ---------------------------------------------------------------------------
def inprocess_job(args):
    kind, seed = args
    from infretis.classes.path import Path
    from infretis.classes.system import System
    from infretis.classes import orderparameter as OP
    rnd = random.Random(seed)
    work = common.tmpdir("c12i-")
    events = []
    try:
        if kind == "lattice":
            eng = moves.engine(work, left_wall=-6)
            eng.rgen = np.random.default_rng(seed)
            start_file = os.path.join(work, "start.lat")
            x0 = rnd.randrange(0, 3)
            with open(start_file, "w") as fh:
                fh.write(f"{x0} 1\n")
            readx = lambda f, k: float(__import__("harness.plugins.lattice_engine", fromlist=["read_lat"]).read_lat(f)[k][0])  # noqa: E731
        else:
            import tomli
            from infretis.classes.engines.factory import create_engine
            ip = os.path.join(engines.EX, "turtlemd", "double_well")
            with open(os.path.join(ip, "infretis.toml"), "rb") as fh:
                cfg = tomli.load(fh)
            cfg["engine"]["integrator"] = {"class": "VelocityVerlet", "settings": {}}
            eng = create_engine(cfg)
            from turtlemd.integrators import VelocityVerlet

            class VV(VelocityVerlet):      # TurtleMDEngine hands every integrator a seed; velocity Verlet takes none
                def __init__(self, timestep, seed=None, **kw):
                    super().__init__(timestep, **kw)
            eng.integrator = VV
            eng.exe_dir = work
            eng.rgen = np.random.default_rng(seed)
            eng.order_function = OP.Position((0, 0), periodic=False)
            from infretis.classes.engines.engineparts import write_xyz_trajectory
            start_file = os.path.join(work, "start.xyz")
            x0 = rnd.uniform(-0.95, -0.75)
            write_xyz_trajectory(start_file, np.array([[x0, 0.0, 0.0]]), np.array([[rnd.uniform(0.3, 0.9), 0.0, 0.0]]), ["Z"], None, append=False)

            def readx(f, k):
                from infretis.classes.engines.engineparts import convert_snapshot, read_xyz_file
                for i, snap in enumerate(read_xyz_file(f)):
                    if i == k:
                        return float(convert_snapshot(snap)[1][0][0])
                raise IndexError(k)
        for rep in range(6):
            maxlen = rnd.choice([3, 5, 8, 20, 60])
            if kind == "lattice":
                left, right = -0.5 - rnd.randrange(0, 2), x0 + 0.5 + rnd.randrange(1, 3)
            else:
                left, right = -0.99 - rnd.choice([0.0, 0.05]), rnd.choice([-0.6, -0.3, 0.2])
            reverse = rep % 2 == 1
            s = System()
            s.set_pos((start_file, 0))
            s.order = [x0]
            path = Path(maxlen=maxlen)
            es = {"interfaces": (left, (left + right) / 2, right), "ens_name": "007"}
            try:
                success, _status = eng.propagate(path, es, s, reverse=reverse)
            except Exception as exc:  # noqa: BLE001
                events.append(blank_event(kind, raised=True, detail=f"{type(exc).__name__}: {exc}"))
                continue
            ok_ref = ok_ord = True
            files = {p.config[0] for p in path.phasepoints}
            for k, p in enumerate(path.phasepoints):
                if p.config[1] != k or len(files) != 1:
                    ok_ref = False
                try:
                    if abs(readx(p.config[0], p.config[1]) - float(p.order[0])) > 1e-6:
                        ok_ord = False
                except Exception:  # noqa: BLE001
                    ok_ord = False
            first = path.phasepoints[0]
            ev = blank_event(kind, first_is_start=abs(float(first.order[0]) - x0) < 1e-6, frames_reference_k=ok_ref, orders_match=ok_ord,
                             cls=[cls_of(float(p.order[0]), left, right) for p in path.phasepoints], maxlen=maxlen, success=bool(success),
                             vel_rev_ok=all(bool(p.vel_rev) == reverse for p in path.phasepoints))
            if kind == "turtlemd" and not reverse and path.length >= 3:
                k = rnd.randrange(1, path.length)
                s2 = path.phasepoints[k].copy()
                back = Path(maxlen=k + 1)
                eng.propagate(back, {"interfaces": (-50.0, 0.0, 50.0), "ens_name": "007"}, s2, reverse=True)
                fw = [float(p.order[0]) for p in path.phasepoints[:k + 1]][::-1]
                bw = [float(p.order[0]) for p in back.phasepoints]
                ev["retrace_checked"] = True
                ev["retrace_ok"] = len(bw) == len(fw) and max(abs(a - b) for a, b in zip(fw, bw)) < 1e-6
            events.append(ev)
    except Exception as exc:  # noqa: BLE001
        import traceback
        events.append({"_error": f"{type(exc).__name__}: {exc}", "tb": traceback.format_exc()[-1200:], "engine": kind})
    finally:
        shutil.rmtree(work, ignore_errors=True)
    return events


# ---------------------------------------------------------------------------
def min_image_dist(p, box):
    d = p[1] - p[0]
    d = d - np.rint(d / box) * box
    return float(np.sqrt(np.dot(d, d)))


def lammps_job(args):
    """The real LAMMPSEngine._propagate_from against a fake `lmp` whose output timing is scripted."""
    seed, batches, exit_code, nframes, stop_at = args
    from infretis.classes import orderparameter as OP
    from infretis.classes.engines import lammps as LM
    from infretis.classes.path import Path
    from infretis.classes.system import System
    rnd = random.Random(seed)
    work = common.tmpdir("c12l-")
    try:
        eng, conf, _info = engines.build("lammps")
        eng.exe_dir = work
        eng.rgen = np.random.default_rng(seed)
        eng.sleep = 0.0
        eng.order_function = OP.Distance((0, 1), periodic=True)
        # frames: two atoms, a box that changes every frame, the separation straddles half a box so the
        # order parameter depends on which box is used
        frames = []
        for k in range(nframes):
            L = 8.0 + 0.9 * k
            sep = 4.6 + 0.35 * k if k < stop_at else 0.4
            pos = np.array([[1.0, 1.0, 1.0], [1.0 + sep, 1.0, 1.0]])
            frames.append((pos, np.array([L, L, L])))
        expected = [min_image_dist(p, b) for p, b in frames]
        left, right = 1.0, 50.0
        blobs = [writers.lammpstrj_frame(k, [1, 2], pos.tolist(), [[0.1, 0, 0], [-0.1, 0, 0]], [(0.0, float(b[0]))] * 3, fmt="{:.8f}")
                 for k, (pos, b) in enumerate(frames)]
        start = os.path.join(work, "start.lammpstrj")
        with open(start, "wb") as fh:
            fh.write(blobs[0])
        state = {"written": 0, "rc": None, "killed": False, "sched": list(batches), "traj": None}

        class FakeProc:
            pid = 4242

            def __init__(self, cmd, **kw):
                inp = cmd[cmd.index("-i") + 1]
                with open(inp) as fh:
                    txt = fh.read()
                name = [ln.split()[-1] for ln in txt.split("\n") if ln.startswith("variable\tname") or ln.startswith("variable 	name")]
                m = re.search(r"variable\s+name index (\S+)", txt)
                state["traj"] = os.path.join(work, m.group(1) + ".lammpstrj")
                with open(os.path.join(work, "log.lammps"), "w") as fh:
                    fh.write("Step KinEng PotEng TotEng Temp\n" + "".join(f"{k} 0.1 0.2 0.3 300\n" for k in range(nframes)) + "Loop time of 1\n")
                self.returncode = None
                advance()

            def poll(self):
                self.returncode = state["rc"]
                return state["rc"]

            def wait(self, timeout=None):
                self.returncode = state["rc"] if state["rc"] is not None else -15
                return self.returncode

        def advance():
            if state["rc"] is not None:
                return
            n = state["sched"].pop(0) if state["sched"] else nframes
            upto = min(nframes, state["written"] + n)
            with open(state["traj"], "ab") as fh:
                for k in range(state["written"], upto):
                    fh.write(blobs[k])
            state["written"] = upto
            if upto >= nframes and not state["sched"]:
                state["rc"] = exit_code

        def fake_sleep(_t):
            advance()

        def killpg(_pg, _sig):
            state["killed"] = True
            state["rc"] = -15

        saved = (LM.subprocess, LM.sleep, LM.os)
        LM.subprocess = types.SimpleNamespace(Popen=FakeProc, PIPE=-1)
        LM.sleep = fake_sleep
        fake_os = types.SimpleNamespace(**{k: getattr(os, k) for k in dir(os) if not k.startswith("__")})
        fake_os.killpg = killpg
        fake_os.getpgid = lambda pid: pid
        fake_os.setsid = os.setsid
        LM.os = fake_os
        path = Path(maxlen=nframes + 3)
        s = System()
        s.set_pos((start, 0))
        from infretis.classes.formatter import FileIO, OutputFormatter
        msg = FileIO(os.path.join(work, "msg.txt"), "w", OutputFormatter("MSG_File"), backup=False)
        msg.open()
        must_raise = exit_code != 0 and stop_at >= nframes
        try:
            success, _st = eng._propagate_from("traj007", path, s, {"interfaces": (left, 2.0, right)}, msg, reverse=False)
            raised = False
        except RuntimeError as exc:
            raised, success = True, False
            detail = str(exc)[:120]
        finally:
            msg.close()
            LM.subprocess, LM.sleep, LM.os = saved
        if raised:
            return [blank_event("lammps", raised=True, must_raise=must_raise, args=list(args))]
        got = [float(p.order[0]) for p in path.phasepoints]
        ok_ord = all(abs(g - e) < 1e-6 for g, e in zip(got, expected)) and len(got) <= len(expected)
        ok_ref = all(p.config[1] == k and p.config[0] == state["traj"] for k, p in enumerate(path.phasepoints))
        exp_len = min(stop_at + 1, nframes)
        ev = blank_event("lammps", must_raise=must_raise, first_is_start=abs(got[0] - expected[0]) < 1e-6, frames_reference_k=ok_ref,
                         orders_match=ok_ord, cls=[cls_of(g, left, right) for g in got], maxlen=path.maxlen, success=bool(success),
                         expected_len=exp_len if stop_at < nframes else 0, program_stopped=state["rc"] is not None,
                         args=list(args), stored=got, recomputed=expected[:len(got)])
        if stop_at >= nframes and exit_code == 0:
            # the program ran to its end without reaching an interface: the path is everything it wrote
            ev["success"] = bool(success)
            ev["maxlen"] = len(got) if not success else path.maxlen
            ev["expected_len"] = nframes
        return [ev]
    except Exception as exc:  # noqa: BLE001
        import traceback
        return [{"_error": f"{type(exc).__name__}: {exc}", "tb": traceback.format_exc()[-1500:], "engine": "lammps", "args": list(args)}]
    finally:
        shutil.rmtree(work, ignore_errors=True)


def schedules(chk, work, q):
    """Batch schedules (frames appended between polls) from Poller.tla behaviours."""
    cfg = os.path.join(work, "PollerE.cfg")
    with open(cfg, "w") as fh:
        fh.write("SPECIFICATION Spec\nCONSTANTS\n  F = 4\n  U = 1\n  MaxPolls = 5\n  StopAt = 3\n  MaxLen = 9\n  ExitCodes = {0, 1}\n"
                 "INVARIANT NoTornFrame\nINVARIANT StopsAtFirstOutside\nINVARIANT ProgramStopped\nINVARIANT FailureRaises\nCHECK_DEADLOCK FALSE\n")
    try:
        res = tlc.run_tlc("Poller", cfg, timeout=1500, allow_violation=True)
        chk.add_tlc(res, {"F": 4, "U": 1, "MaxPolls": 5, "StopAt": 3})
        if not res["ok"]:
            chk.machinery(f"TLC refuted {res['violated']} on Poller.tla (engine part)")
    except tlc.TLCError as exc:
        chk.machinery(str(exc)[:1000])
    out = os.path.join(work, "esim")
    os.makedirs(out, exist_ok=True)
    tlc.run_tlc("Poller", cfg, workers=2, simulate=f"file={out}/tr,num={40 if q else 400}", depth=25, seed=chk.seed + 9, coverage=False,
                timeout=600, allow_violation=True)
    scheds = set()
    for b in tlc.read_sim_traces(out):
        cuts = list(b[-1][1]["cuts"])
        batches = [c - p for p, c in zip([0] + cuts, cuts)]
        scheds.add(tuple(batches))
    common.rmtree(out)
    return sorted(scheds)


def main(tier, replay=None):
    chk = common.Check(PID, tier, "model_checking")
    q = tier == "quick"
    if replay:
        with open(replay) as fh:
            rp = json.load(fh)
        ev = rp["observed"]
        evs = lammps_job(tuple(tuple(x) if isinstance(x, list) else x for x in ev["args"])) if ev["engine"] == "lammps" else inprocess_job((ev["engine"], ev.get("seed", 0)))
        work = common.tmpdir("c12r-")
        try:
            bad, _ok = validate(chk, [e for e in evs if "_error" not in e], work)
        finally:
            common.rmtree(work)
        if bad:
            print(f"VIOLATION property={PID} replay={replay}\n  {sorted({c for _i, c in bad})}")
            return 1
        print("replay: holds")
        return 0
    work = common.tmpdir("c12-")
    try:
        scheds = schedules(chk, work, q)
        rnd = random.Random(chk.seed + 91)
        jobs = []
        for sc in scheds:
            nfr = 6
            # scale the abstract batches (0..4 frames) to the file and pad so that every frame gets written
            batches = [max(0, b) for b in sc] + [nfr]
            for stop_at, code in ((3, 0), (nfr, 0), (nfr, 1), (2, 1)):
                jobs.append((rnd.randrange(10 ** 6), tuple(batches), code, nfr, stop_at))
        for nb in ([(6,), (1, 1, 1, 1, 1, 1), (2, 4), (0, 3, 3)]):
            jobs.append((rnd.randrange(10 ** 6), nb, 0, 6, 4))
        lres = common.pmap(lammps_job, jobs)
        ires = common.pmap(inprocess_job, [(k, rnd.randrange(10 ** 6)) for k in ("lattice", "turtlemd") for _ in range(4 if q else 24)])
        events = []
        for evs in lres + ires:
            for ev in evs:
                if "_error" in ev:
                    chk.machinery(f"{ev['engine']}: {ev['_error']}\n{ev.get('tb', '')[-600:]}")
                else:
                    events.append(ev)
        bad, ok = validate(chk, events, work)
        for idx, clause in bad:
            ev = events[idx]
            chk.violation(f"clause:{clause};engine:{ev['engine']}", f"a propagation of the {ev['engine']} engine violates {clause} of TraceEngine.tla: "
                          f"{json.dumps({k: ev.get(k) for k in ('stored', 'recomputed', 'cls', 'success', 'args')})[:400]}",
                          {"property": PID, "binding": "C", "spec": "TraceEngine", "clause": clause, "observed": ev})
        chk.evaluated(len(events))
        chk.traces(len(events))
        for i, ev in enumerate(events):
            chk.nontrivial((ev["engine"], json.dumps(ev.get("args", i))))
        lam = [e for e in events if e["engine"] == "lammps" and not e["raised"]]
        if lam:
            chk.sample({"kind": "LAMMPS propagation against the fake program", "event": lam[0]})
        print(f"  propagations recorded and validated: {len(events)} ({len(lres)} LAMMPS schedules from {len(scheds)} Poller.tla behaviours)", flush=True)
    finally:
        common.rmtree(work)
    chk.assumptions += ["the real MD programs are absent: LAMMPS is impersonated at the level of the files it writes and its process status; "
                        "GROMACS and CP2K propagation loops are not driven in this tier (their on-the-fly readers are C13)",
                        "TurtleMD and the lattice plug-in run for real, in-process"]
    return chk.finish("output-timing schedules from Poller.tla x (stop position, exit code) driven through the real LAMMPS propagation loop; "
                      "real TurtleMD / lattice propagations with random interfaces and length limits; distinct by parameters")


def validate(chk, events, work):
    path = os.path.join(work, "eng.ndjson")
    keep = ("raised", "must_raise", "first_is_start", "frames_reference_k", "orders_match", "cls", "maxlen", "success", "expected_len",
            "program_stopped", "retrace_checked", "retrace_ok")
    with open(path, "w") as fh:
        for ev in events:
            fh.write(json.dumps({k: ev[k] for k in keep}) + "\n")
    cfg = os.path.join(work, "TraceEngine.cfg")
    with open(cfg, "w") as fh:
        fh.write("SPECIFICATION TSpec\nINVARIANT Report\nCHECK_DEADLOCK FALSE\n")
    sub = os.path.join(work, "te")
    os.makedirs(sub, exist_ok=True)
    res = tlc.run_tlc("TraceEngine", cfg, workers=1, cwd=sub, env={"TRACE_FILE": path}, coverage=False, timeout=900, keep_output=True, allow_violation=True)
    out = res.get("output", "")
    done = _DONE.search(out)
    ok = res["ok"] and done is not None and int(done.group(1)) == len(events)
    if not ok:
        chk.machinery("TraceEngine did not consume its batch:\n" + "\n".join(out.splitlines()[-15:]))
    chk.cov["states"] += int(res.get("distinct") or 0)
    chk.cov["transitions"] += int(res.get("states") or 0)
    return [(int(m.group(1)) - 1, m.group(2)) for m in _BAD.finditer(out)], ok
