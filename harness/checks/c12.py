"""C12 - every engine returns the trajectory it actually ran.

Poller.tla (engine part) is model-checked over all emit / poll / exit interleavings and
its behaviours supply the output timing of a fake external program; the real
LAMMPSEngine._propagate_from runs against that fake program (frames with a box that
changes every frame and a box-dependent order parameter); TurtleMD and the lattice
plug-in run for real.  Every propagation is recorded and validated by TLC against
TraceEngine.tla.
"""

from __future__ import annotations

import importlib.util  # noqa: F401
import json
import math
import os
import random
import re
import shutil
import sys
import types

import numpy as np

from harness import common, engines, moves, tlc

PID = "C12"
REPO = os.environ.get("VERIF_REPO", "/repo")
if REPO not in sys.path:
    sys.path.insert(0, REPO)
_BAD = re.compile(r'<<"BADCLAUSE", (\d+), "(\w+)">>')
_DONE = re.compile(r'<<"TRACE-CONSUMED", (\d+), (\d+)>>')


MU = 10 ** 6


def mu(x):
    return int(round(float(x) * MU))


def blank_event(engine, **kw):
    ev = {"engine": engine, "raised": False, "must_raise": False, "may_raise": False, "maxlen": 1, "left": 0, "right": 0, "start": 0,
          "stored": [], "recomp": [], "expect": [], "refs": [], "vrev": [], "reverse": False, "samefile": True, "success": False,
          "program_stopped": True, "request_ok": True, "retrace": [], "retrace_of": []}
    ev.update(kw)
    return ev


class PosVelOrder:
    """x of particle 0 plus a velocity term: sensitive to the velocity direction used for a frame."""

    def __init__(self, c=0.05):
        self.c = c
        self.description = "harness: x + c*vx"
        self.velocity_dependent = True

    def calculate(self, system):
        return [float(system.pos[0][0]) + self.c * float(system.vel[0][0])]


# ---------------------------------------------------------------------------
def inprocess_job(args):
    """TurtleMD (velocity Verlet, time reversible), ASE (velocity Verlet) and the lattice plug-in, for real."""
    kind, seed = args
    from infretis.classes.path import Path
    from infretis.classes.system import System
    rnd = random.Random(seed)
    work = common.tmpdir("c12i-")
    events = []
    try:
        retraceable = kind in ("turtlemd", "ase")
        if kind == "lattice":
            eng = moves.engine(work, left_wall=-6)
            eng.rgen = np.random.default_rng(seed)
            start_file = os.path.join(work, "start.lat")
            x0 = rnd.randrange(0, 3)
            with open(start_file, "w") as fh:
                fh.write(f"{x0} 1\n")
            from harness.plugins.lattice_engine import read_lat

            def frame_order(f, k, vel_rev):
                return float(read_lat(f)[k][0])
            start_order = float(x0)
        elif kind == "turtlemd":
            import tomli
            from infretis.classes.engines.factory import create_engine
            ip = os.path.join(engines.EX, "turtlemd", "double_well")
            with open(os.path.join(ip, "infretis.toml"), "rb") as fh:
                cfg = tomli.load(fh)
            cfg["engine"]["integrator"] = {"class": "VelocityVerlet", "settings": {}}
            eng = create_engine(cfg)
            from turtlemd.integrators import VelocityVerlet

            class VV(VelocityVerlet):      # TurtleMDEngine hands every integrator a seed; velocity Verlet takes none
                def __init__(self, timestep, seed=None, **kw):
                    super().__init__(timestep, **kw)
            eng.integrator = VV
            eng.exe_dir = work
            eng.rgen = np.random.default_rng(seed)
            opf = PosVelOrder(0.05)
            eng.order_function = opf
            start_file = os.path.join(work, "start.xyz")
            x0, v0 = rnd.uniform(-0.95, -0.75), rnd.uniform(0.3, 0.9)
            with open(start_file, "w") as fh:
                fh.write(f"1\n# start\nZ {x0:.12f} 0.0 0.0 {v0:.12f} 0.0 0.0\n")
            from harness import fakemd

            def frame_order(f, k, vel_rev):
                with open(f, "rb") as fh:
                    pos, vel, _b, _n = fakemd.parse_xyz(fh.read())[k]
                return float(pos[0][0]) + opf.c * (-1.0 if vel_rev else 1.0) * float(vel[0][0])
            start_order = x0 + opf.c * v0
        else:
            import ase.io
            from ase import units
            import tomli
            from infretis.classes.engines.factory import create_engine
            ip = os.path.join(engines.EX, "ase", "H2")
            with open(os.path.join(ip, "infretis0.toml"), "rb") as fh:
                cfg = tomli.load(fh)
            cfg["engine"]["calculator_settings"]["module"] = os.path.join(ip, "H2-calc.py")
            cfg["engine"]["integrator"] = "velocityverlet"
            cfg["engine"]["subcycles"] = 3
            for key in ("langevin_fixcm", "langevin_friction"):
                cfg["engine"].pop(key, None)
            cfg["engine"]["input_path"] = ip
            eng = create_engine(cfg)
            eng.exe_dir = work
            eng.rgen = np.random.default_rng(seed)
            cvel = 20.0
            opf = PosVelOrder(cvel)

            class SepOrder:
                description = "harness: x1 - x0 + c*(vx1 - vx0)"
                velocity_dependent = True

                def calculate(self, system):
                    return [float(system.pos[1][0] - system.pos[0][0]) + cvel * float(system.vel[1][0] - system.vel[0][0])]
            eng.order_function = SepOrder()
            atoms = ase.io.read(os.path.join(ip, "conf.traj"))
            atoms.positions[:] = [[1.0, 1.0, 1.0], [1.0 + rnd.uniform(3.3, 3.4), 1.0, 1.0]]
            v0 = rnd.uniform(0.01, 0.03)
            atoms.set_velocities([[0.0, 0.0, 0.0], [v0, 0.0, 0.0]])
            start_file = os.path.join(work, "start.traj")
            ase.io.write(start_file, atoms)

            def frame_order(f, k, vel_rev):
                a = ase.io.read(f, index=k)
                v = a.get_velocities()
                return float(a.positions[1][0] - a.positions[0][0]) + cvel * (-1.0 if vel_rev else 1.0) * float(v[1][0] - v[0][0])
            start_order = frame_order(start_file, 0, False)
            x0 = start_order
        for rep in range(6):
            maxlen = rnd.choice([3, 5, 8, 20, 60])
            if kind == "lattice":
                left, right = -0.5 - rnd.randrange(0, 2), x0 + 0.5 + rnd.randrange(1, 3)
            elif kind == "turtlemd":
                left, right = -0.99 - rnd.choice([0.0, 0.05]), rnd.choice([-0.6, -0.3, 0.2])
            else:
                left, right = start_order - rnd.choice([0.05, 0.5]), start_order + rnd.choice([0.05, 0.2, 5.0])
            reverse = rep % 2 == 1
            s = System()
            s.set_pos((start_file, 0))
            s.order = [start_order]
            path = Path(maxlen=maxlen)
            es = {"interfaces": (left, (left + right) / 2, right), "ens_name": "007"}
            try:
                success, _status = eng.propagate(path, es, s, reverse=reverse)
            except Exception as exc:  # noqa: BLE001
                events.append(blank_event(kind, raised=True, detail=f"{type(exc).__name__}: {exc}", args=[kind, seed]))
                continue
            if reverse and kind != "lattice":
                # the start point holds forward velocities: backward in time its order parameter is the same number
                pass
            recomp = []
            for p in path.phasepoints:
                try:
                    recomp.append(mu(frame_order(p.config[0], p.config[1], bool(p.vel_rev))))
                except Exception:  # noqa: BLE001
                    recomp.append(-10 ** 9)
            ev = blank_event(kind, maxlen=maxlen, left=mu(left), right=mu(right), start=mu(start_order),
                             stored=[mu(p.order[0]) for p in path.phasepoints], recomp=recomp,
                             refs=[int(p.config[1]) for p in path.phasepoints], vrev=[bool(p.vel_rev) for p in path.phasepoints],
                             reverse=reverse, samefile=len({p.config[0] for p in path.phasepoints}) == 1, success=bool(success),
                             args=[kind, seed], rep=rep)
            if retraceable and not reverse and path.length >= 3:
                k = rnd.randrange(1, path.length)
                s2 = path.phasepoints[k].copy()
                back = Path(maxlen=k + 1)
                eng.propagate(back, {"interfaces": (-1000.0, 0.0, 1000.0), "ens_name": "007"}, s2, reverse=True)
                ev["retrace_of"] = [mu(p.order[0]) for p in path.phasepoints[:k + 1]][::-1]
                ev["retrace"] = [mu(p.order[0]) for p in back.phasepoints]
            events.append(ev)
    except Exception as exc:  # noqa: BLE001
        import traceback
        events.append({"_error": f"{type(exc).__name__}: {exc}", "tb": traceback.format_exc()[-1200:], "engine": kind})
    finally:
        shutil.rmtree(work, ignore_errors=True)
    return events


def schedules(chk, work, q):
    """Output-timing schedules from Poller.tla behaviours: half-frames appended between the engine's looks, and how many
    looks pass between the last write and the program's exit."""
    cfg = os.path.join(work, "PollerE.cfg")
    consts = {"F": 4, "U": 2, "MaxPolls": 6, "StopAt": 3, "MaxLen": 9}
    with open(cfg, "w") as fh:
        fh.write("SPECIFICATION Spec\nCONSTANTS\n" + "".join(f"  {k} = {v}\n" for k, v in consts.items()) + "  ExitCodes = {0, 1}\n"
                 "INVARIANT NoTornFrame\nINVARIANT StopsAtFirstOutside\nINVARIANT ProgramStopped\nINVARIANT FailureRaises\nCHECK_DEADLOCK FALSE\n")
    try:
        res = tlc.run_tlc("Poller", cfg, timeout=1500, allow_violation=True)
        chk.add_tlc(res, consts)
        if not res["ok"]:
            chk.machinery(f"TLC refuted {res['violated']} on Poller.tla (engine part)")
    except tlc.TLCError as exc:
        chk.machinery(str(exc)[:1000])
    out = os.path.join(work, "esim")
    os.makedirs(out, exist_ok=True)
    tlc.run_tlc("Poller", cfg, workers=2, simulate=f"file={out}/tr,num={60 if q else 600}", depth=30, seed=chk.seed + 9, coverage=False,
                timeout=600, allow_violation=True)
    scheds = set()
    for b in tlc.read_sim_traces(out):
        cuts = list(b[-1][1]["cuts"])
        batches = tuple(c - p for p, c in zip([0] + cuts, cuts))
        full_at = next((st["npoll"] for _a, st in b if st["written"] == consts["F"] * consts["U"]), None)
        exit_at = next((st["npoll"] for _a, st in b if st["prog"] == "exited"), None)
        delay = 0 if full_at is None or exit_at is None else max(0, min(2, exit_at - full_at))
        scheds.add((batches, delay))
    common.rmtree(out)
    return sorted(scheds)


EXTERNAL = ("lammps", "cp2k", "gromacs")
INPROCESS = ("lattice", "turtlemd", "ase")


def external_jobs(scheds, rnd, q):
    jobs = []
    combos = [(False, False), (True, False), (False, True), (True, True)]
    n = 0
    for kind in EXTERNAL:
        for batches, delay in scheds:
            for variant in range(2 if q else 6):
                n += 1
                reverse, start_rev = combos[n % 4]
                maxlen = rnd.choice([4, 5, 7])
                cross_at = rnd.choice([1, 2, 3, maxlen - 1, maxlen, None])
                script = {"batches": list(batches), "exit_delay": delay, "lag": rnd.choice([0, 1, 2]) if kind == "cp2k" else 0}
                if variant % 2 == 1:
                    script["crash_after"] = rnd.randrange(1, maxlen + 1)
                    script["crash_code"] = rnd.choice([1, 2, -9, -11])      # an error exit, or death by a signal
                retrace = "crash_after" not in script and not reverse
                jobs.append((kind, rnd.randrange(10 ** 6), script, reverse, start_rev, cross_at, maxlen, rnd.choice([1, 2, 3]), retrace))
        # everything at once and exit; frame by frame; bursts that end with the program's own exit
        for batches, delay in (((40,), 0), ((2,) * 12, 0), ((1,) * 24, 1), ((4, 0, 0, 40), 0), ((0, 0, 3, 40), 0), ((6, 40), 0), ((5, 40), 1)):
            for reverse, start_rev in combos:
                maxlen = 6
                jobs.append((kind, rnd.randrange(10 ** 6), {"batches": list(batches), "exit_delay": delay, "lag": 1 if kind == "cp2k" else 0},
                             reverse, start_rev, rnd.choice([3, 5, None]), maxlen, 2, not reverse))
    return jobs


def rerun(ev):
    from harness import extdrv
    a = ev["args"]
    if a[0] in EXTERNAL:
        return extdrv.external_job(tuple(a))
    return [e for e in inprocess_job((a[0], a[1])) if e.get("rep") == ev.get("rep") or "_error" in e]


def main(tier, replay=None):
    from harness import extdrv
    chk = common.Check(PID, tier, "model_checking")
    q = tier == "quick"
    if replay:
        with open(replay) as fh:
            rp = json.load(fh)
        evs = rerun(rp["observed"])
        work = common.tmpdir("c12r-")
        try:
            bad, _ok = validate(chk, [e for e in evs if "_error" not in e], work)
        finally:
            common.rmtree(work)
        if bad or any("_error" in e for e in evs):
            print(f"VIOLATION property={PID} replay={replay}\n  {sorted({c for _i, c in bad})}")
            return 1
        print("replay: holds")
        return 0
    work = common.tmpdir("c12-")
    try:
        scheds = schedules(chk, work, q)
        rnd = random.Random(chk.seed + 91)
        jobs = external_jobs(scheds, rnd, q)
        xres = common.pmap(extdrv.external_job, jobs)
        ires = common.pmap(inprocess_job, [(k, rnd.randrange(10 ** 6)) for k in INPROCESS for _ in range(4 if q else 24)])
        events = []
        for evs in xres + ires:
            for ev in evs:
                if "_error" in ev:
                    # the engine class failed in a way that is not the scripted program failure: a finding about the engine, not the harness
                    sig = f"raise:{ev['_error'].split(':')[0]};engine:{ev['engine']}"
                    chk.violation(sig, f"a propagation of the {ev['engine']} engine ended in {ev['_error']}\n{ev.get('tb', '')[-700:]}",
                                  {"property": PID, "binding": "C", "spec": "TraceEngine", "clause": "E_Returned", "observed": {"engine": ev["engine"], "args": ev.get("args", [ev["engine"], 0])}})
                else:
                    events.append(ev)
        bad, ok = validate(chk, events, work)
        for idx, clause in bad:
            ev = events[idx]
            chk.violation(f"clause:{clause};engine:{ev['engine']}" + (";reverse" if ev["reverse"] and clause in ("E_OrdersRecomputed", "E_RanFromStart", "E_Retrace", "E_FirstIsStart", "E_StopRule") else ""),
                          f"a propagation of the {ev['engine']} engine violates {clause} of TraceEngine.tla: "
                          f"{json.dumps({k: ev.get(k) for k in ('stored', 'recomp', 'expect', 'start', 'left', 'right', 'success', 'vrev', 'raised', 'must_raise', 'retrace', 'retrace_of', 'args')})[:700]}",
                          {"property": PID, "binding": "C", "spec": "TraceEngine", "clause": clause, "observed": ev})
        # the binding demonstrated: an accepted recorded propagation, corrupted in one field at a time, has to be rejected
        import copy
        good = next((e for i, e in enumerate(events) if not e["raised"] and e["engine"] in EXTERNAL and len(e["stored"]) >= 3 and e["success"]
                     and not any(i == b for b, _c in bad)), None)
        if good is None:
            chk.machinery("self-test: no accepted external propagation of three frames or more")
        else:
            muts = [("unchanged", lambda e: None, None),
                    ("one stored order parameter shifted", lambda e: e["stored"].__setitem__(1, e["stored"][1] + 5000), {"E_OrdersRecomputed", "E_RanFromStart"}),
                    ("a velocity-direction flag flipped", lambda e: e["vrev"].__setitem__(1, not e["vrev"][1]), {"E_VelocityDirection"}),
                    ("the frame references shifted by one", lambda e: e.__setitem__("refs", [r + 1 for r in e["refs"]]), {"E_FramesInOrder"}),
                    ("success reported for a path that ends inside", lambda e: (e["stored"].pop(), e["recomp"].pop(), e["refs"].pop(), e["vrev"].pop()), {"E_StopRule"}),
                    ("the program left running", lambda e: e.__setitem__("program_stopped", False), {"E_ProgramStopped"})]
            vs = []
            for _name, fn, _exp in muts:
                e2 = copy.deepcopy(good)
                fn(e2)
                vs.append(e2)
            sbad, sok = validate(chk, vs, os.path.join(work, "selftest")) if os.makedirs(os.path.join(work, "selftest"), exist_ok=True) is None else ([], False)
            got = {}
            for idx, clause in sbad:
                got.setdefault(idx, set()).add(clause)
            rep = []
            for k, (name, _fn, exp) in enumerate(muts):
                rep.append({"corruption": name, "rejected_by": sorted(got.get(k, ()))})
                if k == 0 and got.get(0):
                    chk.machinery(f"self-test: the uncorrupted propagation is rejected by {sorted(got[0])}")
                elif k > 0 and not (got.get(k, set()) & exp):
                    chk.machinery(f"self-test: TraceEngine did not reject '{name}' by a clause that concerns it (got {sorted(got.get(k, ()))})")
            chk.cov["binding_selftest"] = rep
            print("  binding self-test (TraceEngine): " + "; ".join(f"{r['corruption']} -> {', '.join(r['rejected_by']) or 'accepted'}" for r in rep[1:]), flush=True)
        chk.evaluated(len(events))
        chk.traces(len(events))
        for i, ev in enumerate(events):
            chk.nontrivial((ev["engine"], json.dumps(ev.get("args", i)), ev.get("rep", 0)))
        per = {k: sum(1 for e in events if e["engine"] == k) for k in EXTERNAL + INPROCESS}
        for k in EXTERNAL:
            ex = [e for e in events if e["engine"] == k and not e["raised"] and e["reverse"]]
            if ex:
                chk.sample({"kind": f"{k} backward propagation against the impersonated program", "event": {kk: ex[0][kk] for kk in ("stored", "recomp", "expect", "vrev", "success", "args")}})
        nraise = sum(1 for e in events if e["raised"])
        nretr = sum(1 for e in events if e["retrace_of"])
        print(f"  propagations recorded and validated: {per} ({len(scheds)} Poller.tla schedules; {nraise} raised on a scripted crash; {nretr} retraced backward)", flush=True)
        for k in EXTERNAL + INPROCESS:
            if per[k] == 0:
                chk.machinery(f"no propagation of the {k} engine was recorded")
    finally:
        common.rmtree(work)
    chk.assumptions += ["the real MD programs are absent: GROMACS (mdrun, grompp, energy), CP2K and LAMMPS are impersonated at the level of the input they are "
                        "handed, the files they grow and their process status; the impersonation is a time-reversible integrator that starts from what the engine wrote",
                        "TurtleMD (velocity Verlet), ASE (velocity Verlet, Lennard-Jones) and the lattice plug-in run for real, in-process",
                        "order parameters used depend on positions, box and velocities, so the velocity direction used for a frame is observable"]
    return chk.finish("output-timing schedules from Poller.tla x (direction, velocity flag of the start point, crossing frame, length limit, subcycles, crash point, "
                      "pos/vel file lag) driven through EngineBase.propagate of the real GROMACS, CP2K and LAMMPS classes; real TurtleMD / ASE / lattice "
                      "propagations with random interfaces and length limits; distinct by parameters")


KEEP = ("raised", "must_raise", "may_raise", "maxlen", "left", "right", "start", "stored", "recomp", "expect", "refs", "vrev", "reverse", "samefile",
        "success", "program_stopped", "request_ok", "retrace", "retrace_of")


def validate(chk, events, work):
    path = os.path.join(work, "eng.ndjson")
    with open(path, "w") as fh:
        for ev in events:
            fh.write(json.dumps({k: ev[k] for k in KEEP}) + "\n")
    cfg = os.path.join(work, "TraceEngine.cfg")
    with open(cfg, "w") as fh:
        fh.write("SPECIFICATION TSpec\nINVARIANT Report\nCHECK_DEADLOCK FALSE\n")
    sub = os.path.join(work, "te")
    os.makedirs(sub, exist_ok=True)
    res = tlc.run_tlc("TraceEngine", cfg, workers=1, cwd=sub, env={"TRACE_FILE": path}, coverage=False, timeout=900, keep_output=True, allow_violation=True)
    out = res.get("output", "")
    done = _DONE.search(out)
    ok = res["ok"] and done is not None and int(done.group(1)) == len(events)
    if not ok:
        chk.machinery("TraceEngine did not consume its batch:\n" + "\n".join(out.splitlines()[-15:]))
    chk.cov["states"] += int(res.get("distinct") or 0)
    chk.cov["transitions"] += int(res.get("states") or 0)
    return [(int(m.group(1)) - 1, m.group(2)) for m in _BAD.finditer(out)], ok
