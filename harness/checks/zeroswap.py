"""Spec -> code for the zero swap (C11): ZeroSwap.tla enumerates swap attempts on the lattice (old [0-] path,
old [0+] path, scripted backward and forward extensions, length limit), TLC checks what the property promises on
the demanded results, and every case is executed on the real retis_swap_zero with the scripted lattice engine."""

from __future__ import annotations

import os
import shutil

from harness import common, moves, tlc

_RAW = {}
_CONST = {"R0": 1, "RR": 3, "Wall": -1, "MaxOld": 5, "NSteps": 4}


def run_case(st, exe_dir):
    from infretis.core import tis
    from harness.plugins.lattice_engine import LatticeScriptExhausted
    R0, RR, wall = _CONST["R0"], _CONST["RR"], _CONST["Wall"]
    res = st["res"]
    old0, old1 = list(st["old0"]), list(st["old1"])
    for f in os.listdir(exe_dir):
        os.remove(os.path.join(exe_dir, f))
    p0 = moves.make_path(old0, exe_dir, name="old0.lat")
    p1 = moves.make_path(old1, exe_dir, name="old1.lat")
    wfplus = bool(_CONST.get("WfPlus"))
    if res.get("empty"):
        return None                  # no drawn number above a ratio >= 1 exists
    u = []
    if wfplus and res["geometric"]:
        ratio = 1.0 if res["wold"] == 0 else res["wnew"] / res["wold"]
        u = [min(ratio, 1.0) * (1 - 1e-9) if st["xi"] == "below" else ratio * (1 + 1e-9) + 1e-12]
    rg = moves.ScriptedRgen(integers=[], randoms=u)
    eng = moves.engine(exe_dir, left_wall=wall)
    eng.script_calls = [list(st["back"]), list(st["forw"])]
    es0 = moves.ens_set(float("-inf"), R0 - 0.5, R0 - 0.5, st["maxlength"], rg, start_cond="R", name="000")
    es1 = moves.ens_set(R0 - 0.5, R0 - 0.5, RR - 0.5, st["maxlength"], rg, start_cond="L", name="001", move="wf" if wfplus else "sh")
    b0, b1 = moves.snapshot(p0), moves.snapshot(p1)
    picked = {-1: {"ens": es0, "traj": p0}, 0: {"ens": es1, "traj": p1}}
    try:
        acc, news, status = tis.retis_swap_zero(picked, {-1: [eng], 0: [eng]})
    except LatticeScriptExhausted:
        return [("harness:script", "the engine asked for more steps than the case scripts (harness)")]
    except Exception as exc:  # noqa: BLE001
        return [(f"raise:{type(exc).__name__}", f"retis_swap_zero raised {type(exc).__name__}: {exc}")]
    fails = []
    if bool(acc) != (status == "ACC"):
        fails.append(("swap:acc_iff_status", f"accept = {acc} but status = {status!r}"))
    want = res["verdict"]
    what = (f"old [0-] {old0}, old [0+] {old1}, backward steps {list(st['back'])}, forward steps {list(st['forw'])}, maxlength {st['maxlength']}: "
            f"the specification's new paths are {list(res['new0'])} / {list(res['new1'])}")
    if wfplus:
        what += f"; high-acceptance weights of the old / new [0+] path {res['wold']} / {res['wnew']}, drawn number {u[0] if u else None}"
    tag = "swap:ha" if wfplus and res["geometric"] else "swap:rule"
    if want == "accept" and not acc:
        fails.append((f"{tag}:rejects", f"{what}; the code rejected with {status}, the property accepts"))
    if want == "reject" and acc:
        fails.append((f"{tag}:accepts", f"{what}; the code accepted, the property rejects"))
    if wfplus and res["geometric"] and rg._rands:
        fails.append(("swap:ha:no-draw", f"{what}; the swap did not draw its acceptance number from the move stream"))
    if acc:
        g0, g1 = moves.positions(news[0]), moves.positions(news[1])
        if g0 != list(res["new0"]) or g1 != list(res["new1"]):
            fails.append(("swap:content", f"{what}; the code's new paths are {g0} / {g1}"))
        if len(g0) > st["maxlength"] or len(g1) > st["maxlength"]:
            fails.append(("swap:length", f"an accepted path exceeds maxlength {st['maxlength']}: {len(g0)} / {len(g1)} frames"))
        n = len(g0)
        flags0 = [bool(s.vel_rev) for s in news[0].phasepoints]
        # the backward part was generated with reversed velocities, the frame taken over from [0+] keeps its own flag
        if flags0[: n - 1] != [True] * (n - 1):
            fails.append(("swap:vel_rev", f"velocity flags of the new [0-] path {flags0}: its first {n - 1} frames were generated backward in time"))
    if moves.snapshot(p0) != b0 or moves.snapshot(p1) != b1:
        fails.append(("swap:old_untouched", f"an old path or its files changed during the swap (status {status})"))
    return fails


def _job(chunk):
    work = common.tmpdir("zs-")
    out, n, nacc, sample = [], 0, 0, None
    try:
        for sid in chunk:
            st = tlc.parse_state(_RAW[sid])
            if not st["done"]:
                continue
            n += 1
            nacc += st["res"]["verdict"] == "accept"
            fails = run_case(st, work)
            if fails is None:
                n -= 1
                nacc -= st["res"]["verdict"] == "accept"
                continue
            if sample is None and st["res"]["verdict"] == "accept":
                sample = {k: (list(v) if isinstance(v, (list, tuple)) else v) for k, v in st.items() if k in ("old0", "old1", "back", "forw", "maxlength")}
                sample["new0"], sample["new1"] = list(st["res"]["new0"]), list(st["res"]["new1"])
            for sig, msg in fails:
                out.append((sig, msg, {k: (list(v) if isinstance(v, (list, tuple)) else v) for k, v in st.items() if k != "res"}))
    finally:
        shutil.rmtree(work, ignore_errors=True)
    return n, nacc, out, sample


def run(chk, pid, tier, work):
    for wfplus in (False, True):
        sub = os.path.join(work, f"wf{int(wfplus)}")
        os.makedirs(sub)
        _run_variant(chk, pid, tier, sub, wfplus)


def _run_variant(chk, pid, tier, work, wfplus):
    global _RAW
    q = tier == "quick"
    for mod in ("ZeroSwap.tla", "LatticeOps.tla"):
        os.symlink(os.path.join(tlc.SPEC_DIR, mod), os.path.join(work, mod))
    _CONST.pop("WfPlus", None)
    consts = dict(_CONST) if q else dict(_CONST, MaxOld=6)
    consts["WfPlus"] = "TRUE" if wfplus else "FALSE"
    _CONST.update(consts)
    _CONST["WfPlus"] = wfplus
    mls = "{4, 6, 30}" if q else "{4, 5, 6, 7, 30}"
    with open(os.path.join(work, "MC_ZeroSwap.tla"), "w") as fh:
        fh.write(f"---- MODULE MC_ZeroSwap ----\nEXTENDS ZeroSwap\nMLs == {mls}\nWallDef == {consts['Wall']}\n====\n")
    cfg = os.path.join(work, "ZeroSwap.cfg")
    with open(cfg, "w") as fh:
        fh.write("SPECIFICATION Spec\nCONSTANTS\n" + "".join(f"  {k} = {v}\n" for k, v in consts.items() if k != "Wall")
                 + "  Wall <- WallDef\n  MaxLengths <- MLs\nINVARIANT AcceptedAreMembers\nINVARIANT CrossingExchanged\nINVARIANT SwapBackRestores\nCHECK_DEADLOCK FALSE\n")
    dot = os.path.join(work, "zs.dot")
    res = tlc.run_tlc(os.path.join(work, "MC_ZeroSwap.tla"), cfg, dump=dot, timeout=3000, allow_violation=True, cwd=work)
    chk.add_tlc(res, dict(consts, MaxLengths=mls))
    if not res["ok"]:
        chk.machinery(f"TLC refuted {res['violated']} on ZeroSwap.tla")
    consts = dict(consts, WfPlus=wfplus)
    _RAW, _i, _e = tlc.read_dot(dot, parse=False)
    os.remove(dot)
    results = common.pmap(_job, common.chunks(sorted(_RAW), 64))
    ncases = nacc = 0
    for n, na, fails, sample in results:
        ncases += n
        nacc += na
        if sample:
            chk.sample({"kind": "zero swap enumerated by ZeroSwap.tla and executed on retis_swap_zero", "case": sample}, limit=2)
        for sig, msg, case in fails:
            if sig.startswith("harness:"):
                chk.machinery(msg)
                continue
            chk.violation(sig, msg, {"property": pid, "binding": "B", "spec": "ZeroSwap", "constants": consts, "case": case, "clause": sig, "kind": "zeroswap-case"})
    chk.evaluated(ncases)
    chk.traces(ncases)
    for i in range(ncases):
        chk.nontrivial(("zeroswap", i))
    if nacc < 10:
        chk.machinery(f"only {nacc} of {ncases} enumerated swaps are accepted by the specification: the content clauses would be vacuous")
    print(f"  ZeroSwap ({'wire fencing in [0+]: high-acceptance step' if wfplus else 'shooting in [0+]'}): {res['distinct']} states, {ncases} swap attempts "
          f"executed on the real retis_swap_zero ({nacc} accepted by the specification)", flush=True)


def replay_case(rp, work):
    """Re-run one recorded case: TLC recomputes the demanded result for exactly this attempt."""
    global _RAW
    case = rp["case"]
    consts = dict(rp["constants"])
    wfplus = bool(consts.get("WfPlus")) and consts.get("WfPlus") != "FALSE"
    consts["WfPlus"] = "TRUE" if wfplus else "FALSE"
    _CONST.update(consts)
    _CONST["WfPlus"] = wfplus
    for mod in ("ZeroSwap.tla", "LatticeOps.tla"):
        os.symlink(os.path.join(tlc.SPEC_DIR, mod), os.path.join(work, mod))

    def seq(x):
        return "<<" + ", ".join(str(v) for v in x) + ">>"
    with open(os.path.join(work, "MC_ZeroSwap.tla"), "w") as fh:
        fh.write("---- MODULE MC_ZeroSwap ----\nEXTENDS ZeroSwap\n"
                 f"MLs == {{{case['maxlength']}}}\nWallDef == {consts['Wall']}\n"
                 f"OneInit == old0 = {seq(case['old0'])} /\\ old1 = {seq(case['old1'])} /\\ back = {seq(case['back'])} /\\ forw = {seq(case['forw'])}"
                 f" /\\ maxlength = {case['maxlength']} /\\ xi = \"{case.get('xi', 'below')}\" /\\ done = FALSE /\\ res = <<>>\nOneSpec == OneInit /\\ [][Next]_vars\n====\n")
    cfg = os.path.join(work, "ZeroSwap.cfg")
    with open(cfg, "w") as fh:
        fh.write("SPECIFICATION OneSpec\nCONSTANTS\n" + "".join(f"  {k} = {v}\n" for k, v in consts.items() if k != "Wall")
                 + "  Wall <- WallDef\n  MaxLengths <- MLs\nCHECK_DEADLOCK FALSE\n")
    dot = os.path.join(work, "zs.dot")
    tlc.run_tlc(os.path.join(work, "MC_ZeroSwap.tla"), cfg, dump=dot, timeout=600, allow_violation=True, cwd=work, coverage=False)
    raw, _i, _e = tlc.read_dot(dot, parse=False)
    exe = os.path.join(work, "exe")
    os.makedirs(exe)
    fails = []
    for sid in raw:
        st = tlc.parse_state(raw[sid])
        if st["done"]:
            fails += run_case(st, exe) or []
    return fails
