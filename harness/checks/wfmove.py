"""Spec -> code for the wire-fencing move (C09, C10): WfMove.tla enumerates one-jump wire-fencing moves on the lattice
(old path, picked fence segment, shooting frame, scripted sub-move and extensions, length limit), TLC checks what the
property promises on the demanded results, and every case is executed on the real wire_fencing() with the scripted
lattice engine and a scripted move stream."""

from __future__ import annotations

import os
import shutil

from harness import common, moves, tlc

_RAW = {}
_CONST = {"L": 0, "M": 1, "R": 4, "C": 3, "Wall": -3, "MaxOld": 6, "NSteps": 3}


def segments(old, m, c):
    """Counted fence segments as (first, last) 0-based inclusive, with the boundary frames (independent of the model's)."""
    inside = [m <= x < c for x in old]
    out, k, n = [], 1, len(old)
    while k < n - 1:
        if inside[k] and not inside[k - 1]:
            a = k
            while k < n and inside[k]:
                k += 1
            if k < n:                       # left the fence inside the path
                if not (old[a - 1] >= c and old[k] >= c):
                    out.append((a - 1, k))
        else:
            k += 1
    return out


def run_case(st, exe_dir):
    from infretis.core import tis
    from harness.plugins.lattice_engine import LatticeScriptExhausted
    L, M, R, C, wall = (_CONST[k] for k in ("L", "M", "R", "C", "Wall"))
    res = st["res"]
    old = list(st["old"])
    for f in os.listdir(exe_dir):
        os.remove(os.path.join(exe_dir, f))
    segs = segments(old, M, C)
    pk = st["pick"] - 1
    if pk >= len(segs):
        return [("harness:segments", f"the harness finds {len(segs)} fence segments in {old}, the case names segment {pk + 1}")]
    counts = [b - a - 1 for a, b in segs]
    u = (sum(counts[:pk]) + 0.5 * counts[pk]) / sum(counts)
    path = moves.make_path(old, exe_dir)
    rg = moves.ScriptedRgen(integers=[st["idx"] - 1], randoms=[u])
    eng = moves.engine(exe_dir, left_wall=wall)
    eng.script_calls = [list(st["sb"]), list(st["sf"])] + ([list(st["eb"])] if res["needB"] else []) + ([list(st["ef"])] if res["needF"] else [])
    es = moves.ens_set(L + 0.5, M - 0.5, R - 0.5, st["maxlength"], rg, cap=C - 0.5, n_jumps=1, move="wf")
    before = moves.snapshot(path)
    try:
        accept, trial, status = tis.wire_fencing(es, path, eng, start_cond=("L",))
    except LatticeScriptExhausted:
        return [("harness:script", "the engine asked for more steps than the case scripts (harness)")]
    except Exception as exc:  # noqa: BLE001
        return [(f"raise:{type(exc).__name__}", f"wire_fencing raised {type(exc).__name__}: {exc}")]
    fails = []
    what = (f"old path {old}, fence segment {list(res['seg'])}, shooting frame {st['idx'] - 1} of it, sub-move steps {list(st['sb'])} / {list(st['sf'])}, "
            f"extension steps {list(st['eb'])} / {list(st['ef'])}, maxlength {st['maxlength']}: the specification's new segment is {list(res['sub'])} "
            f"and its path {list(res['path'])}")
    if bool(accept) != (status == "ACC"):
        fails.append(("wf:acc_iff_status", f"accept = {accept} but status = {status!r}"))
    ints = [c for c in rg.calls if c[0] == "integers"]
    if ints and (ints[0][1] < 1 or (ints[0][2] is not None and ints[0][2] > len(res["seg"]) - 1)):
        fails.append(("wf:index", f"shooting index drawn from {ints[0][1:]} for a segment of {len(res['seg'])} frames: its end points lie outside the fence"))
    want = res["verdict"]
    if want == "accept" and not accept:
        fails.append(("wf:rule:rejects", f"{what}; the code rejected with {status}, the property accepts"))
    if want == "reject" and accept:
        fails.append(("wf:rule:accepts", f"{what}; the code accepted {moves.positions(trial)}, the property rejects"))
    if accept:
        got = moves.positions(trial)
        if want != "reject" and got != list(res["path"]):
            fails.append(("wf:content", f"{what}; the code's path is {got}"))
        if len(got) > st["maxlength"]:
            fails.append(("wf:length", f"accepted path of {len(got)} frames exceeds maxlength {st['maxlength']}"))
        if got and not (got[0] <= L and (got[-1] <= L or got[-1] >= R) and all(L < x < R for x in got[1:-1]) and max(got) >= M):
            fails.append(("wf:member", f"the accepted path {got} is not a member of the ensemble"))
    if moves.snapshot(path) != before:
        fails.append(("wf:old_untouched", f"the old path or its files changed during the move (status {status})"))
    return fails


def _job(chunk):
    work = common.tmpdir("wfm-")
    out, n, nacc, sample = [], 0, 0, None
    try:
        for sid in chunk:
            st = tlc.parse_state(_RAW[sid])
            if not st["done"]:
                continue
            n += 1
            nacc += st["res"]["verdict"] == "accept"
            fails = run_case(st, work) or []
            if sample is None and st["res"]["verdict"] == "accept":
                sample = {k: (list(v) if isinstance(v, (list, tuple)) else v) for k, v in st.items() if k not in ("res", "done")}
                sample["path"] = list(st["res"]["path"])
            for sig, msg in fails:
                out.append((sig, msg, {k: (list(v) if isinstance(v, (list, tuple)) else v) for k, v in st.items() if k not in ("res", "done")}))
    finally:
        shutil.rmtree(work, ignore_errors=True)
    return n, nacc, out, sample


def write_model(work, consts, mls, one=None):
    for mod in ("WfMove.tla", "LatticeOps.tla"):
        if not os.path.exists(os.path.join(work, mod)):
            os.symlink(os.path.join(tlc.SPEC_DIR, mod), os.path.join(work, mod))
    extra = ""
    spec = "Spec"
    if one is not None:
        def seq(x):
            return "<<" + ", ".join(str(v) for v in x) + ">>"
        extra = (f"OneInit == old = {seq(one['old'])} /\\ pick = {one['pick']} /\\ idx = {one['idx']} /\\ sb = {seq(one['sb'])} /\\ sf = {seq(one['sf'])}"
                 f" /\\ eb = {seq(one['eb'])} /\\ ef = {seq(one['ef'])} /\\ maxlength = {one['maxlength']} /\\ done = FALSE /\\ res = <<>>\n"
                 "OneSpec == OneInit /\\ [][Next]_vars\n")
        spec = "OneSpec"
    with open(os.path.join(work, "MC_WfMove.tla"), "w") as fh:
        fh.write(f"---- MODULE MC_WfMove ----\nEXTENDS WfMove\nMLs == {mls}\nWallDef == {consts['Wall']}\n{extra}====\n")
    cfg = os.path.join(work, "WfMove.cfg")
    with open(cfg, "w") as fh:
        fh.write(f"SPECIFICATION {spec}\nCONSTANTS\n" + "".join(f"  {k} = {v}\n" for k, v in consts.items() if k != "Wall")
                 + "  Wall <- WallDef\n  MaxLengths <- MLs\n"
                 + ("INVARIANT AcceptedIsMember\nINVARIANT AcceptedContainsSegment\nINVARIANT ShotFromFence\n" if one is None else "") + "CHECK_DEADLOCK FALSE\n")
    return cfg


def run(chk, pid, tier, work):
    global _RAW
    q = tier == "quick"
    consts = dict(_CONST, MaxOld=5) if q else dict(_CONST, MaxOld=7)      # member paths have 3, 5, 7, ... frames here
    _CONST.update(consts)
    mls = "{5, 7, 30}" if q else "{5, 6, 7, 8, 30}"      # cutting limits, and one that never cuts
    cfg = write_model(work, consts, mls)
    dot = os.path.join(work, "wf.dot")
    res = tlc.run_tlc(os.path.join(work, "MC_WfMove.tla"), cfg, dump=dot, timeout=3000, allow_violation=True, cwd=work, heap="12g")
    chk.add_tlc(res, dict(consts, MaxLengths=mls))
    if not res["ok"]:
        chk.machinery(f"TLC refuted {res['violated']} on WfMove.tla")
    _RAW, _i, _e = tlc.read_dot(dot, parse=False)
    os.remove(dot)
    results = common.pmap(_job, common.chunks(sorted(_RAW), 128))
    ncases = nacc = 0
    for n, na, fails, sample in results:
        ncases += n
        nacc += na
        if sample:
            chk.sample({"kind": "wire-fencing move enumerated by WfMove.tla and executed on wire_fencing()", "case": sample}, limit=2)
        for sig, msg, case in fails:
            if sig.startswith("harness:"):
                chk.machinery(msg)
                continue
            chk.violation(sig, msg, {"property": pid, "binding": "B", "spec": "WfMove", "constants": consts, "case": case, "clause": sig, "kind": "wfmove-case"})
    chk.evaluated(ncases)
    chk.traces(ncases)
    for i in range(ncases):
        chk.nontrivial(("wfmove", i))
    if nacc < 50:
        chk.machinery(f"only {nacc} of {ncases} enumerated wire-fencing moves are accepted by the specification: the content clauses would be vacuous")
    print(f"  WfMove: {res['distinct']} states, {ncases} wire-fencing moves executed on the real wire_fencing() ({nacc} accepted by the specification)", flush=True)


def replay_case(rp, work):
    """Re-run one recorded case: TLC recomputes the demanded result for exactly this move."""
    _CONST.update(rp["constants"])
    cfg = write_model(work, rp["constants"], "{" + str(rp["case"]["maxlength"]) + "}", one=rp["case"])
    dot = os.path.join(work, "wf.dot")
    tlc.run_tlc(os.path.join(work, "MC_WfMove.tla"), cfg, dump=dot, timeout=600, allow_violation=True, cwd=work, coverage=False)
    raw, _i, _e = tlc.read_dot(dot, parse=False)
    exe = os.path.join(work, "exe")
    os.makedirs(exe)
    fails = []
    for sid in raw:
        st = tlc.parse_state(raw[sid])
        if st["done"]:
            fails += run_case(st, exe) or []
    return fails


# --------------------------------------------------------------------------- two jumps (sampled cases, evaluated by TLC in batches)
def member_paths(L, R, M, maxold):
    """All +-1 walks of 3..maxold frames that are members of the plus ensemble (L, M, R)."""
    out = []

    def grow(p):
        if len(p) >= 3 and (p[-1] <= L or p[-1] >= R):
            if max(p) >= M:
                out.append(list(p))
            return
        if len(p) >= 2 and not (L < p[-1] < R):
            return
        if len(p) == maxold:
            return
        for d in (1, -1):
            grow(p + [p[-1] + d])
    for x0 in range(L, L + 1):
        grow([x0])
    return [p for p in out if p[0] <= L and all(L < x < R for x in p[1:-1])]


def run_case2(case, out, exe_dir):
    from infretis.core import tis
    from harness.plugins.lattice_engine import LatticeScriptExhausted
    L, M, R, C, wall = (_CONST[k] for k in ("L", "M", "R", "C", "Wall"))
    old, pick, ix1, b1, f1, ix2, b2, f2, eb, ef, ml = case
    for f in os.listdir(exe_dir):
        os.remove(os.path.join(exe_dir, f))
    segs = segments(list(old), M, C)
    counts = [b - a - 1 for a, b in segs]
    u = (sum(counts[:pick - 1]) + 0.5 * counts[pick - 1]) / sum(counts)
    path = moves.make_path(list(old), exe_dir)
    rg = moves.ScriptedRgen(integers=[ix1 - 1, ix2 - 1], randoms=[u])
    eng = moves.engine(exe_dir, left_wall=wall)
    calls = [list(b1)] + ([list(f1)] if out["back1"] else []) + [list(b2)] + ([list(f2)] if out["back2"] else [])
    calls += ([list(eb)] if out["needB"] else []) + ([list(ef)] if out["needF"] else [])
    eng.script_calls = calls
    es = moves.ens_set(L + 0.5, M - 0.5, R - 0.5, ml, rg, cap=C - 0.5, n_jumps=2, move="wf")
    before = moves.snapshot(path)
    try:
        accept, trial, status = tis.wire_fencing(es, path, eng, start_cond=("L",))
    except LatticeScriptExhausted:
        return [("harness:script", "the engine asked for more steps than the case scripts (harness)")]
    except Exception as exc:  # noqa: BLE001
        return [(f"raise:{type(exc).__name__}", f"wire_fencing (two jumps) raised {type(exc).__name__}: {exc}")]
    fails = []
    what = (f"two jumps: old path {list(old)}, segment {pick}, shooting frames {ix1 - 1} / {ix2 - 1}, steps {list(b1)} {list(f1)} | {list(b2)} {list(f2)} | "
            f"{list(eb)} {list(ef)}, maxlength {ml}: sub-moves succeed {out['ok1']} / {out['ok2']}, the specification's path is {list(out['path'])}")
    if bool(accept) != (status == "ACC"):
        fails.append(("wf2:acc_iff_status", f"accept = {accept} but status = {status!r}"))
    ints = [c for c in rg.calls if c[0] == "integers"]
    if len(ints) >= 2 and ints[1][2] is not None and ints[1][2] != out["seglen1"] - 1:
        fails.append(("wf2:second-segment", f"{what}; the second sub-move drew its shooting index below {ints[1][2]}, the segment it has to shoot from has {out['seglen1']} frames"))
    want = out["verdict"]
    if want == "accept" and not accept:
        fails.append(("wf2:rule:rejects", f"{what}; the code rejected with {status}, the property accepts"))
    if want == "reject" and accept:
        fails.append(("wf2:rule:accepts", f"{what}; the code accepted {moves.positions(trial)}, the property rejects"))
    if accept:
        got = moves.positions(trial)
        if want != "reject" and got != list(out["path"]):
            fails.append(("wf2:content", f"{what}; the code's path is {got}"))
        if trial.generated[0] != "wf" or int(trial.generated[2]) != int(out["ok1"]) + int(out["ok2"]):
            fails.append(("wf2:generated", f"{what}; generated = {trial.generated}, successful sub-moves {int(out['ok1']) + int(out['ok2'])}"))
    if moves.snapshot(path) != before:
        fails.append(("wf2:old_untouched", f"the old path or its files changed during the move (status {status})"))
    return fails


def _job2(args):
    cases_with_out = args
    work = common.tmpdir("wfm2-")
    res = []
    try:
        for case, out in cases_with_out:
            for sig, msg in run_case2(case, out, work) or []:
                res.append((sig, msg, [list(x) if isinstance(x, (list, tuple)) else x for x in case]))
    finally:
        shutil.rmtree(work, ignore_errors=True)
    return len(cases_with_out), res


def run_two_jumps(chk, pid, tier, work, seed):
    import random
    q = tier == "quick"
    consts = dict(_CONST, MaxOld=5)
    _CONST.update(consts)
    L, M, R, C = consts["L"], consts["M"], consts["R"], consts["C"]
    rnd = random.Random(seed)
    olds = [p for p in member_paths(L, R, M, 7 if not q else 5) if segments(p, M, C)]
    ncase = 3000 if q else 30000
    cases = []
    for _ in range(ncase):
        o = rnd.choice(olds)
        sg = segments(o, M, C)
        pk = rnd.randrange(1, len(sg) + 1)
        a, b = sg[pk - 1]
        ix1 = rnd.randrange(2, b - a + 1)
        steps = lambda: [rnd.choice([-1, 1]) for _ in range(3)]  # noqa: E731
        cases.append((tuple(o), pk, ix1, tuple(steps()), tuple(steps()), rnd.randrange(2, 6), tuple(steps()), tuple(steps()), tuple(steps()), tuple(steps()),
                      rnd.choice([5, 7, 9, 30])))
    cases = sorted(set(cases))

    def tla(x):
        if isinstance(x, tuple):
            return "<<" + ", ".join(tla(v) for v in x) + ">>"
        return str(x)
    write_model(work, consts, "{30}")
    with open(os.path.join(work, "MC_WfMove2.tla"), "w") as fh:
        fh.write("---- MODULE MC_WfMove2 ----\nEXTENDS WfMove\n" + f"MLs == {{30}}\nWallDef == {consts['Wall']}\n"
                 "Cases == {" + ",\n  ".join(tla(c) for c in cases) + "}\n"
                 "BatchInit == /\\ res \\in Cases /\\ old = <<>> /\\ pick = 0 /\\ idx = 0 /\\ sb = <<>> /\\ sf = <<>> /\\ eb = <<>> /\\ ef = <<>>\n"
                 "             /\\ maxlength = 0 /\\ done = FALSE\n"
                 "BatchApply == /\\ ~done /\\ done' = TRUE /\\ res' = [case |-> res, out |-> Result2(res)]\n"
                 "              /\\ UNCHANGED <<old, pick, idx, sb, sf, eb, ef, maxlength>>\n"
                 "BatchSpec == BatchInit /\\ [][BatchApply]_vars\n"
                 "BatchOk == done => ((res.out.feasible /\\ res.out.verdict = \"accept\") =>\n"
                 "             (MemberPlus(res.out.path, L, M, R) /\\ Len(res.out.path) <= res.case[11] /\\\n"
                 "              (Contains(res.out.path, res.out.sub) \\/ Contains(res.out.path, RevSeq(res.out.sub)))))\n====\n")
    cfg = os.path.join(work, "WfMove2.cfg")
    with open(cfg, "w") as fh:
        fh.write("SPECIFICATION BatchSpec\nCONSTANTS\n" + "".join(f"  {k} = {v}\n" for k, v in consts.items() if k != "Wall")
                 + "  Wall <- WallDef\n  MaxLengths <- MLs\nINVARIANT BatchOk\nCHECK_DEADLOCK FALSE\n")
    dot = os.path.join(work, "wf2.dot")
    res = tlc.run_tlc(os.path.join(work, "MC_WfMove2.tla"), cfg, dump=dot, timeout=3000, allow_violation=True, cwd=work, heap="8g")
    chk.add_tlc(res, dict(consts, jumps=2, cases=len(cases)))
    if not res["ok"]:
        chk.machinery(f"TLC refuted {res['violated']} on WfMove.tla (two jumps)")
    raw, _i, _e = tlc.read_dot(dot, parse=False)
    os.remove(dot)
    todo = []
    for sid in sorted(raw):
        st = tlc.parse_state(raw[sid])
        if st["done"] and st["res"]["out"]["feasible"]:
            todo.append((tuple(st["res"]["case"]), st["res"]["out"]))
    results = common.pmap(_job2, common.chunks(todo, 64))
    n = nacc = 0
    for k, fails in results:
        n += k
        for sig, msg, case in fails:
            if sig.startswith("harness:"):
                chk.machinery(msg)
                continue
            chk.violation(sig, msg, {"property": pid, "binding": "B", "spec": "WfMove", "constants": consts, "case2": case, "clause": sig, "kind": "wfmove2-case"})
    nacc = sum(1 for _c, o in todo if o["verdict"] == "accept")
    both = sum(1 for _c, o in todo if o["ok1"] and o["ok2"])
    chk.evaluated(n)
    chk.traces(n)
    for i in range(n):
        chk.nontrivial(("wfmove2", i))
    if both < 20:
        chk.machinery(f"only {both} sampled two-jump moves have two successful sub-moves")
    print(f"  WfMove (two jumps): {len(cases)} sampled cases evaluated by TLC, {n} realisable ones executed on the real wire_fencing() "
          f"({nacc} accepted, {both} with two successful sub-moves)", flush=True)


def replay_case2(rp, work):
    """Re-run one recorded two-jump case: TLC recomputes the demanded result."""
    consts = rp["constants"]
    case = tuple(tuple(x) if isinstance(x, list) else x for x in rp["case2"])

    def tla(x):
        if isinstance(x, tuple):
            return "<<" + ", ".join(tla(v) for v in x) + ">>"
        return str(x)
    write_model(work, consts, "{30}")
    with open(os.path.join(work, "MC_WfMove2.tla"), "w") as fh:
        fh.write("---- MODULE MC_WfMove2 ----\nEXTENDS WfMove\n" + f"MLs == {{30}}\nWallDef == {consts['Wall']}\n"
                 "Cases == {" + tla(case) + "}\n"
                 "BatchInit == /\\ res \\in Cases /\\ old = <<>> /\\ pick = 0 /\\ idx = 0 /\\ sb = <<>> /\\ sf = <<>> /\\ eb = <<>> /\\ ef = <<>>\n"
                 "             /\\ maxlength = 0 /\\ done = FALSE\n"
                 "BatchApply == /\\ ~done /\\ done' = TRUE /\\ res' = [case |-> res, out |-> Result2(res)]\n"
                 "              /\\ UNCHANGED <<old, pick, idx, sb, sf, eb, ef, maxlength>>\n"
                 "BatchSpec == BatchInit /\\ [][BatchApply]_vars\n====\n")
    cfg = os.path.join(work, "WfMove2.cfg")
    with open(cfg, "w") as fh:
        fh.write("SPECIFICATION BatchSpec\nCONSTANTS\n" + "".join(f"  {k} = {v}\n" for k, v in consts.items() if k != "Wall")
                 + "  Wall <- WallDef\n  MaxLengths <- MLs\nCHECK_DEADLOCK FALSE\n")
    dot = os.path.join(work, "wf2.dot")
    tlc.run_tlc(os.path.join(work, "MC_WfMove2.tla"), cfg, dump=dot, timeout=600, allow_violation=True, cwd=work, coverage=False)
    raw, _i, _e = tlc.read_dot(dot, parse=False)
    exe = os.path.join(work, "exe")
    os.makedirs(exe)
    fails = []
    for sid in raw:
        st = tlc.parse_state(raw[sid])
        if st["done"] and st["res"]["out"]["feasible"]:
            fails += run_case2(tuple(st["res"]["case"]), st["res"]["out"], exe) or []
    return fails
