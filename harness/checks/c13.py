"""C13 - on-the-fly trajectory readers never return a torn frame.

Poller.tla states what a poll may return (between the frames that are completely on
disk and those whose every value byte is on disk) and TLC explores the protocol
(all write/poll interleavings on an abstract file) and supplies cut sequences; the
byte-level quantifier is discharged on the real readers: trajectories produced by
independent encoders are cut at every byte offset (and at pairs / sequences of
offsets) and fed to lammpstrj_reader, xyz_reader and GromacsRunner.get_gromacs_frames.
"""

from __future__ import annotations

import importlib.util  # noqa: F401
import json
import os
import random
import shutil
import sys

import numpy as np

from harness import common, tlc, writers

PID = "C13"
REPO = os.environ.get("VERIF_REPO", "/repo")
if REPO not in sys.path:
    sys.path.insert(0, REPO)


# ---------------------------------------------------------------------------
def gen_lammps(rnd, nframes, natoms, fmt, shuffle, box_cols=2):
    frames, blobs = [], []
    for t in range(nframes):
        ids = list(range(1, natoms + 1))
        if shuffle:
            rnd.shuffle(ids)
        pos = [[round(rnd.uniform(-9, 9), 4) for _ in range(3)] for _ in ids]
        vel = [[round(rnd.uniform(-2, 2), 4) for _ in range(3)] for _ in ids]
        box = [(round(-1.0 - 0.1 * t - 0.01 * d, 3), round(10.0 + 0.2 * t + d, 3)) for d in range(3)]
        blob = writers.lammpstrj_frame(t * 10, ids, pos, vel, box, fmt=fmt, box_cols=box_cols)
        arr = np.zeros((natoms, 6))
        for k, i in enumerate(ids):
            arr[i - 1, :] = [float(fmt.format(v)) for v in pos[k] + vel[k]]
        b = np.zeros((3, 3))
        for d, (lo, hi) in enumerate(box):
            b[d, 0], b[d, 1] = float(fmt.format(lo)), float(fmt.format(hi))
        frames.append((arr, b))
        blobs.append(blob)
    return blobs, frames


def gen_xyz(rnd, nframes, natoms, fmt):
    frames, blobs = [], []
    for t in range(nframes):
        pos = [[round(rnd.uniform(-9, 9), 5) for _ in range(3)] for _ in range(natoms)]
        names = [rnd.choice(["H", "O", "He", "C"]) for _ in range(natoms)]
        blobs.append(writers.xyz_frame(t, names, pos, fmt=fmt))
        frames.append(np.array([[float(fmt.format(v)) for v in row] for row in pos]))
    return blobs, frames


def gen_trr(rnd, nframes, natoms, endian, double, with_v=True, pattern="uniform"):
    """pattern: "uniform"; "f0": forces in the first frame only (nstfout larger than the run); "v-alt": velocities in every second
    frame only (nstvout = 2 nstxout); "f-last": forces appear from the second frame on - the frames of one file differ in size."""
    frames, blobs = [], []
    f32 = (lambda v: float(np.float32(v))) if not double else float
    for t in range(nframes):
        x = [[f32(round(rnd.uniform(-9, 9), 3)) for _ in range(3)] for _ in range(natoms)]
        has_v = with_v and not (pattern == "v-alt" and t % 2 == 1)
        has_f = (pattern == "f0" and t == 0) or (pattern == "f-last" and t >= 1)
        v = [[f32(round(rnd.uniform(-2, 2), 3)) for _ in range(3)] for _ in range(natoms)] if has_v else None
        f = [[f32(round(rnd.uniform(-5, 5), 3)) for _ in range(3)] for _ in range(natoms)] if has_f else None
        box = [[f32(3.0 + 0.1 * t) if i == j else 0.0 for j in range(3)] for i in range(3)]
        blob, _hs = writers.trr_frame(t, 0.002 * t, box, x, v, f, endian=endian, double=double)
        blobs.append(blob)
        frames.append({"x": np.array(x), "v": np.array(v) if has_v else None, "box": np.array(box)})
    return blobs, frames


def cut_class(blobs, c, text=True):
    """Where a cut falls: a coarse, reader-independent description used in signatures."""
    start = 0
    for k, b in enumerate(blobs):
        end = start + len(b)
        if c == start or c == end:
            return "frame-boundary"
        if start < c < end:
            if not text:
                return "in-frame"
            rel = c - start
            lines = b.split(b"\n")[:-1]
            off = 0
            for li, ln in enumerate(lines):
                lend = off + len(ln) + 1
                if off < rel <= lend:
                    last = li == len(lines) - 1
                    where = "before-newline" if rel == lend - 1 else ("line-end" if rel == lend else "in-line")
                    if where == "in-line" and last:
                        tail = ln[rel - off:]
                        where = "in-last-value" if b" " not in tail.strip() or not tail.strip() else "in-line"
                    return ("last-line:" if last else ("header:" if li < 2 else "body:")) + where
                off = lend
        start = end
    return "end"


def bounds(blobs, c, term=1):
    ends, s = [], 0
    for b in blobs:
        s += len(b)
        ends.append(s)
    strict = sum(1 for e in ends if e <= c)
    loose = sum(1 for e in ends if e - term <= c)
    return strict, loose


# ---------------------------------------------------------------------------
def run_text(kind, blobs, frames, cuts, workdir):
    """Poll the real text reader after the file has grown to each cut; returns list of problems."""
    from infretis.classes.engines.engineparts import ReadAndProcessOnTheFly, lammpstrj_reader, xyz_reader
    data = b"".join(blobs)
    path = os.path.join(workdir, f"t{os.getpid()}.{kind}")
    if os.path.exists(path):
        os.remove(path)
    reader = ReadAndProcessOnTheFly(path, lammpstrj_reader if kind == "lammpstrj" else xyz_reader)
    got = 0
    problems = []
    # once the program has exited the engines poll the file twice more
    for c in list(cuts) + [len(data), len(data)]:
        with open(path, "wb") as fh:
            fh.write(data[:c])
        try:
            res = reader.read_and_process_content()
        except Exception as exc:  # noqa: BLE001
            problems.append((f"raise:{type(exc).__name__}", f"{kind} reader raised {type(exc).__name__}: {exc} with {c} of {len(data)} bytes on disk", c))
            return problems
        if kind == "lammpstrj":
            trj, box = (res if isinstance(res, tuple) else ([], []))
            new = list(zip(trj, box))
        else:
            new = [(f, None) for f in (res or [])]
        for arr, b in new:
            if got >= len(frames):
                problems.append(("spurious", f"{kind} reader returned more frames than were written ({c} bytes on disk)", c))
                return problems
            exp = frames[got]
            ea, eb = (exp if kind == "lammpstrj" else (exp, None))
            if arr.shape != ea.shape or not np.array_equal(arr, ea) or (eb is not None and not np.array_equal(b, eb)):
                problems.append(("torn", f"{kind} reader returned frame {got} with values that were not written ({c} of {len(data)} bytes on disk)", c))
                return problems
            got += 1
        strict, loose = bounds(blobs, c)
        if got > loose:
            problems.append(("early", f"{kind} reader returned {got} frames with only {loose} complete on disk ({c} bytes)", c))
            return problems
    if got != len(frames):
        problems.append(("lost", f"{kind} reader returned {got} of {len(frames)} frames after the whole file was on disk", len(data)))
    return problems


class Hang(Exception):
    pass


def run_trr(blobs, frames, cuts, workdir):
    """Both timings of the program's exit: one look after its last write, and together with its last write."""
    out = run_trr_once(blobs, frames, cuts, workdir, False)
    return out if out else [(sig + ":exit-with-last-write", msg, at) for sig, msg, at in run_trr_once(blobs, frames, cuts, workdir, True)]


def run_trr_once(blobs, frames, cuts, workdir, exit_with_last):
    from infretis.classes.engines import gromacs
    data = b"".join(blobs)
    path = os.path.join(workdir, f"t{os.getpid()}.trr")
    stages = list(cuts) + [len(data)]
    state = {"i": 0, "naps": 0, "rc": None, "written": 0}

    def grow():
        c = stages[state["i"]]
        with open(path, "ab") as fh:
            fh.write(data[state["written"]:c])
        state["written"] = c

    with open(path, "wb"):
        pass
    grow()

    class Proc:
        pid = 0
        returncode = None
        stdin = stdout = stderr = None

        def poll(self):
            return state["rc"]

        def wait(self, timeout=None):
            return 0

    def nap(_t):
        state["naps"] += 1
        if state["naps"] > 5 * len(stages) + 50:
            raise Hang()
        if state["i"] + 1 < len(stages):
            state["i"] += 1
            grow()
            if exit_with_last and state["i"] + 1 == len(stages):
                state["rc"] = 0  # the last write and the exit fall between two looks of the reader
        else:
            state["rc"] = 0      # the program has written everything and exits

    runner = gromacs.GromacsRunner(["gmx"], path, path, workdir)
    runner.running = Proc()
    runner.fileh = open(path, "rb")
    runner.ino = os.fstat(runner.fileh.fileno()).st_ino
    runner.stop_read = False
    runner.bytes_read = 0
    real_sleep = gromacs.sleep
    gromacs.sleep = nap
    problems = []
    got = 0
    try:
        for fr in runner.get_gromacs_frames():
            strict, _ = bounds(blobs, state["written"], term=0)
            if got >= len(frames):
                problems.append(("spurious", "TRR reader returned more frames than were written", state["written"]))
                break
            exp = frames[got]
            ok = np.array_equal(fr.get("x"), exp["x"]) and np.array_equal(fr.get("box"), exp["box"]) and \
                (exp["v"] is None or np.array_equal(fr.get("v"), exp["v"]))
            if not ok:
                problems.append(("torn", f"TRR reader returned frame {got} with values that were not written ({state['written']} bytes on disk)", state["written"]))
                break
            got += 1
            if got > strict:
                problems.append(("early", f"TRR reader returned {got} frames with only {strict} complete on disk", state["written"]))
                break
        else:
            if got != len(frames):
                problems.append(("lost", f"TRR reader returned {got} of {len(frames)} frames", len(data)))
    except Hang:
        problems.append(("hang", f"TRR reader does not make progress (cuts {cuts})", state["written"]))
    except Exception as exc:  # noqa: BLE001
        problems.append((f"raise:{type(exc).__name__}", f"TRR reader raised {type(exc).__name__}: {exc} ({state['written']} of {len(data)} bytes on disk)", state["written"]))
    finally:
        gromacs.sleep = real_sleep
        try:
            runner.fileh.close()
        except Exception:  # noqa: BLE001
            pass
        runner.running = None
    return problems


def job(args):
    kind, spec, cutlists = args
    rnd = random.Random(spec["seed"])
    work = common.tmpdir("c13-")
    out = []
    try:
        if kind == "lammpstrj":
            blobs, frames = gen_lammps(rnd, spec["nframes"], spec["natoms"], spec["fmt"], spec["shuffle"], spec.get("box_cols", 2))
        elif kind == "xyz":
            blobs, frames = gen_xyz(rnd, spec["nframes"], spec["natoms"], spec["fmt"])
        else:
            blobs, frames = gen_trr(rnd, spec["nframes"], spec["natoms"], spec["endian"], spec["double"], spec.get("with_v", True), spec.get("pattern", "uniform"))
        total = sum(len(b) for b in blobs)
        if cutlists == "all-single":
            cl = [[c] for c in range(0, total + 1)]
        elif isinstance(cutlists, tuple) and cutlists[0] == "pairs":
            r2 = random.Random(spec["seed"] + 1)
            cl = [sorted(r2.sample(range(0, total + 1), 2)) for _ in range(cutlists[1])]
        elif isinstance(cutlists, tuple) and cutlists[0] == "abstract":
            # cut sequences from Poller.tla: units -> bytes (unit U-1 of a frame = its final terminator)
            cl = []
            U = cutlists[2]
            for seq in cutlists[1]:
                cs = []
                for w in seq:
                    k, u = divmod(w, U)
                    if k >= len(blobs):
                        cs.append(total)
                        continue
                    start = sum(len(b) for b in blobs[:k])
                    L = len(blobs[k])
                    if u == 0:
                        cs.append(start)
                    elif u == U - 1:
                        cs.append(start + L - 1)
                    else:
                        cs.append(start + max(1, min(L - 2, (L - 1) * u // (U - 1) + r2_off(spec["seed"], w))))
                cl.append(sorted(set(cs)))
        else:
            cl = cutlists
        n = 0
        for cuts in cl:
            n += 1
            probs = run_trr(blobs, frames, cuts, work) if kind == "trr" else run_text(kind, blobs, frames, cuts, work)
            for sig, msg, c in probs:
                out.append((f"reader:{kind};class:{cut_class(blobs, c, text=kind != 'trr')};outcome:{sig}", msg,
                            {"kind": kind, "spec": spec, "cuts": list(cuts)}))
        return n, out, {"kind": kind, "spec": spec, "bytes": total, "frames": len(blobs)}
    finally:
        shutil.rmtree(work, ignore_errors=True)


def r2_off(seed, w):
    return (seed * 7 + w * 13) % 3 - 1


def abstract_cuts(chk, work, q):
    """Cut sequences (in units) from TLC behaviours of Poller.tla."""
    cfg = os.path.join(work, "Poller.cfg")
    with open(cfg, "w") as fh:
        fh.write("SPECIFICATION Spec\nCONSTANTS\n  F = 3\n  U = 6\n  MaxPolls = 4\n  StopAt = 4\n  MaxLen = 9\n  ExitCodes = {0}\n"
                 "INVARIANT NoTornFrame\nINVARIANT EachOnce\nCHECK_DEADLOCK FALSE\n")
    try:
        res = tlc.run_tlc("Poller", cfg, timeout=1500, allow_violation=True)
        chk.add_tlc(res, {"F": 3, "U": 6, "MaxPolls": 4})
        if not res["ok"]:
            chk.machinery(f"TLC refuted {res['violated']} on Poller.tla")
    except tlc.TLCError as exc:
        chk.machinery(str(exc)[:1000])
    # beyond the bounds of TLC: NoTornFrame (and the engine clauses StopsAtFirstOutside, ProgramStopped) as an inductive invariant
    # of Poller.tla for every number of frames, units per frame (>= 2), polls, stop position and length limit (Apalache, symbolic)
    ind = []
    for label, args in (("Init => IndInv", ["--cinit=ConstInit", "--init=Init", "--inv=IndInv", "--length=0"]),
                        ("IndInv /\\ Next => IndInv'", ["--cinit=ConstInit", "--init=IndInit", "--inv=IndInv", "--length=1"])):
        r = tlc.run_apalache("ApaPoller.tla", args, timeout=600)
        ind.append({"step": label, "outcome": r["outcome"], "wall_s": r["wall_s"]})
        if r["outcome"] == "error":
            chk.machinery(f"Apalache refuted the inductive invariant of Poller.tla ({label}):\n{r['tail']}")
    chk.cov["apalache_inductive_invariant"] = {"module": "ApaPoller.tla", "constants": "F, MaxPolls in 1..1000, U in 2..1000, StopAt, MaxLen in 1..1001 (symbolic)", "steps": ind}
    print(f"  Apalache, inductive invariant of Poller.tla for symbolic constants: {[(i['step'], i['outcome']) for i in ind]}", flush=True)
    out = os.path.join(work, "psim")
    os.makedirs(out, exist_ok=True)
    tlc.run_tlc("Poller", cfg, workers=2, simulate=f"file={out}/tr,num={60 if q else 600}", depth=30, seed=chk.seed + 5, coverage=False,
                timeout=600, allow_violation=True)
    seqs = set()
    for b in tlc.read_sim_traces(out):
        cuts = tuple(b[-1][1]["cuts"])
        if cuts:
            seqs.add(cuts)
    common.rmtree(out)
    return sorted(seqs)


def main(tier, replay=None):
    chk = common.Check(PID, tier, "model_checking")
    q = tier == "quick"
    if replay:
        with open(replay) as fh:
            rp = json.load(fh)
        c = rp["case"]
        n, out, _ = job((c["kind"], c["spec"], [c["cuts"]]))
        if out:
            print(f"VIOLATION property={PID} replay={replay}\n  {out[0][1]}")
            return 1
        print("replay: holds")
        return 0
    work = common.tmpdir("c13m-")
    try:
        seqs = abstract_cuts(chk, work, q)
        rnd = random.Random(chk.seed + 81)
        jobs = []
        fmts = ["{:.6f}", "{:.6e}", "{:.12f}", "{:.3f}"]
        for i in range(6 if q else 24):
            spec = {"seed": rnd.randrange(10 ** 6), "nframes": rnd.choice([1, 2, 3, 4]), "natoms": rnd.choice([2, 3, 5]),
                    "fmt": fmts[i % len(fmts)], "shuffle": i % 2 == 0, "box_cols": 3 if i % 3 == 0 else 2}
            jobs.append(("lammpstrj", spec, "all-single"))
            jobs.append(("lammpstrj", spec, ("pairs", 400 if q else 4000)))
            jobs.append(("lammpstrj", dict(spec, nframes=3), ("abstract", seqs, 6)))
        for i in range(5 if q else 20):
            spec = {"seed": rnd.randrange(10 ** 6), "nframes": rnd.choice([1, 2, 3]), "natoms": rnd.choice([1, 2, 4]), "fmt": ["{:.10f}", "{:.5f}", "{:.8e}"][i % 3]}
            jobs.append(("xyz", spec, "all-single"))
            jobs.append(("xyz", spec, ("pairs", 300 if q else 3000)))
            jobs.append(("xyz", dict(spec, nframes=3), ("abstract", seqs, 6)))
        for i in range(7 if q else 22):
            spec = {"seed": rnd.randrange(10 ** 6), "nframes": rnd.choice([3, 4, 6]), "natoms": rnd.choice([9, 14, 30]),
                    "endian": "<>"[i % 2], "double": (i // 2) % 2 == 1, "with_v": i % 3 != 2}
            if i % 4 == 3 or i >= 4:
                spec["pattern"] = ["f0", "v-alt", "f-last"][i % 3]
                spec["with_v"] = True
            jobs.append(("trr", spec, "all-single"))
            jobs.append(("trr", spec, ("pairs", 200 if q else 2000)))
            jobs.append(("trr", dict(spec, nframes=3), ("abstract", seqs, 6)))
        results = common.pmap(job, jobs)
        ncases = 0
        for (kind, spec, cl), (n, fails, meta) in zip(jobs, results):
            ncases += n
            chk.sample(meta, limit=6)
            for sig, msg, case in fails:
                chk.violation(sig, msg, {"property": PID, "binding": "B", "spec": "Poller", "case": case, "clause": "NoTornFrame / EachOnce / does not raise"})
        chk.evaluated(ncases)
        chk.traces(ncases)
        for i in range(ncases):
            chk.nontrivial(i)
        print(f"  cut sequences executed on the real readers: {ncases} ({len(seqs)} abstract sequences from Poller.tla)", flush=True)
    finally:
        common.rmtree(work)
    chk.assumptions += ["the external programs are impersonated at the level of the bytes they write (formats from the readers' own documentation)",
                        "for the text formats a frame counts as complete when every value byte is on disk; for TRR when every byte is"]
    return chk.finish("every byte offset of every generated trajectory as a single cut (exhaustive), sampled pairs of offsets, and cut sequences "
                      "chosen by TLC on Poller.tla; each (file, cut sequence) is a distinct case")
