"""C04 - fractional weights are conserved and accounted for exactly once."""
from harness.checks import system as S

PID = "C04"
INV = ["Accounting", "WrittenOnce", "NeverWrittenWhileLive", "RecordFracIsLive", "NotStuck", "LocksExact"]


def main(tier, replay=None):
    if replay:
        import json
        with open(replay) as fh:
            if json.load(fh).get("kind") == "crash":
                from harness.checks import c08
                return c08.replay_case(replay, pid=PID)
        return S.replay_main(PID, replay)
    sc = S.SystemCheck(PID, tier)
    q = tier == "quick"
    S.model_check(sc.chk, sc.work, "N3W2S3_frac", {"N": 3, "Workers": 2, "Steps": 3, "TrackFrac": True}, INV, [])
    S.model_check(sc.chk, sc.work, "N3W1S4_frac", {"N": 3, "Workers": 1, "Steps": 4, "TrackFrac": True, "MaxPn": 12}, INV, [])
    if not q:
        S.model_check(sc.chk, sc.work, "N3W2S3_frac_kill", {"N": 3, "Workers": 2, "Steps": 3, "TrackFrac": True, "MaxRestarts": 1, "MoreSteps": 1, "MaxPn": 10}, INV, [], timeout=3000,
                      required=("InitPick", "LoopPick", "Complete", "Finish", "Kill", "Restart"))
        S.model_check(sc.chk, sc.work, "N4W2S3_frac", {"N": 4, "Workers": 2, "Steps": 3, "TrackFrac": True, "MaxPn": 12}, INV, [], timeout=3000)
    S.sort_states(sc, "N4W2S3", {"N": 4, "Workers": 2, "Steps": 3, "MaxPn": 12})     # two idle rows to be sorted around a busy one
    S.sort_states(sc, "N4W3S3", {"N": 4, "Workers": 3, "Steps": 3, "MaxPn": 12})
    sc.replay_behaviours("N3W2S4_kill", {"N": 3, "Workers": 2, "Steps": 4, "MaxPn": 14, "MaxRestarts": 1, "MoreSteps": 2}, 120 if q else 1500, 20)
    sc.replay_behaviours("N4W3S6", {"N": 4, "Workers": 3, "Steps": 6, "MaxPn": 18}, 300 if q else 2500, 22)
    sc.replay_behaviours("N5W4S7", {"N": 5, "Workers": 4, "Steps": 7, "MaxPn": 22}, 200 if q else 2500, 26)
    specs = S.standard_random_specs(tier, sc.chk.seed + 9, [3, 4, 5] if q else [3, 4, 5, 6],
                                    lambda n: list(range(1, n)), 40 if q else 150, 32 if q else 320, restarts=True, moves_mix=True)
    specs += S.standard_random_specs(tier, sc.chk.seed + 10, [5, 6], lambda n: [n - 2, n - 1], 80 if q else 200, 32 if q else 160)
    sc.random_runs(specs)
    # the unmodified scheduler() with a real process pool and the real TurtleMD engine (8 ensembles, wire-fencing weights that are
    # not 0/1, several workers so that some paths are busy when the fractions are recorded), killed and continued
    sc.real_pool_runs(S.turtle_pool_specs(sc.chk.seed + 12, 6 if q else 40), label="real-pool")
    # "across restarts": the main process killed at every effect on the data file and the restart file, restarted, driven to the end
    from harness.checks import c08
    c08.weights_across_crashes(sc, PID, q)
    sc.chk.assumptions += ["floating-point fractional weights are read as the nearest rational with denominator <= 10^6 (checked to 1e-9); "
                           "the data file and restart.toml are parsed from their 20-digit decimal strings"]
    return sc.finish("every Complete event of every replayed behaviour / recorded run is checked for the four credit clauses, the row and "
                     "the restart-file clauses; distinct by action sequence / run parameters")
