"""Engine-class part of C07 (NoForeignRandomness); filled in with the engine harness."""


def run(sc, tier):
    return None
