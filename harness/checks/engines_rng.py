"""Engine-class part of C07: every random number drawn in-process for a move comes from the job's
streams, in every engine class: recorded modify_velocities calls, and propagations of the in-process
engines with stochastic integrators (ASE Langevin, TurtleMD LangevinInertia), validated by
TraceVelocity.tla (V_NoForeign, V_Reproducible, V_StreamAdvances)."""

import os
import shutil

import numpy as np

from harness import common, engines, sysdrv
from harness.checks import c16


def propagate_job(args):
    """Propagate with a stochastic integrator: no draw from outside the job's stream, and the trajectory is a function of
    that stream alone (whatever the state of numpy's global generator)."""
    kind, seed = args
    import importlib.util  # noqa: F401
    from infretis.classes import orderparameter as OP
    from infretis.classes.path import Path
    from infretis.classes.system import System
    work = common.tmpdir("c07p-")
    try:
        import tomli
        from infretis.classes.engines.factory import create_engine
        if kind == "ase":
            ip = os.path.join(engines.EX, "ase", "H2")
            with open(os.path.join(ip, "infretis0.toml"), "rb") as fh:
                cfg = tomli.load(fh)
            cfg["engine"]["calculator_settings"]["module"] = os.path.join(ip, "H2-calc.py")
            cfg["engine"]["input_path"] = ip
            cfg["engine"]["subcycles"] = 2
            conf = os.path.join(ip, "conf.traj")
            order = OP.Distance((0, 1), periodic=False)
        else:
            ip = os.path.join(engines.EX, "turtlemd", "double_well")
            with open(os.path.join(ip, "infretis.toml"), "rb") as fh:
                cfg = tomli.load(fh)
            conf = None
            order = OP.Position((0, 0), periodic=False)
        if kind == "turtlemd:seeded":
            # a seed among the integrator settings of the .toml must not replace the seed drawn from the job's stream: two jobs with
            # different streams, same start point.  (The program may refuse such an input: then no move is made and nothing is shared.)
            cfg["engine"]["integrator"].setdefault("settings", {})["seed"] = 70
            conf = os.path.join(work, "start.xyz")
            with open(conf, "w") as fh:
                fh.write("1\n# start\nZ -0.9 0.0 0.0 0.4 0.0 0.0\n")
            out2, refused = [], None
            for rep in range(2):
                eng = create_engine(cfg)
                exe = os.path.join(work, f"sexe{rep}")
                os.makedirs(exe)
                eng.exe_dir = exe
                eng.order_function = order
                eng.rgen = np.random.default_rng(seed + 1000 * rep)
                s = System()
                s.set_pos((conf, 0))
                s.order = [0.0]
                path = Path(maxlen=12)
                try:
                    eng.propagate(path, {"interfaces": (-1e9, 0.0, 1e9), "ens_name": "007"}, s, reverse=False)
                except TypeError as exc:
                    refused = str(exc)[:120]
                    break
                out2.append([tuple(np.round(p.order, 12)) for p in path.phasepoints])
            same = refused is None and len(out2) == 2 and out2[0] == out2[1]
            return [{"engine": "turtlemd:propagate:seed-in-settings", "masses": "-", "request_ok": True, "foreign": 0, "foreign_who": [],
                     "same_stream_same_velocities": True, "stream_advanced": True, "stream_decides": not same,
                     "detail": {"refused": refused, "identical_for_two_streams": same}}]
        trajs, counts, who = [], [], []
        st0 = st1 = None
        for rep, global_seed in enumerate((1, 2)):
            eng = create_engine(cfg)
            exe = os.path.join(work, f"exe{rep}")
            os.makedirs(exe)
            eng.exe_dir = exe
            eng.order_function = order
            eng.rgen = np.random.default_rng(seed)
            if conf is None:
                conf = os.path.join(work, "start.xyz")
                with open(conf, "w") as fh:
                    fh.write("1\n# start\nZ -0.9 0.0 0.0 0.4 0.0 0.0\n")
            s = System()
            s.set_pos((conf, 0))
            s.order = [0.0]
            path = Path(maxlen=12)
            np.random.seed(global_seed)
            st0 = str(eng.rgen.bit_generator.state)
            with sysdrv.ForeignRandomness() as fr:
                eng.propagate(path, {"interfaces": (-1e9, 0.0, 1e9), "ens_name": "007"}, s, reverse=False)
            st1 = str(eng.rgen.bit_generator.state)
            trajs.append([tuple(np.round(p.order, 12)) for p in path.phasepoints])
            counts.append(fr.count)
            who += fr.who
        return [{"engine": f"{kind}:propagate", "masses": "-", "request_ok": True, "foreign": int(max(counts)), "foreign_who": who[:4],
                 "same_stream_same_velocities": trajs[0] == trajs[1], "stream_advanced": True,
                 "detail": {"frames": len(trajs[0]), "draws_from_outside": counts, "identical_under_two_global_seeds": trajs[0] == trajs[1]}}]
    except Exception as exc:  # noqa: BLE001
        import traceback
        return [{"_error": f"{type(exc).__name__}: {exc}", "engine": f"{kind}:propagate", "call": {}, "tb": traceback.format_exc()[-1000:]}]
    finally:
        shutil.rmtree(work, ignore_errors=True)


def run(sc, tier):
    work = common.tmpdir("c07e-")
    try:
        extra = []
        for evs in common.pmap(propagate_job, [(k, sc.chk.seed + 5 + i) for i, k in enumerate(("ase", "turtlemd", "ase", "turtlemd", "turtlemd:seeded"))]):
            extra += evs
        c16.collect(sc.chk, tier, work, "C07", {"V_NoForeign", "V_Reproducible", "V_StreamAdvances", "V_StreamDecides"}, extra_events=extra)
    finally:
        common.rmtree(work)
