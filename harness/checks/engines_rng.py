"""Engine-class part of C07: every random number drawn in-process for a move comes from the job's
streams, in every engine class (recorded modify_velocities calls validated by TraceVelocity.tla)."""

from harness import common
from harness.checks import c16


def run(sc, tier):
    work = common.tmpdir("c07e-")
    try:
        c16.collect(sc.chk, tier, work, "C07", {"V_NoForeign", "V_Reproducible", "V_StreamAdvances"})
    finally:
        common.rmtree(work)
