"""C15 - path algebra: paste, reverse, copy and classification are consistent.

PathAlg.tla enumerates every small case (operation + arguments) and computes the
result the property demands; TLC checks the stated laws on those results; every
case is then executed on the real Path / paste_paths and compared frame by frame.
"""

from __future__ import annotations

import importlib.util  # noqa: F401
import os
import random
import sys

from harness import common, tlc

PID = "C15"
REPO = os.environ.get("VERIF_REPO", "/repo")
if REPO not in sys.path:
    sys.path.insert(0, REPO)

_RAW = {}


def _mk(frames, maxlen=None):
    from infretis.classes.path import Path
    from infretis.classes.system import System
    p = Path(maxlen=maxlen if maxlen is not None else 10 ** 5)
    for fr in frames:
        s = System()
        s.order = [float(fr["op"])]
        s.config = (f"/x/{fr['src']}.lat", fr["pos"])
        s.vel_rev = bool(fr["rev"])
        s.pos = [[float(fr["op"])]]
        p.phasepoints.append(s)
    return p


def _view(path):
    out = []
    for s in path.phasepoints:
        src = os.path.basename(s.config[0]).split(".")[0]
        out.append({"src": src, "pos": int(s.config[1]), "op": int(round(float(s.order[0]))) if abs(float(s.order[0])) < 500 else float(s.order[0]),
                    "rev": bool(s.vel_rev)})
    return out


def _same(got, exp):
    if len(got) != len(exp):
        return f"length {len(got)}, specification {len(exp)}"
    for k, (g, e) in enumerate(zip(got, exp)):
        for key in ("src", "pos", "op", "rev"):
            if g[key] != e[key]:
                return f"frame {k}: {key} = {g[key]!r}, specification {e[key]!r}"
    return None


class VelOrder:
    """velocity-dependent order function: value + 1000 when the frame is velocity-reversed"""
    velocity_dependent = True

    def calculate(self, system):
        return [float(system.pos[0][0]) + (1000.0 if system.vel_rev else 0.0)]


def eval_case(st):
    from infretis.classes.path import paste_paths
    kind = st["kind"]
    a, b, res = st["a"], st["b"], st["res"]
    fails = []
    rnd = random.Random(len(a) * 131 + len(b) * 7 + st["lim"])
    if kind == "paste":
        pb, pf = _mk(a, maxlen=rnd.choice([3, 50])), _mk(b, maxlen=rnd.choice([3, 50]))
        pb.time_origin = rnd.randrange(-5, 20)
        before = (_view(pb), _view(pf))
        out = paste_paths(pb, pf, overlap=bool(st["flag"]), maxlen=st["lim"])
        msg = _same(_view(out), res["out"])
        if msg:
            fails.append(("paste", msg))
        if out.time_origin != pb.time_origin - len(a) + 1:
            fails.append(("paste:time_origin", f"time_origin {out.time_origin}, expected {pb.time_origin - len(a) + 1}"))
        if out.maxlen != st["lim"]:
            fails.append(("paste:maxlen", f"maxlen of the result {out.maxlen}, requested {st['lim']}"))
        if (_view(pb), _view(pf)) != before:
            fails.append(("paste:inputs", "paste_paths changed one of its arguments"))
        # without an explicit limit the larger limit of the two segments counts, and the other one when a segment has none
        # ("In case one is None, the other will be picked"): same result as with that limit given explicitly
        for who in ("back", "forw"):
            qb, qf = _mk(a, maxlen=st["lim"]), _mk(b, maxlen=st["lim"])
            (qb if who == "back" else qf).maxlen = None
            try:
                out2 = paste_paths(qb, qf, overlap=bool(st["flag"]))
            except Exception as exc:  # noqa: BLE001
                fails.append((f"paste:segment-without-limit:raise:{type(exc).__name__}", f"paste_paths raised {type(exc).__name__} ({exc}) when the {who}ward segment has no "
                                                                                       f"length limit and the other has {st['lim']}"))
                continue
            msg = _same(_view(out2), res["out"])
            if msg:
                fails.append(("paste:segment-without-limit", msg))
    elif kind == "reverse":
        p = _mk(a)
        before = _view(p)
        r = p.reverse(None)
        msg = _same(_view(r), res["out"])
        if msg:
            fails.append(("reverse", msg))
        if _view(p) != before:
            fails.append(("reverse:inplace", "reverse() changed the original path"))
        rr = r.reverse(None)
        msg = _same(_view(rr), res["twice"])
        if msg:
            fails.append(("reverse:twice", "reversing twice: " + msg))
        # velocity-dependent order: recomputed with the flipped flag
        rv = p.reverse(VelOrder())
        for k, s in enumerate(rv.phasepoints):
            e = res["out"][k]
            exp = e["op"] + (1000.0 if e["rev"] else 0.0)
            if abs(float(s.order[0]) - exp) > 1e-9:
                fails.append(("reverse:order", f"frame {k}: velocity-dependent order {s.order[0]} after reversal, expected {exp}"))
                break
        if _view(p) != before:
            fails.append(("reverse:inplace", "reverse(order_function) changed the original path"))
        nr = p.reverse(None, rev_v=False)
        if [f["rev"] for f in _view(nr)] != [f["rev"] for f in reversed(before)]:
            fails.append(("reverse:rev_v", "reverse(rev_v=False) altered velocity flags"))
        # copy: equal frames, independent fields
        c = p.copy()
        if _view(c) != before:
            fails.append(("copy", "copy() differs from the original"))
        for s in c.phasepoints:
            s.order = [99.0]
            s.vel_rev = not s.vel_rev
            s.config = ("/x/zz.lat", 77)
        c.phasepoints.append(c.phasepoints[0] if c.phasepoints else None)
        if _view(p) != before:
            fails.append(("copy:aliasing", "re-assigning a field of a copied path's frame changed the original"))
    elif kind == "iadd":
        p, q = _mk(a, maxlen=st["lim"]), _mk(b)
        qb = _view(q)
        p += q
        msg = _same(_view(p), res["out"])
        if msg:
            fails.append(("iadd", msg))
        for s in p.phasepoints[len(a):]:
            s.order = [55.0]
        if _view(q) != qb:
            fails.append(("iadd:aliasing", "frames appended with += alias the source path's frames"))
        full = _mk(a, maxlen=len(a))
        if a and full.append(full.phasepoints[0]):
            fails.append(("append:limit", "append() accepted a frame beyond maxlen"))
    elif kind == "classify":
        p = _mk(a)
        intf = [float(x) for x in st["intf"]]
        start, end, middle, cross = p.check_interfaces(intf)
        exp = res
        if start != exp["start"]:
            fails.append(("classify:start", f"start {start!r}, specification {exp['start']!r} for {[f['op'] for f in a]} and {intf}"))
        if (end if end is not None else "None") != exp["end"]:
            fails.append(("classify:end", f"end {end!r}, specification {exp['end']!r} for {[f['op'] for f in a]} and {intf}"))
        if [bool(x) for x in cross] != [bool(x) for x in exp["cross"]]:
            fails.append(("classify:cross", f"cross {list(cross)}, specification {exp['cross']}"))
        if middle != exp["middle"]:
            fails.append(("classify:middle", f"middle {middle!r}, specification {exp['middle']!r}"))
        if p.get_start_point(intf[0], intf[2]) != exp["start"] or (p.get_end_point(intf[0], intf[2]) or "None") != exp["end"]:
            fails.append(("classify:points", f"get_start_point/get_end_point disagree with the specification for {[f['op'] for f in a]} and {intf}"))
        if int(p.ordermin[0]) != exp["min"] or int(p.ordermax[0]) != exp["max"]:
            fails.append(("classify:extremes", "ordermin/ordermax wrong"))
        # one-argument form: right defaults to left
        one = p.get_end_point(intf[0])
        e1 = "L" if a[-1]["op"] <= intf[0] else "R"
        if one != e1:
            fails.append(("classify:points1", f"get_end_point({intf[0]}) = {one!r}, expected {e1!r}"))
    return fails


def _job(chunk):
    out, n = [], 0
    sample = None
    for sid in chunk:
        st = tlc.parse_state(_RAW[sid])
        if not st["done"]:
            continue
        n += 1
        try:
            fails = eval_case(st)
        except Exception as exc:  # noqa: BLE001
            fails = [(f"raise:{type(exc).__name__}", f"{st['kind']}: the real code raised {type(exc).__name__}: {exc}")]
        if sample is None:
            sample = {k: st[k] for k in ("kind", "a", "b", "flag", "lim", "intf", "res")}
        for sig, msg in fails:
            out.append((sig, msg, {k: st[k] for k in ("kind", "a", "b", "flag", "lim", "intf", "res")}))
    return n, out, sample


def main(tier, replay=None):
    global _RAW
    chk = common.Check(PID, tier, "model_checking")
    if replay:
        import json
        with open(replay) as fh:
            rp = json.load(fh)
        fails = eval_case(rp["case"])
        if fails:
            print(f"VIOLATION property={PID} replay={replay}\n  {fails[:3]}")
            return 1
        print("replay: holds")
        return 0
    q = tier == "quick"
    work = common.tmpdir("c15-")
    runs = [("paste", 3 if q else 4, "0..1"), ("reverse", 3 if q else 4, "0..1"), ("iadd", 2, "0..1"),
            ("classify", 3 if q else 4, "(-2)..1" if q else "(-2)..2")]
    try:
        for fam, maxlen, ops in runs:
            cfg = os.path.join(work, f"PathAlg_{fam}.cfg")
            with open(cfg, "w") as fh:
                fh.write(f"SPECIFICATION Spec\nCONSTANTS\n  MaxLen = {maxlen}\n  Ops <- OpsDef\n  Cases <- CasesDef\n"
                         "INVARIANT PasteLength\nINVARIANT PasteOrdered\nINVARIANT ReverseTwice\nINVARIANT ClassifyAgrees\nCHECK_DEADLOCK FALSE\n")
            mc = os.path.join(work, f"MC_PathAlg_{fam}.tla")
            with open(mc, "w") as fh:
                fh.write(f"---- MODULE MC_PathAlg_{fam} ----\nEXTENDS PathAlg\nOpsDef == {ops}\nCasesDef == {{\"{fam}\"}}\n====\n")
            for dep in ("PathAlg.tla",):
                if not os.path.exists(os.path.join(work, dep)):
                    os.symlink(os.path.join(tlc.SPEC_DIR, dep), os.path.join(work, dep))
            dot = os.path.join(work, f"{fam}.dot")
            try:
                res = tlc.run_tlc(mc, cfg, dump=dot, timeout=3000, allow_violation=True, cwd=work)
            except tlc.TLCError as exc:
                chk.machinery(str(exc)[:1500])
                continue
            chk.add_tlc(res, {"family": fam, "MaxLen": maxlen, "Ops": ops})
            if not res["ok"]:
                chk.machinery(f"TLC refuted {res['violated']} on PathAlg ({fam})")
                continue
            _RAW, _init, _edges = tlc.read_dot(dot, parse=False)
            os.remove(dot)
            ids = sorted(_RAW)
            results = common.pmap(_job, common.chunks(ids, 64))
            ncases = 0
            for n, fails, sample in results:
                ncases += n
                if sample:
                    chk.sample(sample, limit=4)
                for sig, msg, case in fails:
                    chk.violation(f"{sig}", msg, {"property": PID, "binding": "B", "spec": "PathAlg", "case": case, "clause": sig})
            chk.evaluated(ncases)
            chk.traces(ncases)
            for i in range(ncases):
                chk.nontrivial((fam, i))
            print(f"  PathAlg/{fam}: {res['distinct']} states, {ncases} cases executed on the real code ({res['wall_s']} s TLC)", flush=True)
    finally:
        common.rmtree(work)
    chk.cov["exhaustive"] = True
    chk.assumptions += ["frames are identified by their configuration reference; order values are small integers"]
    return chk.finish("every case enumerated by PathAlg.tla (all small argument paths, limits, overlap flags, interface triples) is a "
                      "distinct input; all are non-trivial (each has its own expected result computed by the specification)")
