"""C05 - the sampler never stalls: a job can always be drawn, sorting terminates."""
from harness.checks import system as S

PID = "C05"
INV = ["Distinct", "MinusAtZero", "CanDraw", "CanReissue", "NotStuck", "FreshNumbers", "RestartLoads", "NoLostJob",
       "LocksExact", "PickedNonZero"]
PROPS = ["IdleSorted", "NumbersNeverReused"]


def main(tier, replay=None):
    if replay:
        return S.replay_main(PID, replay)
    sc = S.SystemCheck(PID, tier)
    q = tier == "quick"
    S.model_check(sc.chk, sc.work, "N3W2S3_vary", {"N": 3, "Workers": 2, "Steps": 3, "VaryInit": True}, INV, PROPS)
    S.model_check(sc.chk, sc.work, "N3W2S3_kill", {"N": 3, "Workers": 2, "Steps": 3, "MaxRestarts": 1, "MoreSteps": 1, "MaxPn": 11}, INV, PROPS,
                  required=("InitPick", "LoopPick", "Complete", "Finish", "Kill", "Restart"))
    S.model_check(sc.chk, sc.work, "N4W2S3", {"N": 4, "Workers": 2, "Steps": 3, "MaxPn": 12}, INV, PROPS)
    if not q:
        # (N4W3S4 from every initial arrangement does not finish in 50 minutes)
        S.model_check(sc.chk, sc.work, "N4W2S3_vary", {"N": 4, "Workers": 2, "Steps": 3, "MaxPn": 12, "VaryInit": True}, INV, PROPS, timeout=3400)
        S.model_check(sc.chk, sc.work, "N4W3S3_vary", {"N": 4, "Workers": 3, "Steps": 3, "MaxPn": 12, "VaryInit": True}, INV, PROPS, timeout=3400,
                      required=("InitPick", "Complete", "Finish"))       # three steps on three workers: no job is drawn in the loop
        S.model_check(sc.chk, sc.work, "N5W4S3", {"N": 5, "Workers": 4, "Steps": 3, "MaxPn": 14}, INV, PROPS, timeout=3000, required=("InitPick", "Complete", "Finish"))
        S.model_check(sc.chk, sc.work, "N4W2S3_w12", {"N": 4, "Workers": 2, "Steps": 3, "MaxPn": 12, "WSet": "W12"}, INV, PROPS, timeout=3000)
    # liveness: with fair picks and completions the run ends, from every initial arrangement
    S.liveness_check(sc.chk, sc.work, "N3W2S3_vary", {"N": 3, "Workers": 2, "Steps": 3, "VaryInit": True})
    S.liveness_check(sc.chk, sc.work, "N3W1S4", {"N": 3, "Workers": 1, "Steps": 4, "MaxPn": 12})
    if not q:
        S.liveness_check(sc.chk, sc.work, "N4W2S3", {"N": 4, "Workers": 2, "Steps": 3, "MaxPn": 12}, timeout=3000)
        S.liveness_check(sc.chk, sc.work, "N4W3S3", {"N": 4, "Workers": 3, "Steps": 3, "MaxPn": 12}, timeout=3000)
    S.sort_states(sc, "N4W2S3", {"N": 4, "Workers": 2, "Steps": 3, "MaxPn": 12})
    S.sort_states(sc, "N4W3S3", {"N": 4, "Workers": 3, "Steps": 3, "MaxPn": 12})
    S.sort_cases(sc, 4, 2)
    S.sort_cases(sc, 5, 2)       # five ensembles: the smallest size at which a displaced path and a heavier competitor coexist
    if not q:
        S.sort_cases(sc, 5, 3, timeout=3000)
    if not q:
        S.sort_states(sc, "N4W3S4", {"N": 4, "Workers": 3, "Steps": 4, "MaxPn": 14}, timeout=3000)
        S.sort_states(sc, "N5W3S3", {"N": 5, "Workers": 3, "Steps": 3, "MaxPn": 14}, timeout=3000)
    sc.replay_behaviours("N3W2S4_kill", {"N": 3, "Workers": 2, "Steps": 4, "MaxPn": 14, "MaxRestarts": 2, "MoreSteps": 2}, 120 if q else 1500, 22)
    sc.replay_behaviours("N4W3S5", {"N": 4, "Workers": 3, "Steps": 5, "MaxPn": 16}, 120 if q else 1500, 20)
    if not q:
        sc.replay_behaviours("N5W4S6_kill", {"N": 5, "Workers": 4, "Steps": 6, "MaxPn": 24, "MaxRestarts": 2, "MoreSteps": 3}, 1500, 30)
    specs = S.standard_random_specs(tier, sc.chk.seed + 5, [3, 4, 5, 6] if q else [3, 4, 5, 6, 7, 8],
                                    lambda n: list(range(1, n)), 40 if q else 200, 32 if q else 320, restarts=True, moves_mix=True)
    sc.random_runs(specs)
    sc.chk.assumptions += ["termination of sort_trajstate is observed (a run that does not return is a harness time-out), not proved for all N"]
    return sc.finish("behaviours of Infretis.tla (with kills and restarts) replayed on the real code, plus recorded real runs with sh and wf "
                     "moves; distinct by action sequence / run parameters")
