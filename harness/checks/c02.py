"""C02 - swap probabilities equal the exact permanent ratios.

TLC explores Perm.tla (states = reachable (W, locks), each carrying the exact
numerators/denominator of P; transitions = lock / unlock / swap / re-weight),
checks the Layer R consequences and Layer I (quick_prob, find_blocks) on every
state, and dumps the graph.  Every state is then loaded into a real REPEX_state
and `inf_retis`, the `prob` property, `quick_prob`, `permanent_prob`,
`fast_glynn_perm` and `find_blocks` are compared with the dump; every
lock/unlock/swap edge is replayed through the real methods (cache invalidation).
"""

from __future__ import annotations

import itertools
import os
import random
import re
import sys
from fractions import Fraction

import numpy as np

from harness import common, tlc
from harness.repex_util import locks_vec, new_state, with_ghost

TOL = 1e-10
PID = "C02"

_RAW = {}      # node id -> raw label text (inherited by forked workers)
_N = 0


def _mat(fn, n):
    return [[fn[i][j] for j in range(n)] for i in range(n)]


def _state(sid):
    st = tlc.parse_state(_RAW[sid])
    n = _N
    return {"W": _mat(st["W"], n), "L": sorted(st["L"]), "num": _mat(st["num"], n), "den": st["den"]}


def _perm(mat):
    """Independent exact permanent (fractions) by expansion, for the path-level oracles."""
    n = len(mat)
    if n == 0:
        return Fraction(1)
    tot = Fraction(0)
    for p in itertools.permutations(range(n)):
        prod = Fraction(1)
        for i, j in enumerate(p):
            if mat[i][j] == 0:
                prod = 0
                break
            prod *= mat[i][j]
        tot += prod
    return tot


def _check_P(real, s, what, perm=None):
    """Compare a real (N+1)x(N+1) probability matrix with the state's num/den."""
    n = _N
    den = s["den"]
    real = np.asarray(real, dtype=np.longdouble)
    if real.shape != (n + 1, n + 1):
        return f"{what}: shape {real.shape}"
    if np.any(real[n, :] != 0) or np.any(real[:, n] != 0):
        return f"{what}: ghost row/column not zero"
    for i in range(n):
        src = perm[i] if perm else i
        for j in range(n):
            exp = s["num"][src][j] / den
            got = float(real[i][j])
            if not np.isfinite(got) or abs(got - exp) > TOL:
                return f"{what}: P[{i}][{j}] = {got!r}, exact {s['num'][src][j]}/{den}"
    return None


def _eval_states(chunk):
    """Worker: evaluate a chunk of states on the real code.  Returns (n, nontrivial keys, failures, sample)."""
    rnd = random.Random(common.seed() * 7919 + (chunk[0] if chunk else 0))
    n = _N
    st = new_state(n)
    fails, keys, sample = [], [], None
    count = 0
    for sid in chunk:
        s = _state(sid)
        W, L = s["W"], s["L"]
        idle = [e for e in range(n) if e not in L]
        count += 1
        nontriv = len({s["num"][i][j] for i in idle for j in idle} - {0, s["den"]}) > 0
        if nontriv:
            keys.append(repr((W, L)))
        case = {"W": W, "locked": L, "den": s["den"], "num": s["num"]}
        if sample is None and nontriv:
            sample = case

        def fail(msg, extra=None):
            c = dict(case)
            c["failure"] = msg
            if extra:
                c.update(extra)
            fails.append(c)

        if not idle:
            continue  # nothing idle: the sampler never asks for P (every worker is busy)
        # 1. the pipeline as the sampler calls it
        mat = with_ghost(W)
        lk = locks_vec(n, L)
        try:
            out = st.inf_retis(abs(mat.copy()), lk.copy())
            msg = _check_P(out, s, "inf_retis")
        except Exception as exc:  # noqa: BLE001
            msg = f"inf_retis raised {type(exc).__name__}: {exc}"
        if msg:
            fail(msg, {"entry": "inf_retis"})
            continue
        # 2. the cached property
        st.state = mat.copy()
        st._locks = lk.copy()
        st._last_prob = None
        try:
            msg = _check_P(st.prob, s, "prob")
        except Exception as exc:  # noqa: BLE001
            msg = f"prob raised {type(exc).__name__}: {exc}"
        if msg:
            fail(msg, {"entry": "prob"})
            continue
        # 3. any ordering of the live paths: permute the idle plus rows
        plus_idle = [e for e in idle if e != 0]
        if len(plus_idle) >= 2:
            for _ in range(2):
                shuf = plus_idle[:]
                rnd.shuffle(shuf)
                perm = list(range(n))
                for a, b in zip(plus_idle, shuf):
                    perm[a] = b
                Wp = [W[perm[i]] for i in range(n)]
                try:
                    out = st.inf_retis(abs(with_ghost(Wp)), lk.copy())
                    msg = _check_P(out, s, "inf_retis(row-permuted)", perm)
                except Exception as exc:  # noqa: BLE001
                    msg = f"inf_retis(row-permuted) raised {type(exc).__name__}: {exc}"
                if msg:
                    fail(msg, {"entry": "inf_retis", "row_perm": perm})
                    break
        # 4. rescaling one path's weights by a non-integer factor
        if plus_idle:
            r = rnd.choice(plus_idle)
            fac = rnd.choice([0.37, 2.5, 11.0, 1e-3, 123.456])
            Ws = [list(map(float, row)) for row in W]
            Ws[r] = [x * fac for x in Ws[r]]
            try:
                out = st.inf_retis(abs(with_ghost(Ws)), lk.copy())
                msg = _check_P(out, s, f"inf_retis(row {r} x {fac})")
            except Exception as exc:  # noqa: BLE001
                msg = f"inf_retis(scaled) raised {type(exc).__name__}: {exc}"
            if msg:
                fail(msg, {"entry": "inf_retis", "scaled_row": r, "factor": fac})
        # 5. code paths one by one, on the idle plus block sorted the way inf_retis sorts it
        rows = sorted(plus_idle, key=lambda i: max([j for j in plus_idle if W[i][j] > 0], default=0))
        blk = np.array([[float(W[i][j]) for j in plus_idle] for i in rows])
        if len(rows) >= 1:
            exact = [[Fraction(s["num"][i][j], s["den"]) for j in plus_idle] for i in rows]
            try:
                pp = st.permanent_prob(blk.copy()) if len(rows) >= 2 else None
            except Exception as exc:  # noqa: BLE001
                fail(f"permanent_prob raised {type(exc).__name__}: {exc}", {"entry": "permanent_prob"})
                pp = None
            if pp is not None:
                for a in range(len(rows)):
                    for b in range(len(rows)):
                        if abs(float(pp[a][b]) - float(exact[a][b])) > TOL:
                            fail(f"permanent_prob[{a}][{b}] = {float(pp[a][b])!r}, exact {exact[a][b]}",
                                 {"entry": "permanent_prob", "block": blk.tolist()})
                            break
                    else:
                        continue
                    break
            rowconst = all(len({x for x in row if x != 0}) <= 1 for row in blk.tolist())
            if rowconst:
                try:
                    qp = st.quick_prob(blk.copy())
                    bad = [(a, b) for a in range(len(rows)) for b in range(len(rows))
                           if abs(float(qp[a][b]) - float(exact[a][b])) > TOL]
                    if bad:
                        a, b = bad[0]
                        fail(f"quick_prob[{a}][{b}] = {float(qp[a][b])!r}, exact {exact[a][b]}",
                             {"entry": "quick_prob", "block": blk.tolist()})
                except Exception as exc:  # noqa: BLE001
                    fail(f"quick_prob raised {type(exc).__name__}: {exc}", {"entry": "quick_prob"})
            # Glynn permanent of a minor against the exact permanent
            if len(rows) >= 2:
                a, b = rnd.randrange(len(rows)), rnd.randrange(len(rows))
                minor = np.delete(np.delete(blk, a, axis=0), b, axis=1)
                try:
                    g = float(st.fast_glynn_perm(minor))
                    e = float(_perm(minor.tolist()))
                    if abs(g - e) > 1e-9 * max(1.0, abs(e)):
                        fail(f"fast_glynn_perm = {g!r}, exact {e}", {"entry": "fast_glynn_perm", "minor": minor.tolist()})
                except Exception as exc:  # noqa: BLE001
                    fail(f"fast_glynn_perm raised {type(exc).__name__}: {exc}", {"entry": "fast_glynn_perm"})
            # find_blocks: the blocks must tile the sorted matrix and be closed (no weight outside)
            if len(rows) >= 2:
                full_rows = ([0] if 0 in idle else []) + rows
                full_cols = ([0] if 0 in idle else []) + plus_idle
                full = np.array([[float(W[i][j]) for j in full_cols] for i in full_rows])
                off = 1 if 0 in idle else 0
                try:
                    blocks = st.find_blocks(full.copy(), offset=off)
                    pos = 0
                    okb = True
                    for (b0, b1, _d) in blocks:
                        if b0 != pos or b1 <= b0:
                            okb = False
                        pos = b1
                        for i in range(b0, b1):
                            for j in range(len(full)):
                                if not (b0 <= j < b1) and exact_full(s, full_rows[i], full_cols[j]) != 0:
                                    okb = False
                    if pos != len(full):
                        okb = False
                    if not okb:
                        fail(f"find_blocks returned {blocks} which do not tile the support of P",
                             {"entry": "find_blocks", "matrix": full.tolist()})
                except Exception as exc:  # noqa: BLE001
                    fail(f"find_blocks raised {type(exc).__name__}: {exc}", {"entry": "find_blocks"})
    return count, keys, fails, sample


def _stair_perm(reaches):
    """Exact permanent of the 0/1 staircase whose row i has ones in columns 1..reaches[i]."""
    out = Fraction(1)
    for k, r in enumerate(sorted(reaches)):
        if r - k <= 0:
            return Fraction(0)
        out *= r - k
    return out


def block_boundary_cases(chk, sizes=(11, 12)):
    """The largest blocks the exact routine has to take (inf_retis hands blocks of up to 12 paths to permanent_prob, larger ones to the
    Monte Carlo estimate): W = diag(r) S diag(c) with S a staircase that forms one block.  P is invariant under row and column scalings
    (numerator and permanent pick up the same factor), and both the permanent and every minor of a staircase are staircases, so the
    exact P is a product formula - no enumeration of 12! permutations needed.  The result must equal it to 1e-9 and the state's random
    generator must not be touched."""
    import copy
    from harness.repex_util import new_state
    for m in sizes:
        n = m + 1
        reaches = [min(m, i + 1) for i in range(1, m + 1)]          # 2, 3, ..., m, m: one block, no row forced
        den = _stair_perm(reaches)
        rsc = [1.0 + (i % 3) * 0.5 for i in range(m)]
        csc = [1.0 + ((2 * j) % 5) * 0.25 for j in range(m)]
        W = [[0.0] * n for _ in range(n)]
        W[0][0] = 1.0
        exp = [[Fraction(0)] * n for _ in range(n)]
        exp[0][0] = Fraction(1)
        for a in range(m):
            for b in range(m):
                if b + 1 <= reaches[a]:
                    W[a + 1][b + 1] = rsc[a] * csc[b]
                    minor = [reaches[k] - (1 if b + 1 <= reaches[k] else 0) for k in range(m) if k != a]
                    exp[a + 1][b + 1] = _stair_perm(minor) / den
        st = new_state(n, workers=1)
        st.rgen = np.random.default_rng(chk.seed + 5)
        before = copy.deepcopy(st.rgen.bit_generator.state)
        case = {"entry": "inf_retis", "block": m, "reaches": reaches}
        try:
            out = st.inf_retis(abs(with_ghost(W)), locks_vec(n, []))
        except Exception as exc:  # noqa: BLE001
            chk.violation(f"entry:inf_retis:block{m}", f"inf_retis raised {type(exc).__name__} on a single block of {m} paths: {exc}",
                          {"property": PID, "binding": "B", "spec": "Perm", "kind": "block-boundary", "case": case, "clause": "P is exact for blocks of up to 12 paths"})
            continue
        err = max(abs(float(out[i][j]) - float(exp[i][j])) for i in range(n) for j in range(n))
        if err > 1e-9:
            chk.violation(f"entry:inf_retis:block{m}", f"a block of {m} idle paths with wire-fencing weights: P differs from the exact permanent ratios by {err:.3e}",
                          {"property": PID, "binding": "B", "spec": "Perm", "kind": "block-boundary", "case": case, "clause": "P is exact for blocks of up to 12 paths"})
        if st.rgen.bit_generator.state != before:
            chk.violation(f"entry:inf_retis:block{m}:draws", f"computing P for a block of {m} paths consumed random numbers (the Monte Carlo estimate was used)",
                          {"property": PID, "binding": "B", "spec": "Perm", "kind": "block-boundary", "case": case, "clause": "P is exact for blocks of up to 12 paths"})
        chk.evaluated(1)
        chk.nontrivial(("block", m))
    print(f"  block boundary: single blocks of {list(sizes)} paths with scaled staircase weights against the product formula", flush=True)


def exact_full(s, i, j):
    return s["num"][i][j]


def _eval_edges(chunk):
    """Worker: replay lock/unlock/swap edges through the real methods."""
    n = _N
    st = new_state(n)
    fails = []
    count = 0
    for (src, dst, label) in chunk:
        name, args = tlc.label_parts(label)
        if name not in ("Lock", "Unlock", "SwapRows"):
            continue
        a, b = _state(src), _state(dst)
        st.state = with_ghost(a["W"])
        st._locks = locks_vec(n, a["L"])
        st._last_prob = None
        try:
            if len(a["L"]) < n:
                _ = st.prob  # fill the cache in the source state
            if name == "Lock":
                st.lock(args[0])
            elif name == "Unlock":
                st.unlock(args[0])
            else:
                # swap() leaves cache invalidation to its callers (pick -> lock, sort_trajstate)
                st.swap(args[0], args[1])
                st._last_prob = None
            msg = _check_P(st.prob, b, f"prob after {label}") if len(b["L"]) < n else None
            if msg is None:
                got_w = st.state[:n, :n].tolist()
                if got_w != [list(map(float, r)) for r in b["W"]]:
                    msg = f"state matrix after {label} differs from the specification"
                elif sorted(int(e) for e in range(n) if st._locks[e] == 1) != b["L"]:
                    msg = f"locks after {label} differ from the specification"
        except Exception as exc:  # noqa: BLE001
            msg = f"{label} raised {type(exc).__name__}: {exc}"
        count += 1
        if msg:
            fails.append({"from": {"W": a["W"], "locked": a["L"]}, "action": label,
                          "expect": {"W": b["W"], "locked": b["L"], "num": b["num"], "den": b["den"]},
                          "failure": msg, "entry": name})
    return count, fails


CONFIGS = {
    # name: (constants, tiers)
    "01_N3": ({"N": 3, "MaxW": 1, "AllowSwap": True, "AllowSetW": False, "AllowScale": False}, ("quick", "thorough")),
    "01_N4": ({"N": 4, "MaxW": 1, "AllowSwap": True, "AllowSetW": False, "AllowScale": False}, ("quick", "thorough")),
    "01_N5": ({"N": 5, "MaxW": 1, "AllowSwap": True, "AllowSetW": False, "AllowScale": False}, ("quick", "thorough")),
    "01_N6": ({"N": 6, "MaxW": 1, "AllowSwap": False, "AllowSetW": False, "AllowScale": False}, ("quick", "thorough")),
    "01_N6s": ({"N": 6, "MaxW": 1, "AllowSwap": True, "AllowSetW": False, "AllowScale": False}, ("thorough",)),
    "01_N7": ({"N": 7, "MaxW": 1, "AllowSwap": False, "AllowSetW": False, "AllowScale": False}, ("thorough",)),
    "w2_N4": ({"N": 4, "MaxW": 2, "AllowSwap": False, "AllowSetW": True, "AllowScale": True}, ("quick", "thorough")),
    "w3_N4": ({"N": 4, "MaxW": 3, "AllowSwap": False, "AllowSetW": True, "AllowScale": True}, ("thorough",)),
    # (N = 5 with every cell weighted independently does not finish in an hour; the rows of a five-ensemble staircase are scaled as a whole instead)
    "sc_N5": ({"N": 5, "MaxW": 3, "AllowSwap": False, "AllowSetW": False, "AllowScale": True}, ("thorough",)),
    "sc_N4": ({"N": 4, "MaxW": 4, "AllowSwap": True, "AllowSetW": False, "AllowScale": True}, ("quick", "thorough")),
}

INVARIANTS = ["TypeOK", "InFamily", "CanDraw", "RowSums", "ColSums", "ZeroWhereZero", "BusyZero", "Bounded",
              "MinusBlock", "QuickIsExact", "BlocksAreClosed", "BlockwiseIsExact"]


def write_cfg(path, consts):
    with open(path, "w") as fh:
        fh.write("SPECIFICATION Spec\nCONSTANTS\n")
        for k, v in consts.items():
            fh.write(f"  {k} = {'TRUE' if v is True else 'FALSE' if v is False else v}\n")
        for inv in INVARIANTS:
            fh.write(f"INVARIANT {inv}\n")
        fh.write("PROPERTY SwapEquivariant\nPROPERTY ScaleInvariant\nCHECK_DEADLOCK FALSE\n")


def load_graph(dot):
    """Raw node labels and edges of a dot dump (labels parsed lazily by the workers)."""
    raw, _init, edges = tlc.read_dot(dot, parse=False)
    return raw, edges


def main(tier, replay=None):
    global _RAW, _N
    if replay:
        import json
        with open(replay) as fh:
            if "behaviour" in fh.read(200000) or True:
                fh.seek(0)
                rp = json.load(fh)
        if "case" in rp or "edge" in rp:
            return replay_file(replay)
        from harness.checks import system as S
        return S.replay_main(PID, replay)
    from harness.checks import system as S
    sc = S.SystemCheck(PID, tier)
    chk = sc.chk
    work = common.tmpdir("c02-")
    try:
        for name, (consts, tiers) in CONFIGS.items():
            if tier not in tiers:
                continue
            cfg = os.path.join(work, f"Perm_{name}.cfg")
            write_cfg(cfg, consts)
            dot = os.path.join(work, f"{name}.dot")
            try:
                res = tlc.run_tlc("Perm", cfg, dump=dot, timeout=3000, allow_violation=True)
            except tlc.TLCError as exc:
                chk.machinery(str(exc)[:2000])
                continue
            chk.add_tlc(res, consts)
            if not res["ok"]:
                # The specification itself refuted a Layer I = Layer R clause: a lead about the
                # model, never a verdict about the code.  Machinery failure.
                chk.machinery(f"TLC refuted {res['violated']} on Perm/{name}: the model needs attention")
                continue
            need = ["Lock", "Unlock"] + (["SwapRows"] if consts["AllowSwap"] else []) + \
                   (["SetW"] if consts["AllowSetW"] else []) + (["ScaleRow"] if consts["AllowScale"] else [])
            vac = tlc.vacuity(res, need)
            if vac:
                chk.machinery(f"vacuous run Perm/{name}: actions never taken: {vac}")
            _RAW, edges = load_graph(dot)
            os.remove(dot)
            _N = consts["N"]
            ids = sorted(_RAW)
            results = common.pmap(_eval_states, common.chunks(ids, 64))
            for count, keys, fails, sample in results:
                chk.evaluated(count)
                for k in keys:
                    chk.nontrivial((name, k))
                if sample:
                    chk.sample({"config": name, **sample}, limit=5)
                for f in fails:
                    chk.violation(f"entry:{f.get('entry')}", f["failure"],
                                  {"property": PID, "binding": "B", "spec": "Perm", "constants": consts,
                                   "case": f, "clause": "P = W_ij perm(minor_ij)/perm(W) on the idle block"})
            e_sel = [e for e in edges if e[2].split("(")[0] in ("Lock", "Unlock", "SwapRows")]
            if tier == "quick" and len(e_sel) > 40000:
                rnd = random.Random(common.seed())
                e_sel = rnd.sample(e_sel, 40000)
            results = common.pmap(_eval_edges, common.chunks(e_sel, 64))
            ne = 0
            for count, fails in results:
                ne += count
                for f in fails:
                    chk.violation(f"entry:{f.get('entry')}", f["failure"],
                                  {"property": PID, "binding": "B", "spec": "Perm", "constants": consts,
                                   "edge": f, "clause": "P after the operation equals the specification's P"})
            chk.evaluated(ne)
            chk.traces(ne)
            print(f"  Perm/{name}: {res['distinct']} states, {res['states']} transitions generated, "
                  f"{len(ids)} states and {ne} edges replayed on the real code ({res['wall_s']} s TLC)", flush=True)
    finally:
        common.rmtree(work)
    block_boundary_cases(chk)
    # system-level binding: the P the sampler actually draws from and credits, in recorded executions
    # (catches a stale cached P, which no direct call of inf_retis can show)
    q = tier == "quick"
    sc.replay_behaviours("N4W3S5", {"N": 4, "Workers": 3, "Steps": 5, "MaxPn": 16}, 100 if q else 1500, 20)
    sc.random_runs(S.standard_random_specs(tier, chk.seed + 2, [4, 5, 6] if q else [4, 5, 6, 7], lambda n: list(range(1, n)),
                                           40 if q else 200, 32 if q else 320, restarts=False, moves_mix=True))
    chk.cov["exhaustive"] = True
    chk.assumptions += [
        "floating-point P is compared with the exact rational to 1e-10",
        "sizes above the TLC bounds (N<=7 for 0/1 weights, N<=5 weighted) are not explored by this tier",
        "random_prob (blocks larger than 12, Monte Carlo by design) is outside the exact check",
    ]
    return sc.finish(
        rule="states of Perm.tla = reachable (weight matrix, lock set) pairs enumerated by TLC; a state is "
             "non-trivial when its exact P has an entry other than 0 or 1; distinct by (config, W, locks)")


def replay_file(path):
    import json
    global _RAW, _N
    with open(path) as fh:
        rp = json.load(fh)
    if rp.get("kind") == "block-boundary":
        chk = common.Check(PID, "quick", "model_checking")
        block_boundary_cases(chk, sizes=(rp["case"]["block"],))
        if chk.violations:
            print(f"VIOLATION property={PID} replay={path}\n  {[v[0] for v in chk.violations]}")
            return 1
        print("replay: P of the block is exact")
        return 0
    consts = rp["constants"]
    _N = consts["N"]
    st = new_state(_N)
    if "case" in rp:
        c = rp["case"]
        s = {"W": c["W"], "L": c["locked"], "num": c["num"], "den": c["den"]}
        out = st.inf_retis(abs(with_ghost(c["W"])), locks_vec(_N, c["locked"]))
        msg = _check_P(out, s, "inf_retis")
    else:
        e = rp["edge"]
        name, args = tlc.label_parts(e["action"])
        st.state = with_ghost(e["from"]["W"])
        st._locks = locks_vec(_N, e["from"]["locked"])
        _ = st.prob
        getattr(st, {"Lock": "lock", "Unlock": "unlock", "SwapRows": "swap"}[name])(*args)
        b = e["expect"]
        msg = _check_P(st.prob, {"num": b["num"], "den": b["den"]}, "prob")
    if msg:
        print(f"VIOLATION property={PID} replay={path}\n  {msg}")
        return 1
    print("replay: property holds on this case")
    return 0
