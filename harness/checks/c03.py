"""C03 - a busy ensemble, path, engine or work directory is never shared."""
from harness.checks import system as S

PID = "C03"
INV = ["MutexEns", "MutexPath", "LocksExact", "JobHoldsItsPaths", "PickedNonZero", "EngineExclusive",
       "ZeroSwapHoldsBoth", "LockedSeqExact", "Distinct", "MinusAtZero", "CanDraw", "NotStuck"]
PROPS = ["ZeroSwapAtomic"]


def main(tier, replay=None):
    if replay:
        return S.replay_main(PID, replay)
    sc = S.SystemCheck(PID, tier)
    q = tier == "quick"
    S.model_check(sc.chk, sc.work, "N3W2S3", {"N": 3, "Workers": 2, "Steps": 3}, INV, PROPS)
    S.model_check(sc.chk, sc.work, "N3W2S3_2eng", {"N": 3, "Workers": 2, "Steps": 3, "EngTypes": "TwoEngines", "EngNeed": "TwoNeed"}, INV, PROPS)
    S.model_check(sc.chk, sc.work, "N4W3S3", {"N": 4, "Workers": 3, "Steps": 3, "MaxPn": 12}, INV, PROPS, required=("InitPick", "Complete", "Finish"))
    if not q:
        S.model_check(sc.chk, sc.work, "N4W2S4", {"N": 4, "Workers": 2, "Steps": 4, "MaxPn": 12}, INV, PROPS, timeout=3000)
        S.model_check(sc.chk, sc.work, "N4W3S4", {"N": 4, "Workers": 3, "Steps": 4, "MaxPn": 14}, INV, PROPS, timeout=3000)
        S.model_check(sc.chk, sc.work, "N5W2S3", {"N": 5, "Workers": 2, "Steps": 3, "MaxPn": 12}, INV, PROPS, timeout=3000)
        S.model_check(sc.chk, sc.work, "N3W2S3_kill", {"N": 3, "Workers": 2, "Steps": 3, "MaxRestarts": 1, "MoreSteps": 1, "MaxPn": 12}, INV, PROPS, timeout=3000, required=("InitPick", "LoopPick", "Complete", "Finish", "Kill", "Restart"))
    S.sort_states(sc, "N4W3S4", {"N": 4, "Workers": 3, "Steps": 4, "MaxPn": 14} if not q else {"N": 4, "Workers": 2, "Steps": 3, "MaxPn": 12})
    sc.replay_behaviours("N3W2S4", {"N": 3, "Workers": 2, "Steps": 4, "MaxPn": 12}, 120 if q else 1500, 16)
    sc.replay_behaviours("N4W3S5_2eng", {"N": 4, "Workers": 3, "Steps": 5, "MaxPn": 16, "EngTypes": "TwoEngines", "EngNeed": "TwoNeed"}, 120 if q else 1500, 20)
    if not q:
        sc.replay_behaviours("N5W4S6", {"N": 5, "Workers": 4, "Steps": 6, "MaxPn": 20}, 1500, 24)
    S.binding_selftest(sc)
    # beyond the bounds of TLC: the lock protocol's core (ApaLocks.tla) has an inductive invariant for every number of ensembles and
    # workers up to the module's MaxN / MaxW (symbolic constants, Apalache)
    from harness import tlc
    import os
    mod = "ApaLocks.tla"
    bounds = "N in 2..7, W in 1..5"
    if not q:
        with open(os.path.join(tlc.SPEC_DIR, "ApaLocks.tla")) as fh:
            txt = fh.read().replace("MaxN == 7", "MaxN == 10").replace("MaxW == 5", "MaxW == 8")
        mod = os.path.join(sc.work, "ApaLocks.tla")
        with open(mod, "w") as fh:
            fh.write(txt)
        bounds = "N in 2..10, W in 1..8"
    ind = []
    for label, args in (("Init => IndInv", ["--cinit=ConstInit", "--init=Init", "--inv=IndInv", "--length=0"]),
                        ("IndInv /\\ Next => IndInv'", ["--cinit=ConstInit", "--init=IndInit", "--inv=IndInv", "--length=1"])):
        r = tlc.run_apalache(mod, args, timeout=600 if q else 3000)
        ind.append({"step": label, "outcome": r["outcome"], "wall_s": r["wall_s"]})
        if r["outcome"] == "error":
            sc.chk.machinery(f"Apalache refuted the inductive invariant of ApaLocks.tla ({label}):\n{r['tail']}")
    sc.chk.cov["apalache_inductive_invariant"] = {"module": "ApaLocks.tla", "constants": bounds + " (symbolic)", "steps": ind}
    print(f"  Apalache, inductive invariant of the lock protocol ({bounds}): {[(i['step'], i['outcome']) for i in ind]}", flush=True)
    specs = S.standard_random_specs(tier, sc.chk.seed, [3, 4, 5, 6] if q else [3, 4, 5, 6, 7, 8],
                                    lambda n: list(range(2, n)) or [1], 30 if q else 120, 32 if q else 320, restarts=not q)
    for i, sp in enumerate(specs):
        if i % 4 == 0:   # quantis-style engine layout: [0-] has its own engine type
            sp["ensemble_engines"] = [["engine0"]] + [["engine"]] * (sp["n"] - 1)
            sp["extra_engines"] = ("engine0",)
    sc.random_runs(specs)
    # path numbers that contain one another as strings (1 and 11, 21 and 211) live at the same time: a state every long run passes through
    sc.random_runs(S.renumbered_specs(sc.chk.seed + 5, 12 if q else 80))
    # real concurrency: the unmodified scheduler() with a real process pool (completion order decided by the operating system)
    sc.real_pool_runs(S.real_pool_specs(sc.chk.seed + 77, 8 if q else 60, kills=not q, n_values=(3, 4) if q else (3, 4, 5)))
    sc.chk.assumptions += ["in the replayed behaviours and the step-driven runs worker processes are replaced by in-process execution of run_md "
                           "in the order chosen by the driver; the real-pool runs use the unmodified scheduler() and a real process pool; "
                           "the engine exclusivity checked is that of the instances handed out by the main process",
                           "events are recorded by calling (or, for real-pool runs, wrapping) the public methods in the order scheduler() calls them"]
    return sc.finish("behaviours of Infretis.tla sampled by TLC and replayed on the real REPEX_state, plus recorded real runs; "
                     "a case is one behaviour/run, distinct by its action sequence or run parameters; every one has >= 2 workers "
                     "or a zero swap, an accept and a reject somewhere in the sample")
