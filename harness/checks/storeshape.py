"""Spec -> code for the store / load round trip of C14: every path shape of StoreShape.tla (frames over several
trajectory files, reversed frames, missing energies) is stored with the real PathStorage.output and read back with
the real load_path."""

from __future__ import annotations

import math
import os
import shutil

from harness import common, tlc

_RAW = {}


def run_case(shape, work, mag="unit"):
    from infretis.classes.formatter import PathStorage
    from infretis.classes.path import Path, load_path
    from infretis.classes.system import System
    from harness.plugins.lattice_engine import read_lat
    shutil.rmtree(work, ignore_errors=True)
    src_dir = os.path.join(work, "worker0")
    os.makedirs(src_dir)
    load = os.path.join(work, "load")
    os.makedirs(load)
    files = {}
    for fr in shape:
        f = fr["file"]
        if f not in files:
            fn = os.path.join(src_dir, f"007_11_{f}_traj{'F' if f % 2 else 'B'}.lat")
            with open(fn, "w") as fh:
                for i in range(3):
                    fh.write(f"{10 * f + i} {1 if i % 2 == 0 else -1}\n")
            files[f] = fn
    path = Path(maxlen=100)
    want = []
    for k, fr in enumerate(shape):
        s = System()
        x = 10 * fr["file"] + fr["idx"]
        s.order = [x + 0.123456, -0.5 * k] if mag == "unit" else [54321.0 + x + 0.123456, -1234.5 - k, 0.25]
        s.config = (files[fr["file"]], fr["idx"])
        s.vel_rev = bool(fr["rev"])
        if fr["en"] == "zero":
            s.ekin, s.vpot = 0.0, 0.0
        elif fr["en"] == "value":
            s.ekin, s.vpot = 0.5 + k, -1.5 - k
        want.append((os.path.basename(files[fr["file"]]), fr["idx"], bool(fr["rev"]), list(s.order), s.ekin, s.vpot, x))
        path.phasepoints.append(s)
    path.path_number = 7
    path.status = "ACC"
    path.generated = ("sh", 0.0, 0, 0)
    path.weights = (1.0,)
    fails = []
    try:
        out = PathStorage().output(3, {"path": path, "dir": load})
        back = load_path(os.path.join(load, "7"))
    except Exception as exc:  # noqa: BLE001
        return [(f"raise:{type(exc).__name__}", f"storing / loading a path of shape {shape} raised {type(exc).__name__}: {exc}")]
    if back.length != len(want):
        return [("store:length", f"{back.length} frames read back, {len(want)} stored")]
    own = os.path.join(load, "7") + os.sep
    for k, (p, w) in enumerate(zip(back.phasepoints, want)):
        base, idx, rev, order, ekin, vpot, x = w
        if os.path.basename(p.config[0]) != base or int(p.config[1]) != idx:
            fails.append(("store:reference", f"frame {k} reads back as ({os.path.basename(p.config[0])}, {p.config[1]}), stored ({base}, {idx})"))
        if not os.path.abspath(p.config[0]).startswith(os.path.abspath(own)) or not os.path.isfile(p.config[0]):
            fails.append(("store:own-directory", f"frame {k} refers to {p.config[0]}, not to an existing file under {own}"))
        elif read_lat(p.config[0])[int(p.config[1])][0] != x:
            fails.append(("store:content", f"frame {k}: the stored copy holds {read_lat(p.config[0])[int(p.config[1])][0]}, the source held {x}"))
        if bool(p.vel_rev) != rev:
            fails.append(("store:vel_rev", f"frame {k}: velocity direction {p.vel_rev}, stored {rev}"))
        if any(abs(float(a) - float(b)) > 5e-7 for a, b in zip(p.order, order)) or len(p.order) != len(order):
            fails.append(("store:order", f"frame {k}: order {list(p.order)}, stored {order}"))
        for name, got, exp in (("ekin", p.ekin, ekin), ("vpot", p.vpot, vpot)):
            absent = got is None or (isinstance(got, float) and math.isnan(got))
            if exp is None and not absent:
                fails.append(("store:energy-invented", f"frame {k}: no {name} was stored but {got} was read back"))
            elif exp is not None and (absent or abs(float(got) - exp) > 5e-7):
                fails.append(("store:energy", f"frame {k}: {name} {got}, stored {exp}"))
    for k, p in enumerate(out.phasepoints):
        if not os.path.abspath(p.config[0]).startswith(os.path.abspath(own)):
            fails.append(("store:returned-path", f"frame {k} of the path returned by PathStorage.output still refers to {p.config[0]}"))
            break
    return fails[:4]


def _job(chunk):
    work = os.path.join(common.tmpdir("sshape-"), "w")
    out, n = [], 0
    try:
        for sid in chunk:
            st = tlc.parse_state(_RAW[sid])
            if not st["done"]:
                continue
            n += 1
            shape = [dict(f) for f in st["shape"]]
            for sig, msg in run_case(shape, work, st.get("mag", "unit")):
                out.append((sig + (";wide" if st.get("mag") == "wide" else ""), msg, {"shape": shape, "mag": st.get("mag", "unit")}))
    finally:
        shutil.rmtree(os.path.dirname(work), ignore_errors=True)
    return n, out


def run(chk, pid, tier, work):
    global _RAW
    q = tier == "quick"
    consts = {"MaxLen": 2 if q else 3, "NFiles": 2}
    cfg = os.path.join(work, "StoreShape.cfg")
    with open(cfg, "w") as fh:
        fh.write("SPECIFICATION Spec\nCONSTANTS\n" + "".join(f"  {k} = {v}\n" for k, v in consts.items())
                 + "INVARIANT LawStated\nINVARIANT HasMultiFile\nINVARIANT HasMixedEnergies\nCHECK_DEADLOCK FALSE\n")
    dot = os.path.join(work, "shape.dot")
    res = tlc.run_tlc("StoreShape", cfg, dump=dot, timeout=3000, allow_violation=True)
    chk.add_tlc(res, consts)
    if not res["ok"]:
        chk.machinery(f"TLC refuted {res['violated']} on StoreShape.tla")
    _RAW, _i, _e = tlc.read_dot(dot, parse=False)
    os.remove(dot)
    results = common.pmap(_job, common.chunks(sorted(_RAW), 64))
    ncases = 0
    for n, fails in results:
        ncases += n
        for sig, msg, case in fails:
            chk.violation(sig, msg, {"property": pid, "binding": "B", "spec": "StoreShape", "kind": "storeshape-case", "shape": case["shape"], "mag": case["mag"], "clause": sig})
    chk.evaluated(ncases)
    chk.traces(ncases)
    for i in range(ncases):
        chk.nontrivial(("storeshape", i))
    print(f"  StoreShape: {res['distinct']} states, {ncases} path shapes through the real PathStorage.output and load_path", flush=True)
