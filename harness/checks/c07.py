"""C07 - every job gets its own random stream."""
import random

from harness.checks import system as S

PID = "C07"
INV = ["OrdinalsFresh", "OrdinalsDistinct", "LocksExact", "NotStuck"]


def main(tier, replay=None):
    if replay:
        return S.replay_main(PID, replay)
    sc = S.SystemCheck(PID, tier)
    chk = sc.chk
    q = tier == "quick"
    req = ("InitPick", "LoopPick", "Complete", "Finish", "Kill", "Restart")
    S.model_check(chk, sc.work, "N3W2S3_restarts", {"N": 3, "Workers": 2, "Steps": 3, "MaxRestarts": 1, "MoreSteps": 1, "MaxPn": 12}, INV, [], required=req, timeout=3000)
    # Layer I (ordinal := cstep at a restart, as the code had it): TLC produces the shortest colliding history - a lead only
    res = S.model_check(chk, sc.work, "N3W2S3_literal_ordinals", {"N": 3, "Workers": 2, "Steps": 3, "MaxRestarts": 1, "MoreSteps": 0, "MaxPn": 10, "LiteralOrd": True},
                        ["OrdinalsFresh"], [], required=(), expect_violation=True, timeout=3000)
    if res is not None:
        chk.cov["layer_I_lead"] = {"model": "LiteralOrd = TRUE (stream ordinal := cstep at a restart)",
                                   "tlc_verdict": "OrdinalsFresh violated" if not res["ok"] else "no collision"}
    # the same for the rule the code had between fixes 36c2f14 and fe85e87 (ordinal := cstep + jobs in flight): with two restarts TLC
    # produces the history of the former known finding; the rule of the current code (the count is part of the restart record) holds
    two = {"N": 3, "Workers": 2, "Steps": 4, "MaxRestarts": 2, "MoreSteps": 0, "MaxPn": 14}
    res2 = S.model_check(chk, sc.work, "N3W2S4_formula_ordinals", dict(two, FormulaOrd=True), ["OrdinalsFresh"], [], required=(), expect_violation=True, timeout=3000)
    if res2 is not None:
        chk.cov["layer_I_lead_2"] = {"model": "FormulaOrd = TRUE (stream ordinal := cstep + jobs in flight at a restart), two restarts",
                                     "tlc_verdict": "OrdinalsFresh violated" if not res2["ok"] else "no collision"}
        if res2["ok"]:
            chk.machinery("the Layer I ordinal rule 'cstep + jobs in flight' was expected to be refuted with two restarts")
    S.model_check(chk, sc.work, "N3W2S4_two_restarts", two, ["OrdinalsFresh", "OrdinalsDistinct"], [], required=req, timeout=3000)
    if not q:
        S.model_check(chk, sc.work, "N4W2S3_restart", {"N": 4, "Workers": 2, "Steps": 3, "MaxRestarts": 1, "MoreSteps": 1, "MaxPn": 14}, INV, [], required=req, timeout=3400)
    # families of runs that share a seed: other worker counts, other completion orders, restarts
    rnd = random.Random(chk.seed + 31)
    specs = []
    seeds = [0, 1, 7] + [rnd.randrange(10 ** 6) for _ in range(2 if q else 12)]
    for seed in seeds:
        for n in ((4,) if q else (4, 5, 6)):
            for w in range(1, n):
                specs.append({"n": n, "workers": w, "steps": 16 if q else 40, "seed": seed, "sched_seed": rnd.randrange(10 ** 6)})
                if w > 1:
                    specs.append({"n": n, "workers": w, "steps": 16 if q else 40, "seed": seed, "sched_seed": rnd.randrange(10 ** 6),
                                  "plan": [("kill", rnd.randrange(2, 6), rnd.random() < 0.5), ("kill", rnd.randrange(1, 5), False), ("more", w + 2)]})
                else:
                    specs.append({"n": n, "workers": 1, "steps": 10, "seed": seed, "sched_seed": 1, "plan": [("more", 5), ("more", 4)]})
    # move-side draws: every kind of move, wire fencing also in [0+] (the zero swap then uses its high-acceptance rule)
    for i, seed in enumerate(seeds[:3] if q else seeds):
        for mv in (["sh", "wf", "wf", "sh"], ["sh", "wf", "sh", "wf"]):
            specs.append({"n": 4, "workers": 1 + i % 3, "steps": 30 if q else 60, "seed": seed, "sched_seed": rnd.randrange(10 ** 6), "moves": mv})
    specs.sort(key=lambda s: (s["n"], s["workers"], s["seed"]))
    sc.random_runs(specs)
    sc.replay_behaviours("N3W2S4_kill", {"N": 3, "Workers": 2, "Steps": 4, "MaxPn": 14, "MaxRestarts": 2, "MoreSteps": 2}, 80 if q else 800, 22)
    from harness.checks import engines_rng as ER
    ER.run(sc, tier)
    chk.assumptions += ["a stream is identified by the generator's seed-sequence identity and state at hand-out (sha1 fingerprint)",
                        "statistical independence of PCG64 child streams is numpy's guarantee"]
    return sc.finish("recorded real runs grouped in same-seed families (worker counts 1..N-1, random completion orders, kills and restarts); "
                     "every Pick event's streams are checked for distinctness, freshness, seed ownership and ordinal-functionality")
