"""C11 - zero swaps exchange the crossing frames and are reversible.

Recorded real retis_swap_zero / quantis_swap_zero calls are validated by TLC against
TraceMoves.tla: (1) swaps on the lattice engine inside a small sampler (exchange of
the crossing frames, membership of both new paths); (2) double swaps with an exactly
time-reversible integer engine (swap twice = identity); (3) QuanTIS swaps between two
engines with different potentials and temperatures, the draw placed just below /
above the acceptance probability; (4) the lambda_-1 variant ending on the left.
"""

from __future__ import annotations

import json
import math
import os
import random
import shutil

from harness import common, moves
from harness.checks import moves_trace

PID = "C11"
CLAUSES = {"S_Exchange", "S_ExchangeContent", "S_SwapTwice", "M_Member", "M_AccIffStatus", "M_OldUntouched", "M_Length",
           "M_TimeOrdered", "Q_Threshold", "Q_AccIffStatus", "Q_RejectCode", "Z_Rejected", "Z_NoPropagation"}
moves_trace.CLAUSES[PID] = CLAUSES


def rev_engine(exe, **kw):
    from harness.plugins.lattice_orderp import LatticeOrder
    from harness.plugins.rev_engine import RevEngine
    eng = RevEngine(**kw)
    eng.exe_dir = exe
    eng.order_function = LatticeOrder()
    return eng


def orbit(x, v, edge, stop, maxn=400):
    """Independent implementation of the map: frames from (x, v) until stop(x) holds for a later frame."""
    from harness.plugins.rev_engine import force
    out = [(x, v)]
    for _ in range(maxn):
        v1 = v + force(x, edge)
        x = x + v1
        v = v1 + force(x, edge)
        out.append((x, v))
        if stop(x):
            return out
    return None


def path_from(frames, exe, name, eng=None):
    from infretis.classes.path import Path
    from infretis.classes.system import System
    fn = os.path.join(exe, name)
    with open(fn, "w") as fh:
        for x, v in frames:
            fh.write(f"{x} {v}\n")
    p = Path(maxlen=1000)
    for k, (x, _v) in enumerate(frames):
        s = System()
        s.order = [float(x)]
        s.config = (fn, k)
        s.vel_rev = False
        s.vpot = eng.vpot_of(x) if eng else 0.0
        s.ekin = 0.5
        p.phasepoints.append(s)
    p.generated = ("sh", 0.0, 1, 1)
    p.status = "ACC"
    return p


def swap2_job(args):
    seed, va, vb, edge, r = args
    from infretis.core import tis
    exe = common.tmpdir("sw2-")
    try:
        eng = rev_engine(exe, edge=edge)
        rg = moves.ScriptedRgen(randoms=[0.5] * 10)
        f1 = orbit(0, va, edge, lambda x: x <= 0 or x >= r)
        f0 = orbit(1, -vb, edge, lambda x: x >= 1)
        if not f1 or not f0 or f1[1][0] < 1 or f0[1][0] > 0:
            return None
        p1, p0 = path_from(f1, exe, "o1.lat"), path_from(f0, exe, "o0.lat")
        es0 = moves.ens_set(float("-inf"), 0.5, 0.5, 500, rg, start_cond="R", name="000")
        es1 = moves.ens_set(0.5, 0.5, r - 0.5, 500, rg, start_cond="L", name="001")
        b0, b1 = moves.snapshot(p0), moves.snapshot(p1)
        a1, mid, s1 = tis.retis_swap_zero({-1: {"ens": es0, "traj": p0}, 0: {"ens": es1, "traj": p1}}, {-1: [eng], 0: [eng]})
        ev = {"kind": "swap2", "r0": 1, "l": 0, "m": 1, "r": r, "old0": [x for x, _ in f0], "old1": [x for x, _ in f1], "acc1": bool(a1),
              "acc2": False, "mid0": moves.positions(mid[0]) if a1 else [], "mid1": moves.positions(mid[1]) if a1 else [], "back0": [],
              "back1": [], "untouched": moves.snapshot(p0) == b0 and moves.snapshot(p1) == b1, "status": str(s1), "args": list(args)}
        if a1:
            m0, m1 = moves.archive(mid[0], exe), moves.archive(mid[1], exe)
            a2, back, s2 = tis.retis_swap_zero({-1: {"ens": es0, "traj": m0}, 0: {"ens": es1, "traj": m1}}, {-1: [eng], 0: [eng]})
            ev["acc2"] = bool(a2)
            if a2:
                ev["back0"], ev["back1"] = moves.positions(back[0]), moves.positions(back[1])
        return ev
    except Exception as exc:  # noqa: BLE001
        return {"kind": "_error", "type": type(exc).__name__, "msg": str(exc)[:300], "args": list(args)}
    finally:
        shutil.rmtree(exe, ignore_errors=True)


def quantis_job(args):
    pnum, pden, side, beta0, beta1, a1c = args
    from infretis.core import tis
    exe = common.tmpdir("qs-")
    try:
        p = pnum / pden
        # old [0-] path ends ... (0,+1) (1,+1); old [0+] path starts (-1,+2) (1,+2) ...
        r0, r1 = 0, -1
        # exponent = beta0 * a0 * (r0^2 - r1^2) - beta1 * a1 * (r0^2 - r1^2) = -beta0 a0 + beta1 a1
        a0c = (beta1 * a1c - math.log(p)) / beta0
        eng0 = rev_engine(exe, temperature=1.0 / beta0, vscale=a0c, edge=4)
        eng1 = rev_engine(exe, temperature=1.0 / beta1, vscale=a1c, edge=4)
        f0 = orbit(1, -1, 4, lambda x: x >= 1)
        f1 = [(-1, 2)] + orbit(1, 2, 4, lambda x: x <= 0 or x >= 5)
        if f0[-2][0] != r0 or f0[-2][1] != 1:
            return {"kind": "_error", "type": "harness", "msg": f"unexpected [0-] orbit {f0}", "args": list(args)}
        p0, p1 = path_from(f0, exe, "q0.lat", eng0), path_from(f1, exe, "q1.lat", eng1)
        pacc = min(1.0, p)
        xi = pacc * (1 - 1e-9) if side == "below" else min(pacc * (1 + 1e-9), 0.9999999999)
        if side == "above" and p >= 1:
            xi = 0.9999999999
        rg = moves.ScriptedRgen(randoms=[xi])
        es0 = moves.ens_set(float("-inf"), 0.5, 0.5, 300, rg, start_cond="R", name="000")
        es1 = moves.ens_set(0.5, 0.5, 4.5, 300, rg, start_cond="L", name="001")
        es0["tis_set"]["quantis"] = es1["tis_set"]["quantis"] = True
        b0, b1 = moves.snapshot(p0), moves.snapshot(p1)
        acc, news, st = tis.quantis_swap_zero({-1: {"ens": es0, "traj": p0}, 0: {"ens": es1, "traj": p1}}, {-1: [eng0], 0: [eng1]})
        return {"kind": "quantis", "pnum": pnum, "pden": pden, "side": side, "acc": bool(acc), "status_acc": st == "ACC", "status": str(st),
                "crossings_ok": st not in ("QS0", "QS1", "QLL", "QNE", "QR*", "QLR"), "untouched": moves.snapshot(p0) == b0 and moves.snapshot(p1) == b1,
                "args": list(args), "xi": xi}
    except Exception as exc:  # noqa: BLE001
        import traceback
        return {"kind": "_error", "type": type(exc).__name__, "msg": str(exc)[:300], "args": list(args), "tb": traceback.format_exc()[-800:]}
    finally:
        shutil.rmtree(exe, ignore_errors=True)


def zerol_job(args):
    depth, = args
    from infretis.core import tis
    exe = common.tmpdir("zl-")
    try:
        eng = moves.engine(exe)
        calls = []
        real = eng.propagate

        def counting(*a, **k):
            calls.append(1)
            return real(*a, **k)
        eng.propagate = counting
        rg = moves.ScriptedRgen(randoms=[0.5] * 4)
        lm1 = -depth + 0.5
        p0 = moves.make_path([1] + list(range(0, -depth - 1, -1)), exe, name="z0.lat")     # ends left of lambda_-1
        p1 = moves.make_path([0, 1, 0], exe, name="z1.lat")
        es0 = moves.ens_set(lm1, (lm1 + 0.5) / 2, 0.5, 100, rg, start_cond=["L", "R"], name="000")
        es0["tis_set"]["lambda_minus_one"] = lm1
        es1 = moves.ens_set(0.5, 0.5, 3.5, 100, rg, start_cond="L", name="001")
        b0, b1 = moves.snapshot(p0), moves.snapshot(p1)
        acc, news, st = tis.retis_swap_zero({-1: {"ens": es0, "traj": p0}, 0: {"ens": es1, "traj": p1}}, {-1: [eng], 0: [eng]})
        return {"kind": "zeroL", "acc": bool(acc), "status": str(st), "ncalls": len(calls),
                "untouched": moves.snapshot(p0) == b0 and moves.snapshot(p1) == b1, "args": list(args)}
    except Exception as exc:  # noqa: BLE001
        return {"kind": "_error", "type": type(exc).__name__, "msg": str(exc)[:300], "args": list(args)}
    finally:
        shutil.rmtree(exe, ignore_errors=True)


def main(tier, replay=None):
    chk = common.Check(PID, tier, "model_checking")
    q = tier == "quick"
    if replay:
        with open(replay) as fh:
            rp = json.load(fh)
        if rp.get("kind") == "recorded-move" and "chain" in rp:
            return moves_trace.replay(PID, rp, replay)
        if rp.get("kind") == "zeroswap-case":
            from harness.checks import zeroswap
            zeroswap._CONST.update(rp["constants"])
            work = common.tmpdir("c11z-")
            try:
                # the demanded result is recomputed by TLC for this one case
                fails = zeroswap.replay_case(rp, work)
            finally:
                common.rmtree(work)
            if fails:
                print(f"VIOLATION property={PID} replay={replay}\n  {fails[:2]}")
                return 1
            print("replay: holds")
            return 0
        fn = {"swap2": swap2_job, "quantis": quantis_job, "zeroL": zerol_job}[rp["observed"]["kind"]]
        ev = fn(tuple(rp["observed"]["args"]))
        work = common.tmpdir("c11r-")
        try:
            res, bad, ok, tail = moves_trace.validate([ev], work, "r")
        finally:
            common.rmtree(work)
        hit = sorted({c for _i, c in bad if c in CLAUSES})
        if hit or ev["kind"] == "_error":
            print(f"VIOLATION property={PID} replay={replay}\n  {hit or ev}")
            return 1
        print("replay: holds")
        return 0
    work = common.tmpdir("c11-")
    try:
        from harness.checks import zeroswap
        zwork = os.path.join(work, "zs")
        os.makedirs(zwork)
        zeroswap.run(chk, PID, tier, zwork)
        moves_trace.run(chk, PID, tier, work)
        jobs2 = [(0, va, vb, edge, r) for va in (1, 2, 3) for vb in (1, 2, 3) for edge in (2, 3, 4) for r in (3, 4, 6)]
        ev2 = [e for e in common.pmap(swap2_job, jobs2) if e]
        ps = [(1, 4), (1, 2), (3, 4), (9, 10), (1, 100), (2, 1), (5, 4)]
        jobsq = [(n, d, side, b0, b1, a1) for (n, d) in ps for side in ("below", "above") for (b0, b1) in ((1.0, 2.0), (2.5, 0.7), (1.0, 1.0))
                 for a1 in ((0.3,) if q else (0.3, 1.1, 0.0))]
        evq = common.pmap(quantis_job, jobsq)
        evz = common.pmap(zerol_job, [(d,) for d in (2, 3, 4)])
        events = []
        for ev in ev2 + evq + evz:
            if ev["kind"] == "_error":
                if ev["type"] == "harness":
                    chk.machinery(ev["msg"])
                else:
                    chk.violation(f"raise:{ev['type']}", f"a zero-swap call raised {ev['type']}: {ev['msg']}",
                                  {"property": PID, "kind": "recorded-move", "observed": ev, "clause": "does not raise"})
                continue
            events.append(ev)
        res, bad, ok, tail = moves_trace.validate([{k: v for k, v in e.items() if k not in ("args", "xi")} for e in events], work, "c11")
        chk.cov["tlc_runs"].append({"module": "TraceMoves", "events": len(events), "distinct": res.get("distinct"), "wall_s": res.get("wall_s")})
        chk.cov["states"] += int(res.get("distinct") or 0)
        chk.cov["transitions"] += int(res.get("states") or 0)
        if not ok:
            chk.machinery(f"TraceMoves did not consume the C11 batch:\n{tail}")
        for idx, clause in bad:
            if clause in CLAUSES:
                ev = events[idx]
                chk.violation(f"clause:{clause};move:{ev['kind']}", f"a recorded {ev['kind']} call violates {clause} of TraceMoves.tla",
                              {"property": PID, "kind": "recorded-move", "binding": "C", "clause": clause, "observed": ev})
        nontriv = [e for e in ev2 if e.get("acc1") and e.get("acc2") and (e["mid0"] != e["old0"] or e["mid1"] != e["old1"])]
        for e in nontriv:
            chk.nontrivial(("swap2", json.dumps(e["args"])))
        for e in evq:
            if e.get("kind") == "quantis" and e.get("crossings_ok"):
                chk.nontrivial(("quantis", json.dumps(e["args"])))
        if nontriv:
            chk.sample({"kind": "double swap with the reversible engine", "event": {k: nontriv[0][k] for k in ("old0", "old1", "mid0", "mid1", "back0", "back1")}})
        qs = [e for e in evq if e.get("kind") == "quantis"]
        if qs:
            chk.sample({"kind": "QuanTIS swap", "event": qs[0]})
        chk.evaluated(len(events))
        chk.traces(len(events))
        if len(nontriv) < 3:
            chk.machinery(f"only {len(nontriv)} non-trivial double swaps: the reversibility clause would be vacuous")
        if not any(e.get("crossings_ok") and e.get("acc") for e in qs) or not any(e.get("crossings_ok") and not e.get("acc") for e in qs):
            chk.machinery("the QuanTIS cases did not exercise both acceptance and rejection by energy")
        print(f"  double swaps {len(ev2)} ({len(nontriv)} non-trivial), QuanTIS swaps {len(qs)}, lambda_-1 cases {len(evz)}", flush=True)
    finally:
        common.rmtree(work)
    chk.assumptions += ["frame contents are compared through positions on the lattice (configuration files re-read)",
                        "the QuanTIS acceptance probability is realised by choosing the two potentials; exp() itself is not modelled"]
    return chk.finish("recorded zero-swap calls: lattice sampler chains, all (velocity, force table, interface) combinations of the reversible "
                      "engine, QuanTIS probability table x draw side x temperatures; non-trivial = accepted and changing the paths")
