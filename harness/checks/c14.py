"""C14 - stored paths read back unchanged; live paths never lose files."""
import os
import random

from harness import common, sysdrv, tlc
from harness.checks import system as S

PID = "C14"


def main(tier, replay=None):
    if replay:
        import json
        with open(replay) as fh:
            rp = json.load(fh)
        if rp.get("kind") == "storeshape-case":
            from harness.checks import storeshape
            wk = common.tmpdir("c14s-")
            try:
                fails = storeshape.run_case(rp["shape"], os.path.join(wk, "w"), rp.get("mag", "unit"))
            finally:
                common.rmtree(wk)
            if fails:
                print(f"VIOLATION property={PID} replay={replay}\n  {fails[:2]}")
                return 1
            print("replay: holds")
            return 0
        sysdrv.CHECK_STORE = True
        return S.replay_main(PID, replay)
    sysdrv.CHECK_STORE = True
    sc = S.SystemCheck(PID, tier)
    chk = sc.chk
    q = tier == "quick"
    for (n, lag) in ((3, 3), (4, 4)) if q else ((3, 3), (4, 4), (5, 5)):
        cfg = os.path.join(sc.work, f"Store_N{n}.cfg")
        with open(cfg, "w") as fh:
            fh.write(f"SPECIFICATION Spec\nCONSTANTS\n  N = {n}\n  MaxPn = {n + 7}\n  Lag = {lag}\n  DeleteOld = TRUE\n"
                     "INVARIANT DeleteSafe\nINVARIANT InitialKept\nINVARIANT LagRespected\nINVARIANT OnlyReplacedDeleted\nCHECK_DEADLOCK FALSE\n")
        try:
            res = tlc.run_tlc("Store", cfg, timeout=1200, allow_violation=True)
            chk.add_tlc(res, {"N": n, "Lag": lag})
            if not res["ok"]:
                chk.machinery(f"TLC refuted {res['violated']} on Store.tla N={n}")
        except tlc.TLCError as exc:
            chk.machinery(str(exc)[:1000])
    from harness.checks import storeshape
    storeshape.run(chk, PID, tier, sc.work)
    # accept/reject histories chosen by TLC, replayed with deletion switched on
    for dele, dall in ((True, False), (True, True)):
        consts = {"N": 3, "Workers": 2, "Steps": 7, "MaxPn": 20}
        sc_consts = dict(consts)
        behs_name = f"N3W2S7_del{int(dele)}{int(dall)}"
        _replay_with(sc, behs_name, sc_consts, 60 if q else 600, 28, dele, dall)
    rnd = random.Random(chk.seed + 61)
    specs = []
    for i in range(32 if q else 320):
        n = [3, 4, 5][i % 3]
        spec = {"n": n, "workers": rnd.randrange(1, n), "steps": 40 if q else 120, "seed": rnd.randrange(10 ** 6),
                "sched_seed": rnd.randrange(10 ** 6), "delete_old": i % 4 != 3, "delete_old_all": i % 4 in (1, 2),
                "maxlength": rnd.choice([12, 40])}
        if i % 4 == 2:
            spec["keep_traj_fnames"] = [".aux"]
        if i % 5 == 0 and n > 3:
            spec["moves"] = ["sh", "sh"] + ["wf"] * (n - 2)
            spec["cap"] = n - 0.75
        if i % 6 == 1:
            spec["plan"] = [("kill", rnd.randrange(3, 12), False), ("more", 8)]
        specs.append(spec)
    sc.random_runs(specs)
    chk.assumptions += ["the lag checked is the code's own rule (a replaced non-initial path keeps its files until state.n - 1 further "
                        "non-initial paths have been replaced in the same process lifetime)",
                        "contents of trajectory files are C19; here presence, location, references, order (6 decimals) and energies"]
    return sc.finish("accept/reject histories (TLC behaviours and recorded real runs with multi-file, reversed-frame paths) under "
                     "delete_old / delete_old_all / keep_traj_fnames; after every step each live path is loaded back and compared")


def _replay_with(sc, name, consts, num, depth, dele, dall):
    import harness.sysreplay as SR
    orig = SR.replay_script

    def patched(root, rc, steps, rnd):
        rc = dict(rc)
        rc["delete_old"], rc["delete_old_all"] = dele, dall
        return orig(root, rc, steps, rnd)
    SR.replay_script = patched
    try:
        sc.replay_behaviours(name, consts, num, depth)
    finally:
        SR.replay_script = orig
