"""C10 - wire-fencing weights are exact, symmetric and drive segment choice.

WireFence.tla enumerates every order-parameter sequence (values on a small integer
grid, equality with an interface and jumps over the region included) and every
(left, right) pair; TLC checks that the transcribed scan of the code equals the
declarative weight, symmetry under reversal and positivity.  Every state is then fed
to the real wirefence_weight_and_pick / compute_weight / calc_cv_vector.
"""

from __future__ import annotations

import importlib.util  # noqa: F401
import itertools
import os
import random
import sys

from harness import common, tlc

PID = "C10"
REPO = os.environ.get("VERIF_REPO", "/repo")
if REPO not in sys.path:
    sys.path.insert(0, REPO)

_RAW = {}
_BYOPS = {}


class FixedRandom:
    def __init__(self, val):
        self.val = val
        self.calls = 0

    def random(self):
        self.calls += 1
        return self.val


def mkpath(ops):
    from infretis.classes.path import Path
    from infretis.classes.system import System
    p = Path(maxlen=1000)
    for k, x in enumerate(ops):
        s = System()
        s.order = [float(x)]
        s.config = ("/x/t.lat", k)
        p.phasepoints.append(s)
    p.status = "ACC"
    return p


def eval_case(ops, l, r, exp, others):
    """others: {(l, r): weight} for the same sequence (all pairs TLC explored)."""
    from infretis.core import tis
    fails = []
    p = mkpath(ops)
    w, seg = tis.wirefence_weight_and_pick(p, float(l), float(r))
    if w != exp["w"]:
        fails.append(("weight", f"weight {w} for {ops} in [{l},{r}), specification {exp['w']}"))
    if seg.length != 0:
        fails.append(("weight:segment", "a segment was returned without return_seg"))
    wr, _ = tis.wirefence_weight_and_pick(p.reverse(None), float(l), float(r))
    if wr != exp["w"]:
        fails.append(("reversal", f"weight {wr} of the time-reversed path, {exp['w']} of the path {ops} in [{l},{r})"))
    # segment choice: first segment k with cum_k / n >= xi
    n = exp["w"]
    if n > 0:
        cum = 0
        for k, (e0, e1, cnt) in enumerate(exp["segs"]):
            lo, cum = cum, cum + cnt
            for xi in {(lo + cum) / (2.0 * n), cum / n, min(cum / n, lo / n + 1e-9), (lo + 0.999 * cnt) / n}:
                if not (lo / n < xi <= cum / n):
                    continue
                rg = FixedRandom(xi)
                w2, seg = tis.wirefence_weight_and_pick(p, float(l), float(r), return_seg=True, ens_set={"rgen": rg})
                got = [int(s.config[1]) for s in seg.phasepoints]
                if w2 != n or got != list(range(e0, e1 + 1)):
                    fails.append(("pick", f"draw {xi:.6f} on {ops} in [{l},{r}) selected frames {got}, specification {list(range(e0, e1 + 1))} "
                                          f"(segment {k} of {exp['segs']})"))
                    break
                if rg.calls != 1:
                    fails.append(("pick:draws", f"{rg.calls} random numbers drawn for one segment choice"))
    else:
        rg = FixedRandom(0.5)
        w2, seg = tis.wirefence_weight_and_pick(p, float(l), float(r), return_seg=True, ens_set={"rgen": rg})
        if seg.length != 0:
            fails.append(("pick:empty", "a segment was returned for a path without weight"))
    # compute_weight: doubled when the path connects the two outer sides
    for l0 in sorted({0, l}):
        if l0 > l:
            continue
        start = "L" if ops[0] <= l0 else ("R" if ops[0] >= r else "?")
        end = "L" if ops[-1] <= l0 else ("R" if ops[-1] >= r else None)
        expw = exp["w"] * (2 if start != end else 1)
        got = tis.compute_weight(p, [float(l0), float(l), float(r)], "wf")
        if got != expw:
            fails.append(("compute_weight", f"compute_weight {got} for {ops} with interfaces {[l0, l, r]}, specification {expw}"))
        if tis.compute_weight(p, [float(l0), float(l), float(r)], "sh") != 1.0:
            fails.append(("compute_weight:sh", "a shooting ensemble weight differs from 1"))
    # weight vector over several move assignments
    vals = sorted({x for pair in others for x in pair})
    if len(vals) >= 3:
        rnd = random.Random(hash((tuple(ops), l, r)) & 0xffff)
        for _ in range(2):
            k = rnd.choice([3, 4]) if len(vals) >= 4 else 3
            intf = sorted(rnd.sample(vals, k))
            moves = ["sh", "sh"] + [rnd.choice(["sh", "wf"]) for _ in range(k - 2)]
            moves[1] = rnd.choice(["sh", "wf"])
            capc = [c for c in vals if intf[-2] < c <= intf[-1]]
            cap = rnd.choice(capc + [None])
            expv = []
            for i, li in enumerate(intf[:-1]):
                if moves[i + 1] == "wf":
                    rr = cap if cap is not None else intf[-1]
                    base = others.get((li, rr))
                    if base is None:
                        expv = None
                        break
                    s0 = "L" if ops[0] <= intf[0] else ("R" if ops[0] >= rr else "?")
                    e0 = "L" if ops[-1] <= intf[0] else ("R" if ops[-1] >= rr else None)
                    expv.append(float(base * (2 if s0 != e0 else 1)))
                else:
                    expv.append(1.0 if li <= max(ops) else 0.0)
            if expv is None:
                continue
            expv.append(0.0)
            got = tis.calc_cv_vector(p, [float(x) for x in intf], moves, cap=None if cap is None else float(cap))
            if list(got) != expv:
                fails.append(("cv_vector", f"calc_cv_vector {list(got)} for {ops}, interfaces {intf}, moves {moves}, cap {cap}; specification {expv}"))
            # the weights do not depend on where the origin of the order parameter is: the same case with the cap (or the last /
            # first interface) sitting exactly at 0.0 - a natural value for a double well - must give the same vector
            for shift in sorted({intf[0], intf[-1]} | ({cap} if cap is not None else set())):
                ps = mkpath([x - shift for x in ops])
                gs = tis.calc_cv_vector(ps, [float(x - shift) for x in intf], moves, cap=None if cap is None else float(cap - shift))
                if list(gs) != expv:
                    fails.append(("cv_vector:origin", f"calc_cv_vector {list(gs)} for {[x - shift for x in ops]}, interfaces {[x - shift for x in intf]}, moves {moves}, "
                                                      f"cap {None if cap is None else cap - shift}; specification {expv} (the case {ops} / {intf} / {cap} moved by {-shift})"))
                    break
            gm = tis.calc_cv_vector(p, [float(x) for x in intf], moves, minus=True)
            if gm != ((1.0,) if intf[0] <= max(ops) else (0.0,)):
                fails.append(("cv_vector:minus", f"[0-] weight vector {gm} for {ops} and lambda_0 = {intf[0]}"))
    return fails


def _job(chunk):
    out, n, sample = [], 0, None
    for sid in chunk:
        st = tlc.parse_state(_RAW[sid])
        if not st["done"]:
            continue
        n += 1
        ops, (l, r), exp = list(st["ops"]), st["lr"], st["res"]
        exp = {"w": exp["w"], "segs": [list(x) for x in exp["segs"]]}
        try:
            fails = eval_case(ops, l, r, exp, _BYOPS.get(tuple(ops), {}))
        except Exception as exc:  # noqa: BLE001
            fails = [(f"raise:{type(exc).__name__}", f"the real code raised {type(exc).__name__}: {exc} on {ops} [{l},{r})")]
        if sample is None and exp["w"] > 0 and len(exp["segs"]) > 1:
            sample = {"ops": ops, "left": l, "right": r, "weight": exp["w"], "segments": exp["segs"]}
        for sig, msg in fails:
            case = {"ops": ops, "left": l, "right": r, "expected": exp}
            if sig.startswith("cv_vector"):      # the weight vector needs the weights of the same sequence in the other regions
                case["others"] = [[a, b, w] for (a, b), w in sorted(_BYOPS.get(tuple(ops), {}).items())]
            out.append((sig, msg, case))
    return n, out, sample


def _weights_job(chunk):
    out = []
    for sid in chunk:
        st = tlc.parse_state(_RAW[sid])
        if st["done"]:
            out.append((tuple(st["ops"]), tuple(st["lr"]), st["res"]["w"], len(st["res"]["segs"])))
    return out


def main(tier, replay=None):
    global _RAW, _BYOPS
    chk = common.Check(PID, tier, "model_checking")
    if replay:
        import json
        with open(replay) as fh:
            rp = json.load(fh)
        c = rp["case"]
        fails = eval_case(c["ops"], c["left"], c["right"], c["expected"], {(a, b): w for a, b, w in c.get("others", [])})
        if fails:
            print(f"VIOLATION property={PID} replay={replay}\n  {fails[:3]}")
            return 1
        print("replay: holds")
        return 0
    q = tier == "quick"
    work = common.tmpdir("c10-")
    maxlen = 5 if q else 7
    nv = 4 if q else 5
    vals = list(range(nv))
    pairs = [(a, b) for a in vals for b in vals if a < b] + [(2, 2)]
    try:
        # TLC enumerates initial states on one thread: split the enumeration by the first value
        jobs = []
        mc = os.path.join(work, "MC_WireFence.tla")
        with open(mc, "w") as fh:
            fh.write("---- MODULE MC_WireFence ----\nEXTENDS WireFence\nCONSTANT First\n"
                     f"ValsDef == 0..{nv - 1}\nPairsDef == {{{', '.join('<<%d, %d>>' % p for p in pairs)}}}\n"
                     "FirstIs == ops[1] = First\nInitF == Init /\\ ops[1] = First\nSpecF == InitF /\\ [][Next]_vars\n====\n")
        os.symlink(os.path.join(tlc.SPEC_DIR, "WireFence.tla"), os.path.join(work, "WireFence.tla"))
        for first in vals:
            cfg = os.path.join(work, f"WF_{first}.cfg")
            with open(cfg, "w") as fh:
                fh.write(f"SPECIFICATION SpecF\nCONSTANTS\n  MaxLen = {maxlen}\n  Vals <- ValsDef\n  Pairs <- PairsDef\n  First = {first}\n"
                         "INVARIANT LiteralIsDeclarative\nINVARIANT ReversalSymmetric\nINVARIANT PositiveIffFrame\n"
                         "INVARIANT SegmentsSpanEntryToExit\nCHECK_DEADLOCK FALSE\n")
            jobs.append((mc, cfg, os.path.join(work, f"wf{first}.dot"), os.path.join(work, f"t{first}")))
        results = common.pmap(_tlc_job, jobs, procs=len(jobs))
        _RAW = {}
        for (mcp, cfg, dot, sub), res in zip(jobs, results):
            if isinstance(res, str):
                chk.machinery(res[:1500])
                continue
            chk.add_tlc(res, {"MaxLen": maxlen, "Vals": f"0..{nv - 1}", "first": os.path.basename(cfg)})
            if not res["ok"]:
                chk.machinery(f"TLC refuted {res['violated']} on WireFence.tla: the transcription or the declarative weight needs attention")
                continue
            raw, _i, _e = tlc.read_dot(dot, parse=False)
            off = len(_RAW)
            for k, v in raw.items():
                _RAW[(off, k)] = v
            os.remove(dot)
        ids = sorted(_RAW)
        _BYOPS = {}
        for lst in common.pmap(_weights_job, common.chunks(ids, 64)):
            for ops, lr, w, _ns in lst:
                _BYOPS.setdefault(ops, {})[lr] = w
        results = common.pmap(_job, common.chunks(ids, 64))
        ncases = 0
        for n, fails, sample in results:
            ncases += n
            if sample:
                chk.sample(sample, limit=4)
            for sig, msg, case in fails:
                chk.violation(sig, msg, {"property": PID, "binding": "B", "spec": "WireFence", "case": case, "clause": sig})
        chk.evaluated(ncases)
        chk.traces(ncases)
        nz = sum(1 for d in _BYOPS.values() for w in d.values() if w > 0)
        for i in range(nz):
            chk.nontrivial(i)
        print(f"  WireFence: {ncases} (sequence, region) cases executed on the real code, {nz} with a non-zero weight", flush=True)
    finally:
        common.rmtree(work)
    chk.cov["exhaustive"] = True
    return chk.finish(f"all order sequences of length 2..{maxlen} over 0..{nv - 1} x all (left,right) pairs; non-trivial = weight > 0")


def _tlc_job(args):
    mc, cfg, dot, sub = args
    os.makedirs(sub, exist_ok=True)
    for f in ("WireFence.tla", "MC_WireFence.tla"):
        if not os.path.exists(os.path.join(sub, f)):
            os.symlink(os.path.join(os.path.dirname(mc), f), os.path.join(sub, f))
    try:
        return tlc.run_tlc(os.path.join(sub, "MC_WireFence.tla"), cfg, dump=dot, timeout=3000, allow_violation=True, cwd=sub, workers=4)
    except tlc.TLCError as exc:
        return str(exc)
