"""C01 - sampling is unbiased: exact crossing probabilities are reproduced.

Model side (TLC): the closed form of the lattice walk (Lattice.tla), detailed balance
of the shooting length rule (Moves.tla), the exact P of infinite swapping (Perm.tla).
Code side: whole simulations through the plug-in interface (lattice engine loaded by
infretis itself) for several move assignments, caps, worker counts, with a restart in
the middle; the estimator of each conditional crossing probability computed from the
fractional weights and path weights must lie within max(6 standard errors, floor) of
the exact value, the standard error coming from independent replicas.  The statistical
clause is a postcondition over real runs, not a model-checking result.
"""

from __future__ import annotations

import json
import math
import os
import random

import numpy as np

from harness import common, sysdrv, tlc

PID = "C01"


def replica(args):
    cfgi, n, workers, moves, cap, steps, seed, restart_at = args
    root = os.path.join(common.tmpdir("c01-"), "run")
    rnd = random.Random(seed)
    try:
        # restart_at: 0 (none), k (one restart at step k) or -k (a restart every k steps)
        stops = [] if not restart_at else ([restart_at] if restart_at > 0 else list(range(-restart_at, steps, -restart_at)))
        targets = stops + [steps]
        sysdrv.build_rundir(root, n, workers, targets[0], seed=seed, moves=moves, cap=cap, maxlength=400, screen=0)
        rows = {}
        legs = [("infretis.toml", None)] + [("restart.toml", t) for t in targets[1:]]
        for inp, st in legs:
            seg = sysdrv.Segment(root, inp=inp)
            if not seg.start(steps=st):
                return {"cfg": cfgi, "error": "restart refused"}
            for _ in seg.init_picks():
                pass
            seg.events = []
            while seg.loop():
                pin = rnd.choice(sorted(seg.inflight))
                md = seg.state.treat_output(seg.run_job(pin))
                seg.inflight.pop(pin, None)
                if seg.state.cstep + seg.state.workers <= seg.state.tsteps:
                    md = seg.state.prep_md_items(md)
                    seg.inflight[int(md["pin"])] = md
                seg.events = []
            live = {pn: d for pn, d in seg.state.traj_data.items()}
            seg.close()
        # paths written to the data file + the live ones (fractions, HA weights, maximum order parameter)
        paths = []
        with open(os.path.join(root, "infretis_data.txt")) as fh:
            for ln in fh:
                if ln.startswith("#") or not ln.strip():
                    continue
                p = [x.strip() for x in ln.split("\t")[1:] if x.strip() != ""]
                fr = [0.0 if x == "----" else float(x) for x in p[3:3 + n]]
                wt = [0.0 if x == "----" else float(x) for x in p[3 + n:3 + 2 * n]]
                paths.append((float(p[2]), fr, wt))
        for pn, d in live.items():
            w = list(d["weights"])
            wt = [float(w[0])] + [0.0] * (n - 1) if len(w) == 1 else [0.0] + [float(x) for x in w[:-1]]
            paths.append((float(d["max_op"][0]), [float(x) for x in d["frac"][:n]], wt))
        est = []
        for j in range(1, n - 1 + 1):          # plus ensemble j has interface lambda_{j-1} = j - 0.5
            if j >= n:
                break
            num = den = 0.0
            nxt = j + 0.5                       # lambda_j
            for mx, fr, wt in paths:
                if fr[j] > 0 and wt[j] > 0:
                    den += fr[j] / wt[j]
                    if mx >= nxt:
                        num += fr[j] / wt[j]
            est.append(num / den if den > 0 else float("nan"))
        return {"cfg": cfgi, "est": est[: n - 1]}
    except Exception as exc:  # noqa: BLE001
        import traceback
        return {"cfg": cfgi, "error": f"{type(exc).__name__}: {exc}", "tb": traceback.format_exc()[-1200:]}
    finally:
        sysdrv.cleanup(os.path.dirname(root))


def main(tier, replay=None):
    chk = common.Check(PID, tier, "model_checking")
    q = tier == "quick"
    work = common.tmpdir("c01m-")
    try:
        cfg = os.path.join(work, "Lattice.cfg")
        with open(cfg, "w") as fh:
            fh.write("SPECIFICATION Spec\nCONSTANTS\n  MaxK = 9\nINVARIANT Harmonic\nINVARIANT Boundary\nINVARIANT CrossingLaw\nINVARIANT ReachIsGamblersRuin\nCHECK_DEADLOCK FALSE\n")
        res = tlc.run_tlc("Lattice", cfg, timeout=600, allow_violation=True)
        chk.add_tlc(res, {"MaxK": 9})
        if not res["ok"]:
            chk.machinery(f"TLC refuted {res['violated']} on Lattice.tla")
        # detailed balance of the length rule (and the refutation of the rule the code had before the fix, as a documented lead)
        for mod in ("Moves.tla", "LatticeOps.tla"):
            os.symlink(os.path.join(tlc.SPEC_DIR, mod), os.path.join(work, mod))
        with open(os.path.join(work, "MC_DB.tla"), "w") as fh:
            fh.write("---- MODULE MC_DB ----\nEXTENDS Moves\nMLs == {5}\n====\n")
        for inv, expect in (("LengthRuleBalanced", True), ("ImplementedRuleBalanced", False)):
            c2 = os.path.join(work, f"DB_{inv}.cfg")
            with open(c2, "w") as fh:
                fh.write(f"SPECIFICATION Spec\nCONSTANTS\n  L = 0\n  M = 1\n  R = 2\n  MaxOld = 3\n  NSteps = 1\n  MaxLengths <- MLs\nINVARIANT {inv}\nCHECK_DEADLOCK FALSE\n")
            try:
                r2 = tlc.run_tlc(os.path.join(work, "MC_DB.tla"), c2, timeout=600, allow_violation=True, cwd=work)
            except tlc.TLCError as exc:
                # a constant-level invariant that is FALSE is reported by TLC before any state is explored
                r2 = {"ok": False, "states": 0, "distinct": 0, "module": "MC_DB", "cfg": inv, "refuted_as_constant": "equal to FALSE" in str(exc)}
                if not r2["refuted_as_constant"]:
                    chk.machinery(str(exc)[:800])
                    continue
            chk.add_tlc(r2, {"invariant": inv})
            if r2["ok"] != expect:
                chk.machinery(f"detailed balance model: {inv} {'refuted' if not r2['ok'] else 'not refuted'} by TLC, expected the opposite")
        chk.cov["layer_I_lead"] = "the length rule min(1, n_old/(n_new+1)) (add_to_path before the fix) is refuted by TLC (ImplementedRuleBalanced)"
    finally:
        common.rmtree(work)
    # whole simulations
    n = 4
    exact = [(k + 1) / (k + 2) for k in range(n - 1)]
    steps = 1200 if q else 8000
    configs = [(["sh"] * 4, None, 1, 0), (["sh", "sh", "wf", "wf"], None, 2, steps // 2), (["sh", "wf", "wf", "sh"], 2.75, 3, 0),
               (["sh", "sh", "sh", "wf"], None, 3, steps // 3), (["sh", "wf", "wf", "sh"], 2.75, 2, -(steps // 24))]
    if not q:
        import itertools
        configs = [(["sh"] + list(m), None, 1 + i % 3, (steps // 2 if i % 2 else 0)) for i, m in enumerate(itertools.product(["sh", "wf"], repeat=3))]
        configs += [(["sh", "wf", "wf", "sh"], 2.75, 2, steps // 2), (["sh", "sh", "wf", "sh"], 2.75, 3, 0), (["sh", "sh", "wf", "sh"], 2.75, 2, -(steps // 100)),
                    (["sh", "wf", "sh", "wf"], None, 3, -(steps // 50))]
    R = 16
    jobs = []
    rnd = random.Random(chk.seed + 101)
    for ci, (moves, cap, w, rs) in enumerate(configs):
        for r in range(R):
            jobs.append((ci, n, w, moves, cap, steps, rnd.randrange(10 ** 6), rs))
    results = common.pmap(replica, jobs)
    stat = []
    for ci, (moves, cap, w, rs) in enumerate(configs):
        ests = [r["est"] for r in results if r["cfg"] == ci and "est" in r]
        errs = [r for r in results if r["cfg"] == ci and "error" in r]
        for e in errs[:2]:
            chk.violation(f"raise:config{ci}", f"a run with moves {moves}, cap {cap}, {w} workers failed: {e['error']}",
                          {"property": PID, "config": [moves, cap, w, rs], "observed": e, "clause": "runs complete"})
        if len(ests) < 8:
            continue
        arr = np.array(ests)
        mean = np.nanmean(arr, axis=0)
        se = np.nanstd(arr, axis=0, ddof=1) / math.sqrt(arr.shape[0])
        rec = {"moves": moves, "cap": cap, "workers": w, "restart_at": rs, "steps": steps, "replicas": len(ests),
               "estimate": [float(x) for x in mean], "stderr": [float(x) for x in se], "exact": exact}
        stat.append(rec)
        chk.evaluated(len(ests))
        chk.traces(len(ests))
        chk.nontrivial(json.dumps([moves, cap, w, rs]))
        chk.nontrivial(json.dumps([moves, cap, w, rs, "replicas"]))
        for k in range(n - 1):
            band = max(6 * float(se[k]), 0.012 if q else 0.006)
            if not (abs(float(mean[k]) - exact[k]) <= band):
                chk.violation(f"bias:ens{k + 1}:{'wf' if moves[k + 1] == 'wf' else 'sh'}",
                              f"P(lambda_{k + 1} | lambda_{k}) estimated {mean[k]:.4f} +- {se[k]:.4f} over {len(ests)} replicas, exact {exact[k]:.4f} "
                              f"(moves {moves}, cap {cap}, {w} workers, restart at {rs})",
                              {"property": PID, "config": [moves, cap, w, rs], "observed": rec, "clause": "estimator within max(6 SE, floor) of the exact value"})
    chk.cov["statistical_clauses"] = stat
    chk.sample({"kind": "crossing probabilities from whole simulations", "result": stat[0] if stat else None})
    chk.assumptions += ["the infinite-swapping theorem itself (crediting P is the limit of infinitely many swaps) is taken from the published method",
                        "the statistical band bounds, it does not prove: 16 independent replicas per configuration, 6 standard errors or a fixed floor",
                        "the move-level and matrix-level bindings of the model to the code are the checks of C09, C10, C11, C02 and C04"]
    print(f"  whole simulations: {len(jobs)} replicas of {steps} steps in {len(configs)} configurations", flush=True)
    return chk.finish("(move assignment, cap, workers, restart point) configurations x 16 seeds; a configuration is non-trivial when at least 8 "
                      "replicas finished and gave an estimate for every ensemble")
