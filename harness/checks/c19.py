"""C19 - configuration, trajectory and input-template codecs are lossless.

Codec.tla enumerates the cases (format x file shape x value class x id order x box
shape x operation, and template shapes x edits) and states the law each result must
obey; every case is executed on the real codecs, against encoders/parsers written
independently of them, with values defined on the format's decimal grid.
"""

from __future__ import annotations

import importlib.util  # noqa: F401
import json
import os
import random
import shutil
import struct
import sys

import numpy as np

from harness import common, tlc, writers

PID = "C19"
REPO = os.environ.get("VERIF_REPO", "/repo")
if REPO not in sys.path:
    sys.path.insert(0, REPO)
_RAW = {}
DIGITS = {"g96": 9, "xyz": 9, "lammpstrj": 9, "trr": 3}


def grid(cls, j, p, rnd):
    """A value of class cls on the 10^-p decimal grid, as the double nearest to the decimal string."""
    if cls == 1:
        s = "0." + "0" * p
    elif cls == 2:
        s = ("-" if j % 2 else "") + "0." + "0" * (p - 1) + "1"
    elif cls == 3:
        s = f"{rnd.randrange(0, 99)}." + "".join(str(rnd.randrange(10)) for _ in range(p))
    elif cls == 4:
        s = f"-{rnd.randrange(1, 999)}." + "".join(str(rnd.randrange(10)) for _ in range(p))
    else:
        s = ("-" if j % 3 == 0 else "") + "9999." + "9" * p
    return float(s)


def make_frames(c, rnd):
    p = DIGITS[c["fmt"]]
    frames = []
    n = c["natoms"]
    for t in range(c["nframes"]):
        pos = [[grid(c["vals"], 3 * a + d + t, p, rnd) for d in range(3)] for a in range(n)]
        vel = [[grid(c["vals"], 3 * a + d + t + 1, p, rnd) for d in range(3)] for a in range(n)]
        ids = list(range(1, n + 1))
        if c["permuted"]:
            rnd.shuffle(ids)
        if c["triclinic"]:
            box = [2.5 + t, 3.5, 4.5, 0.0, 0.0, 0.25, 0.0, 0.5, 0.75]
        else:
            box = [2.5 + t, 3.5, 4.5]
        frames.append({"ids": ids, "pos": pos, "vel": vel, "box": box})
    return frames


def parse_xyz(path):
    out, lines = [], open(path).read().split("\n")
    i = 0
    while i < len(lines) and lines[i].strip():
        n = int(lines[i].split()[0])
        hdr = lines[i + 1]
        rows = [ln.split() for ln in lines[i + 2:i + 2 + n]]
        box = [float(x) for x in hdr.split("Box:")[1].split()] if "Box:" in hdr else None
        out.append({"names": [r[0] for r in rows], "pos": [[float(x) for x in r[1:4]] for r in rows],
                    "vel": [[float(x) for x in r[4:7]] for r in rows], "box": box})
        i += n + 2
    return out


def parse_lammps(path):
    out, lines = [], open(path).read().split("\n")
    i = 0
    while i < len(lines) and lines[i].startswith("ITEM: TIMESTEP"):
        n = int(lines[i + 3])
        box = [[float(x) for x in lines[i + 5 + d].split()] for d in range(3)]
        rows = [ln.split() for ln in lines[i + 9:i + 9 + n]]
        out.append({"ids": [int(r[0]) for r in rows], "pos": {int(r[0]): [float(x) for x in r[2:5]] for r in rows},
                    "vel": {int(r[0]): [float(x) for x in r[5:8]] for r in rows}, "box": box})
        i += n + 9
    return out


def eq(a, b, tol=0.0):
    a, b = np.array(a, dtype=float), np.array(b, dtype=float)
    return a.shape == b.shape and bool(np.all(np.abs(a - b) <= tol))


def run_traj(c, work):
    rnd = random.Random(hash(json.dumps(c, sort_keys=True)) & 0xffffff)
    frames = make_frames(c, rnd)
    fails = []
    fmt, op, k = c["fmt"], c["op"], c["k"]
    n = c["natoms"]
    f = os.path.join(work, f"t.{fmt}")
    out = os.path.join(work, f"o.{fmt}")
    for x in (f, out):
        if os.path.exists(x):
            os.remove(x)
    if fmt == "g96":
        from infretis.classes.engines import gromacs as G
        fr = frames[0]
        with open(f, "w") as fh:
            fh.write(writers.g96(fr["pos"], fr["vel"], fr["box"]))
        raw, xyz, vel, box = G.read_gromos96_file(f)
        if not (eq(xyz, fr["pos"]) and eq(vel, fr["vel"]) and eq(box, fr["box"])):
            fails.append(("g96:read", "read_gromos96_file does not return the values written (to nine decimals)"))
        if op == "roundtrip":
            G.write_gromos96_file(out, raw, xyz, vel, box)
            raw2, xyz2, vel2, box2 = G.read_gromos96_file(out)
            txt = open(out).read()
            mine = [[float(ln[24 + 15 * d:39 + 15 * d]) for d in range(3)] for ln in txt.split("POSITION\n")[1].split("END")[0].strip("\n").split("\n")]
            if not (eq(xyz2, fr["pos"]) and eq(vel2, fr["vel"]) and eq(box2, fr["box"]) and eq(mine, fr["pos"])):
                fails.append(("g96:write", "write_gromos96_file followed by an independent parse does not return the values written"))
            if raw2["POSITION"] != raw["POSITION"]:
                fails.append(("g96:identities", "atom identity columns changed in a g96 round trip"))
        else:
            from harness import engines
            eng, _c, _i = engines.build("gromacs")
            eng._reverse_velocities(f, out)
            raw2, xyz2, vel2, box2 = G.read_gromos96_file(out)
            if not (eq(xyz2, fr["pos"]) and eq(vel2, -np.array(fr["vel"])) and eq(box2, fr["box"])):
                fails.append(("g96:reverse", "reversing velocities of a g96 file changed more than the sign of the velocities"))
    elif fmt == "xyz":
        from infretis.classes.engines import engineparts as E
        names = ["H", "O", "He", "C", "N", "Ar"][:n]
        for t, fr in enumerate(frames):
            E.write_xyz_trajectory(f, np.array(fr["pos"]), np.array(fr["vel"]), names, np.array(fr["box"]), step=t, append=t > 0)
        mine = parse_xyz(f)
        snaps = list(E.read_xyz_file(f))
        if len(mine) != len(frames) or len(snaps) != len(frames):
            fails.append(("xyz:count", f"{len(snaps)} frames read back, {len(frames)} written"))
        else:
            for t, fr in enumerate(frames):
                box, xyz, vel, nm = E.convert_snapshot(snaps[t])
                if not (eq(xyz, fr["pos"]) and eq(vel, fr["vel"]) and eq(box, fr["box"], 1e-4) and list(nm) == names):
                    fails.append(("xyz:read", f"frame {t} read back by read_xyz_file differs from what was written"))
                    break
                if not (eq(mine[t]["pos"], fr["pos"]) and eq(mine[t]["vel"], fr["vel"])):
                    fails.append(("xyz:write", f"frame {t} written by write_xyz_trajectory parses to other values"))
                    break
        if op in ("extract", "reverse"):
            from harness import engines
            eng, _c, _i = engines.build("turtlemd")
            if op == "extract":
                eng._extract_frame(f, k, out)
                got = parse_xyz(out)
                if len(got) != 1 or not (eq(got[0]["pos"], frames[k]["pos"]) and eq(got[0]["vel"], frames[k]["vel"])):
                    fails.append(("xyz:extract", f"extracting frame {k} of {len(frames)} returned other values"))
            else:
                eng._extract_frame(f, 0, os.path.join(work, "single.xyz"))
                eng._reverse_velocities(os.path.join(work, "single.xyz"), out)
                got = parse_xyz(out)
                if len(got) != 1 or not (eq(got[0]["pos"], frames[0]["pos"]) and eq(got[0]["vel"], -np.array(frames[0]["vel"])) and got[0]["names"] == names):
                    fails.append(("xyz:reverse", "reversing velocities changed more than the sign of the velocities"))
    elif fmt == "lammpstrj":
        from infretis.classes.engines import lammps as LM
        blob = b"".join(writers.lammpstrj_frame(t, fr["ids"], [fr["pos"][i - 1] for i in fr["ids"]], [fr["vel"][i - 1] for i in fr["ids"]],
                                                [(-0.5, b) for b in fr["box"]], fmt="{:.9f}") for t, fr in enumerate(frames))
        with open(f, "wb") as fh:
            fh.write(blob)
        for t, fr in enumerate(frames):
            idt, pos, vel, box = LM.read_lammpstrj(f, t, n)
            if not (eq(pos, fr["pos"]) and eq(vel, fr["vel"]) and list(idt[:, 0].astype(int)) == list(range(1, n + 1))):
                fails.append(("lammpstrj:read", f"frame {t} read by read_lammpstrj is not the frame written (ids {'shuffled' if c['permuted'] else 'ordered'})"))
                break
            if not eq(box, [(-0.5, b) for b in fr["box"]]):
                fails.append(("lammpstrj:box", f"box of frame {t} read back differs"))
                break
        fr = frames[k]
        idt, pos, vel, box = LM.read_lammpstrj(f, k, n)
        LM.write_lammpstrj(out, idt, pos, vel, box)
        mine = parse_lammps(out)
        if len(mine) != 1 or not (eq([mine[0]["pos"][i] for i in range(1, n + 1)], fr["pos"]) and eq([mine[0]["vel"][i] for i in range(1, n + 1)], fr["vel"])
                                  and eq(mine[0]["box"], [(-0.5, b) for b in fr["box"]])):
            fails.append(("lammpstrj:write", "write_lammpstrj followed by an independent parse does not return the values written"))
        if op in ("extract", "reverse"):
            from harness import engines
            eng, _c, _i = engines.build("lammps")
            eng.n_atoms = n
            if op == "extract":
                eng._extract_frame(f, k, out)
                idt2, pos2, vel2, box2 = LM.read_lammpstrj(out, 0, n)
                if not (eq(pos2, fr["pos"]) and eq(vel2, fr["vel"])):
                    fails.append(("lammpstrj:extract", f"extracting frame {k} of {len(frames)} returned other values"))
            else:
                eng._extract_frame(f, k, os.path.join(work, "single.lammpstrj"))
                eng._reverse_velocities(os.path.join(work, "single.lammpstrj"), out)
                idt2, pos2, vel2, box2 = LM.read_lammpstrj(out, 0, n)
                if not (eq(pos2, fr["pos"]) and eq(vel2, -np.array(fr["vel"])) and eq(box2, [(-0.5, b) for b in fr["box"]]) and eq(idt2, idt)):
                    fails.append(("lammpstrj:reverse", "reversing velocities changed more than the sign of the velocities"))
        xs, bx = LM.shift_boxbounds(np.array(fr["pos"], dtype=float), np.array([(-0.5, b) for b in fr["box"]], dtype=float))
        if not (eq(xs, np.array(fr["pos"]) + 0.5, 1e-12) and eq(bx, np.array(fr["box"]) + 0.5, 1e-12)):
            fails.append(("lammpstrj:shift", "shift_boxbounds does not move the lower bounds to zero consistently"))
    elif fmt == "trr":
        from infretis.classes.engines import gromacs as G
        for endian in "<>":
            for double in (False, True):
                cast = float if double else (lambda v: float(np.float32(v)))
                blob = b""
                for t, fr in enumerate(frames):
                    bm = [[fr["box"][0], 0, 0], [0, fr["box"][1], 0], [0, 0, fr["box"][2]]] if len(fr["box"]) == 3 else \
                        [[fr["box"][0], fr["box"][3], fr["box"][4]], [fr["box"][5], fr["box"][1], fr["box"][6]], [fr["box"][7], fr["box"][8], fr["box"][2]]]
                    blob += writers.trr_frame(t, 0.5 * t, bm, fr["pos"], fr["vel"], endian=endian, double=double)[0]
                with open(f, "wb") as fh:
                    fh.write(blob)
                for t in ([k] if op == "extract" else range(len(frames))):
                    hdr, data = G.read_trr_frame(f, t)
                    fr = frames[t]
                    if data is None or not (eq(data["x"], [[cast(v) for v in r] for r in fr["pos"]]) and eq(data["v"], [[cast(v) for v in r] for r in fr["vel"]])):
                        fails.append((f"trr:{'double' if double else 'single'}:{'little' if endian == '<' else 'big'}", f"TRR frame {t} decodes to other values"))
                        break
                    bm = [[fr["box"][0], 0, 0], [0, fr["box"][1], 0], [0, 0, fr["box"][2]]] if len(fr["box"]) == 3 else \
                        [[fr["box"][0], fr["box"][3], fr["box"][4]], [fr["box"][5], fr["box"][1], fr["box"][6]], [fr["box"][7], fr["box"][8], fr["box"][2]]]
                    if not eq(data["box"], [[cast(v) for v in r] for r in bm]):
                        fails.append(("trr:box", f"TRR frame {t}: the box matrix decodes to other values ({'triclinic' if c['triclinic'] else 'orthogonal'})"))
                        break
                    if hdr["step"] != t or hdr["natoms"] != n:
                        fails.append(("trr:header", f"TRR header of frame {t} decodes to step {hdr['step']} natoms {hdr['natoms']}"))
                        break
    return fails


def run_template(c, work):
    from infretis.classes.engines.enginebase import EngineBase
    rnd = random.Random(hash(json.dumps(c, sort_keys=True)) & 0xffff)
    keys = [f"key_{i}" for i in range(1, c["nkeys"] + 1)]
    lines = ["; a comment line", "title                    = template"]
    for i, key in enumerate(keys):
        tail = {"none": "", "value": "=500", "comment": " ; 2 * 5 = 10"}[c.get("eq_tail", "none")] if i == 0 else ""
        lines.append(f"{key:<24s} = value{i}{tail}")
        if c["commented"] and i == 0:
            lines.append(f"; {key} = commented_out")
    if c["duplicate"] and keys:
        lines.append(f"{keys[0]:<24s} = again")
    src, out1, out2 = (os.path.join(work, x) for x in ("t.mdp", "o1.mdp", "o2.mdp"))
    with open(src, "w") as fh:
        fh.write("\n".join(lines) + ("\n" if c.get("final_newline", True) else ""))
    settings = {keys[i - 1]: f"new{i}" for i in c["set_existing"]}
    for j in range(c["set_new"]):
        settings[f"added_{j}"] = 10 + j
    before = EngineBase._read_input_settings(src)
    EngineBase._modify_input(src, out1, settings, delim="=")
    EngineBase._modify_input(out1, out2, settings, delim="=")
    after = EngineBase._read_input_settings(out1)
    fails = []
    for key, val in settings.items():
        if str(after.get(key)) != str(val):
            fails.append(("template:requested", f"after the edit {key} = {after.get(key)!r}, requested {val!r}"))
    for key, val in before.items():
        if key not in settings and after.get(key) != val:
            fails.append(("template:untouched", f"entry {key} changed from {val!r} to {after.get(key)!r} without being requested"))
    txt1 = open(out1).read()
    for j in range(c["set_new"]):
        if sum(1 for ln in txt1.split("\n") if ln.split("=")[0].strip() == f"added_{j}") != 1:
            fails.append(("template:append-once", f"missing key added_{j} was not appended exactly once"))
    if set(after) - set(before) - set(settings):
        fails.append(("template:extra", f"keys {set(after) - set(before) - set(settings)} appeared"))
    if open(out2).read() != txt1:
        fails.append(("template:idempotent", "applying the same edit twice changes the file again"))
    nlines_expected = len(lines) + c["set_new"]
    if len([ln for ln in txt1.split("\n") if ln != ""]) != nlines_expected:
        fails.append(("template:lines", f"{len([ln for ln in txt1.split(chr(10)) if ln])} lines after the edit, expected {nlines_expected}"))
    return fails


def cp2k_tree(path):
    """Independent parser: CP2K input -> nested dict {name: {"settings": [...], "data": {key: rest}, "sub": {...}}}."""
    root = {"sub": {}, "data": {}, "settings": []}
    stack = [root]
    for ln in open(path):
        t = ln.strip()
        if not t or t.startswith("#") or t.startswith("!"):
            continue
        if t.startswith("&"):
            w = t[1:].split()
            if w[0].upper().startswith("END"):
                stack.pop()
            else:
                node = {"sub": {}, "data": {}, "settings": w[1:]}
                key = w[0].upper() + ("".join(" " + x for x in w[1:]) if w[0].upper() == "KIND" else "")   # same-titled siblings: told apart by their parameter
                if key in stack[-1]["sub"]:
                    key += "#dup"
                stack[-1]["sub"][key] = node
                stack.append(node)
        else:
            w = t.split(None, 1)
            stack[-1]["data"][w[0]] = w[1] if len(w) > 1 else None
    return root["sub"]


def run_cp2k(c, work):
    from infretis.classes.engines import cp2k as CP
    present, update = list(c["present"]), list(c["update"])
    vals = {"STEPS": "10", "TIMESTEP": "0.5", "TEMPERATURE": "300"}
    lines = ["&GLOBAL", "  PROJECT test", "  RUN_TYPE MD", "&END GLOBAL", "&MOTION", "  &MD", "    ENSEMBLE NVE"]
    lines += [f"    {k} {vals[k]}" for k in sorted(present)]
    lines += ["  &END MD"]
    if c["has_print"]:
        lines += ["  &PRINT", "    &RESTART", "      BACKUP_COPIES 0", "    &END RESTART", "  &END PRINT"]
    lines += ["&END MOTION"]
    elements = ["H", "O", "C"][:c.get("kinds", 0)]
    if elements:
        lines += ["&FORCE_EVAL", "  &SUBSYS"]
        for el in elements:
            lines += [f"    &KIND {el}", f"      BASIS_SET SZV-{el}", f"      POTENTIAL GTH-{el}", "    &END KIND"]
        lines += ["  &END SUBSYS", "&END FORCE_EVAL"]
    src, o1, o2 = (os.path.join(work, x) for x in ("t.inp", "o1.inp", "o2.inp"))
    with open(src, "w") as fh:
        fh.write("\n".join(lines) + "\n")
    new = {"STEPS": "77", "TIMESTEP": "0.25", "TEMPERATURE": "123"}
    upd = {}
    if update:
        upd["MOTION->MD"] = {"data": {k: new[k] for k in sorted(update)}}
    if c["add_section"]:
        upd["FORCE_EVAL->SUBSYS->CELL"] = {"data": {"ABC": "10.0 10.0 10.0"}}
    if c.get("edit_kind"):
        upd[f"FORCE_EVAL->SUBSYS->KIND->{elements[-1]}"] = {"data": {"BASIS_SET": "DZVP-NEW"}}
    rem = ["MOTION->PRINT"] if c["remove_print"] else None
    CP.update_cp2k_input(src, o1, update=upd or None, remove=rem)
    CP.update_cp2k_input(o1, o2, update=upd or None, remove=rem)
    exp = cp2k_tree(src)
    for k in update:
        exp["MOTION"]["sub"]["MD"]["data"][k] = new[k]
    if c["add_section"]:
        exp.setdefault("FORCE_EVAL", {"settings": [], "data": {}, "sub": {}})["sub"].setdefault("SUBSYS", {"settings": [], "data": {}, "sub": {}})["sub"]["CELL"] = \
            {"settings": [], "data": {"ABC": "10.0 10.0 10.0"}, "sub": {}}
    if c.get("edit_kind"):
        exp["FORCE_EVAL"]["sub"]["SUBSYS"]["sub"][f"KIND {elements[-1]}"]["data"]["BASIS_SET"] = "DZVP-NEW"
    if c["remove_print"]:
        exp["MOTION"]["sub"].pop("PRINT", None)
    fails = []
    got = cp2k_tree(o1)
    if got != exp:
        fails.append(("cp2k:edit" + (":same-titled-siblings" if c.get("kinds", 0) >= 3 else ""), f"editing MOTION->MD {sorted(update)} (present {sorted(present)}), add_section={c['add_section']}, remove_print={c['remove_print']}, "
                                   f"{c.get('kinds', 0)} &KIND sections, edit_kind={c.get('edit_kind')}: "
                                   f"the resulting section tree differs from the requested one: MD = {got.get('MOTION', {}).get('sub', {}).get('MD', {}).get('data')}"))
    if cp2k_tree(o2) != got:
        fails.append(("cp2k:idempotent", "applying the same CP2K edit twice changes the tree again"))
    return fails


LMP_NAMES = {1: "infretis_name", 2: "infretis_nsteps", 3: "infretis_temperature"}
LMP_VALUES = {1: "traj007", 2: 1200, 3: 300.5}


def run_lammps(c, work):
    """write_for_run on a template built from the case; the expected file is computed word by word."""
    from infretis.classes.engines.lammps import write_for_run
    lines = ["# variables to be replaced by infretis", "units real"]
    for v in sorted(c["defined"]):
        tok = LMP_NAMES[v]
        lines.append(f"variable\t{tok[9:]} index {tok}" + (f" {tok}_long" if c["lookalike"] and v == min(c["defined"]) else ""))
    for v in sorted(c["again"]):
        tok = LMP_NAMES[v]
        lines.append(f"# {tok} is set by infretis" if c["again_in_comment"] else f"variable\tcopy{v} index {tok}")
    lines += ["timestep 1.0", "run ${nsteps}"]
    src, out1, out2 = (os.path.join(work, x) for x in ("lmp.in", "lmp1.in", "lmp2.in"))
    with open(src, "w") as fh:
        fh.write("\n".join(lines) + "\n")
    settings = {LMP_NAMES[v]: LMP_VALUES[v] for v in sorted(c["requested"])}
    must_fail = not set(c["requested"]) <= set(c["defined"])
    fails = []
    try:
        write_for_run(src, out1, settings)
        raised = None
    except ValueError as exc:
        raised = exc
    if must_fail:
        if raised is None:
            fails.append(("lammps:missing-not-reported", f"settings {sorted(settings)} name a variable the template does not declare; no error was raised"))
        return fails
    if raised is not None:
        fails.append(("lammps:raise:ValueError", f"a template that declares every requested variable was refused: {raised}"))
        return fails
    expected = []
    for ln in lines:
        words = ln.split(" ")
        expected.append(" ".join("\t".join(str(settings[t]) if t in settings else t for t in w.split("\t")) for w in words))
    got = open(out1).read().split("\n")
    if got[-1] == "":
        got = got[:-1]
    if got != expected:
        bad = next(((g, e) for g, e in zip(got, expected) if g != e), (None, None))
        fails.append(("lammps:edit", f"the edited template differs from the word-wise substitution: got {bad[0]!r}, expected {bad[1]!r}"))
    write_for_run(src, out2, settings)
    if open(out2).read() != open(out1).read():
        fails.append(("lammps:repeatable", "writing the same settings again gives a different file"))
    return fails


def run_case(c, work):
    if c["kind"] == "traj":
        return run_traj(c, work)
    if c["kind"] == "cp2k":
        return run_cp2k(c, work)
    if c["kind"] == "lammps":
        return run_lammps(c, work)
    return run_template(c, work)


def _job(chunk):
    work = common.tmpdir("c19x-")
    out, n, sample = [], 0, None
    try:
        for sid in chunk:
            st = tlc.parse_state(_RAW[sid])
            if not st["done"]:
                continue
            c = {k: (sorted(v) if isinstance(v, (set, frozenset)) else v) for k, v in st["c"].items()}
            n += 1
            try:
                fails = run_case(c, work)
            except Exception as exc:  # noqa: BLE001
                import traceback
                tb = traceback.extract_tb(exc.__traceback__)
                where = next((f"{os.path.basename(f.filename)}:{f.name}" for f in reversed(tb) if "/infretis/" in f.filename), "harness")
                fails = [((f"raise:{type(exc).__name__}:{where}" if where != "harness" else f"harness:{type(exc).__name__}"),
                          f"{type(exc).__name__}: {exc} in {where} ({traceback.format_exc()[-300:]})")]
            if sample is None and c["kind"] == "traj" and c["op"] == "extract":
                sample = {"case": c, "law": st["law"]}
            for sig, msg in fails:
                out.append((sig, msg, {"case": c, "law": st["law"]}))
    finally:
        shutil.rmtree(work, ignore_errors=True)
    return n, out, sample


def main(tier, replay=None):
    global _RAW
    chk = common.Check(PID, tier, "model_checking")
    q = tier == "quick"
    if replay:
        with open(replay) as fh:
            rp = json.load(fh)
        work = common.tmpdir("c19r-")
        try:
            c = rp["case"]["case"]
            fails = run_case(c, work)
        finally:
            shutil.rmtree(work, ignore_errors=True)
        if fails:
            print(f"VIOLATION property={PID} replay={replay}\n  {fails[:2]}")
            return 1
        print("replay: holds")
        return 0
    work = common.tmpdir("c19-")
    try:
        os.symlink(os.path.join(tlc.SPEC_DIR, "Codec.tla"), os.path.join(work, "Codec.tla"))
        with open(os.path.join(work, "MC_Codec.tla"), "w") as fh:
            fh.write('---- MODULE MC_Codec ----\nEXTENDS Codec\nFmts == {"g96", "xyz", "lammpstrj", "trr"}\nVC == 1..5\n====\n')
        cfg = os.path.join(work, "Codec.cfg")
        with open(cfg, "w") as fh:
            fh.write(f"SPECIFICATION Spec\nCONSTANTS\n  Formats <- Fmts\n  MaxAtoms = {3 if q else 4}\n  MaxFrames = {2 if q else 3}\n  ValClasses <- VC\n"
                     "INVARIANT LawStated\nCHECK_DEADLOCK FALSE\n")
        dot = os.path.join(work, "codec.dot")
        res = tlc.run_tlc(os.path.join(work, "MC_Codec.tla"), cfg, dump=dot, timeout=3000, allow_violation=True, cwd=work)
        chk.add_tlc(res, {"MaxAtoms": 3 if q else 4, "MaxFrames": 2 if q else 3})
        if not res["ok"]:
            chk.machinery(f"TLC refuted {res['violated']} on Codec.tla")
        _RAW, _i, _e = tlc.read_dot(dot, parse=False)
        os.remove(dot)
        results = common.pmap(_job, common.chunks(sorted(_RAW), 64))
        ncases = 0
        for n, fails, sample in results:
            ncases += n
            if sample:
                chk.sample(sample, limit=3)
            for sig, msg, case in fails:
                if sig.startswith("harness:"):
                    chk.machinery(msg[:400])
                    continue
                chk.violation(sig, msg, {"property": PID, "binding": "B", "spec": "Codec", "case": case, "clause": case["law"]})
        chk.evaluated(ncases)
        chk.traces(ncases)
        for i in range(ncases):
            chk.nontrivial(i)
        chk.cov["exhaustive"] = True
        print(f"  Codec: {res['distinct']} states, {ncases} cases executed on the real codecs", flush=True)
    finally:
        common.rmtree(work)
    chk.assumptions += ["values live on the decimal grid of each format (k * 10^-p realised as the double nearest to the decimal string); "
                        "the xyz header carries the box with four decimals", "for LAMMPS templates 'idempotent' is read as: writing the same settings from the same template again gives the same file "
                        "(the written file no longer contains the tokens, so it is not itself a template)"]
    return chk.finish("every well-formed case of Codec.tla (format x atoms x frames x frame index x value class x id order x box shape x operation; "
                      "mdp template shapes x edits; CP2K trees x edits; LAMMPS templates x requested variables); all distinct")
