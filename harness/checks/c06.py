"""C06 - same seed, same run: determinism and restart equivalence."""
import os
import random

from harness import common, sysdrv, sysreplay
from harness.checks import system as S

PID = "C06"
INV = ["RestartLoads", "CanReissue", "NotStuck", "LocksExact", "Distinct", "OrdinalsFresh"]
PROPS = ["RestartIsStutter", "RestartRestoresRecord", "ReissueExact", "NoFreeDrawBeforeReissue"]


def _files(root):
    import tomli
    with open(os.path.join(root, "infretis_data.txt"), "rb") as fh:
        data = fh.read()
    with open(os.path.join(root, "restart.toml"), "rb") as fh:
        cfg = tomli.load(fh)
    cfg["current"].pop("restarted_from", None)
    return data, cfg


def _one_worker_run(root, n, steps_chain, seed, moves, cap, allowmax):
    """Run steps_chain[0] steps, then restart with steps_chain[1], ... (one worker: the order of
    completions is fixed, so everything is a function of the seed)."""
    sysdrv.cleanup(root)
    sysdrv.build_rundir(root, n, 1, steps_chain[0], seed=seed, moves=moves, cap=cap, allowmaxlength=allowmax)
    err = None
    try:
        for i, steps in enumerate(steps_chain):
            seg = sysdrv.Segment(root, inp="infretis.toml" if i == 0 else "restart.toml")
            try:
                if not seg.start(steps=steps if i else None):
                    err = f"setup_config refused the restart at leg {i}"
                    break
                for _ in seg.init_picks():
                    pass
                while seg.loop():
                    pin = sorted(seg.inflight)[0]
                    seg.complete(pin, seg.run_job(pin))
            finally:
                seg.close()
        if err:
            return None, err
        return _files(root), None
    except Exception as exc:  # noqa: BLE001
        return None, f"{type(exc).__name__}: {exc}"


def _split_job(args):
    idx, n, total, chain, seed, moves, cap = args
    work = S._CTX["work"]
    a, ea = _one_worker_run(os.path.join(work, f"st{os.getpid()}"), n, [total], seed, moves, cap, True)
    b, eb = _one_worker_run(os.path.join(work, f"sp{os.getpid()}"), n, chain, seed, moves, cap, True)
    sysdrv.cleanup(os.path.join(work, f"st{os.getpid()}"))
    sysdrv.cleanup(os.path.join(work, f"sp{os.getpid()}"))
    res = {"idx": idx, "seed": seed, "n": n, "total": total, "chain": chain, "moves": moves, "cap": cap}
    if ea or eb:
        res["error"] = ea or eb
        return res
    if a[0] != b[0]:
        la, lb = a[0].decode().splitlines(), b[0].decode().splitlines()
        k = next((i for i, (x, y) in enumerate(zip(la, lb)) if x != y), min(len(la), len(lb)))
        res["diff"] = {"file": "infretis_data.txt", "line": k, "straight": la[k] if k < len(la) else None,
                       "split": lb[k] if k < len(lb) else None}
    elif a[1] != b[1]:
        keys = [k for k in a[1]["current"] if a[1]["current"].get(k) != b[1]["current"].get(k)]
        keys += [f"{s}.{k}" for s in a[1] if s != "current" for k in a[1][s] if a[1][s] != b[1].get(s, {}) and a[1][s].get(k) != b[1].get(s, {}).get(k)]
        res["diff"] = {"file": "restart.toml", "keys": keys[:6]}
    return res


TURTLE_MOVES = (["sh"] * 8, ["sh", "sh", "wf", "wf", "wf", "wf", "wf", "wf"])


def _turtle_job(args):
    """The real TurtleMD engine, the unmodified scheduler() and a real process pool: straight run vs split run."""
    idx, total, chain, seed, mi = args
    from harness import turtlerun
    work = S._CTX["work"]
    ra, rb = os.path.join(work, f"ta{os.getpid()}_{idx}"), os.path.join(work, f"tb{os.getpid()}_{idx}")
    res = {"idx": idx, "seed": seed, "n": 8, "total": total, "chain": chain, "moves": TURTLE_MOVES[mi], "cap": None, "engine": "turtlemd"}
    try:
        from harness import trace
        a, ea = turtlerun.chain(ra, seed, [total], TURTLE_MOVES[mi])
        b, eb = turtlerun.chain(rb, seed, chain, TURTLE_MOVES[mi])
        if not eb and turtlerun.LAST_EVENTS:
            res["trace"] = trace.encode_trace(list(turtlerun.LAST_EVENTS))
    except Exception as exc:  # noqa: BLE001
        res["harness_error"] = f"{type(exc).__name__}: {exc}"
        return res
    finally:
        sysdrv.cleanup(ra)
        sysdrv.cleanup(rb)
    if ea or eb:
        res["error"] = ea or eb
        return res
    if a[0] != b[0]:
        la, lb = a[0].decode().splitlines(), b[0].decode().splitlines()
        k = next((i for i, (x, y) in enumerate(zip(la, lb)) if x != y), min(len(la), len(lb)))
        res["diff"] = {"file": "infretis_data.txt", "line": k, "straight": la[k] if k < len(la) else None, "split": lb[k] if k < len(lb) else None}
    elif a[1] != b[1]:
        res["diff"] = {"file": "restart.toml", "keys": [k for k in a[1]["current"] if a[1]["current"].get(k) != b[1]["current"].get(k)][:6]}
    return res


def main(tier, replay=None):
    if replay:
        return S.replay_main(PID, replay)
    sc = S.SystemCheck(PID, tier)
    chk = sc.chk
    q = tier == "quick"
    S.model_check(chk, sc.work, "N3W2S3_restarts", {"N": 3, "Workers": 2, "Steps": 3, "MaxRestarts": 1, "MoreSteps": 1, "MaxPn": 12},
                  INV, PROPS, required=("InitPick", "LoopPick", "Complete", "Finish", "Kill", "Restart"), timeout=3000)
    if not q:
        S.model_check(chk, sc.work, "N3W1S3_chain", {"N": 3, "Workers": 1, "Steps": 2, "MaxRestarts": 2, "MoreSteps": 1, "MaxPn": 12, "TrackFrac": True},
                      INV, PROPS, required=("InitPick", "LoopPick", "Complete", "Finish", "Kill", "Restart"), timeout=3000)
        S.model_check(chk, sc.work, "N4W2S3_restart", {"N": 4, "Workers": 2, "Steps": 3, "MaxRestarts": 1, "MoreSteps": 1, "MaxPn": 14},
                      INV, PROPS, required=("InitPick", "LoopPick", "Complete", "Finish", "Kill", "Restart"), timeout=3400)
    # (i) straight run == split run, byte for byte, one worker, many seeds, every split point
    rnd = random.Random(chk.seed + 11)
    seeds = [0, 1, 2, 7, 12345, 2 ** 31 + 5, 2 ** 32 + 11, 2 ** 63 - 25] + ([rnd.randrange(10 ** 6) for _ in range(6)] if not q else [])
    total = 12 if q else 30
    jobs = []
    for si, seed in enumerate(seeds):
        for n, moves, cap in ((4, None, None), (5, ["sh", "sh", "wf", "wf", "sh"], 3.75)):
            splits = range(1, total) if (q and si < 3) or (not q) else [rnd.randrange(1, total)]
            for k in splits:
                jobs.append((len(jobs), n, total, [k, total], seed, moves, cap))
            for _ in range(1 if q else 4):   # chains of restarts
                a = rnd.randrange(1, total - 2)
                b = rnd.randrange(a + 1, total - 1)
                jobs.append((len(jobs), n, total, [a, b, total], seed, moves, cap))
            jobs.append((len(jobs), n, total, [total], seed, moves, cap))   # determinism: the same run twice
    results = common.pmap(_split_job, jobs, chunksize=2)
    for r in results:
        chk.evaluated(1)
        chk.traces(2)
        chk.nontrivial(("split", r["seed"], r["n"], tuple(r["chain"])))
        rp = {"property": PID, "binding": "C", "kind": "split-vs-straight", "run": {k: r[k] for k in ("seed", "n", "total", "chain", "moves", "cap")}}
        if "error" in r:
            rp["observed"] = r["error"]
            chk.violation("split:error", f"a split run failed: {r['error']}", rp)
        elif "diff" in r:
            rp["observed"] = r["diff"]
            kind = "rerun" if len(r["chain"]) == 1 else "split"
            chk.violation(f"{kind}:differs:{r['diff']['file']};seed_is_zero:{r['seed'] == 0}",
                          f"{'two identical runs' if kind == 'rerun' else 'straight run and run split at ' + str(r['chain'][:-1])} "
                          f"(seed {r['seed']}) differ in {r['diff']['file']}", rp)
    # the same comparison with the real TurtleMD engine (Langevin dynamics with the job's engine stream), the unmodified scheduler() and
    # a real process pool
    tjobs = []
    for seed in ([0, 3, 12345, 2 ** 32 + 11] if q else [0, 1, 3, 12345, 99, 2 ** 31 + 5, 2 ** 32 + 11]):
        for mi in (0, 1):
            tot = 10 if q else 16
            k = rnd.randrange(1, tot)
            tjobs.append((len(tjobs), tot, [k, tot], seed, mi))
            if not q or seed == 3:
                a = rnd.randrange(1, tot - 2)
                tjobs.append((len(tjobs), tot, [a, rnd.randrange(a + 1, tot), tot], seed, mi))
        tjobs.append((len(tjobs), 10, [10], seed, 1))
    tres = common.pmap(_turtle_job, tjobs, procs=6)
    for r in tres:
        chk.evaluated(1)
        chk.traces(2)
        chk.nontrivial(("turtle", r["seed"], tuple(r["chain"]), tuple(r["moves"])))
        rp = {"property": PID, "binding": "C", "kind": "split-vs-straight:turtlemd", "run": {k: r[k] for k in ("seed", "total", "chain", "moves")}}
        if "harness_error" in r:
            chk.machinery(f"TurtleMD comparison failed in the harness: {r['harness_error']}")
        elif "error" in r:
            rp["observed"] = r["error"]
            chk.violation("split:error:turtlemd", f"a TurtleMD run failed: {r['error']}", rp)
        elif "diff" in r:
            rp["observed"] = r["diff"]
            kind = "rerun" if len(r["chain"]) == 1 else "split"
            chk.violation(f"{kind}:differs:{r['diff']['file']};engine:turtlemd;seed_is_zero:{r['seed'] == 0}",
                          f"TurtleMD: {'two identical runs' if kind == 'rerun' else 'straight run and run split at ' + str(r['chain'][:-1])} "
                          f"(seed {r['seed']}) differ in {r['diff']['file']}", rp)
    tt = [(r["trace"], {"binding": "C", "kind": "turtlemd-history", "run": {k: r[k] for k in ("seed", "total", "chain", "moves")}}) for r in tres if r.get("trace")]
    if tt:      # the recorded split histories (TurtleMD, 8 ensembles, the unmodified scheduler) through the trace specification as well
        sc.validate_multi({(8, 1): ([t for t, _m in tt], [m for _t, m in tt])})
    print(f"  TurtleMD split/straight comparisons (real scheduler, real pool): {len(tres)}; {len(tt)} recorded histories validated by TraceInfretis.tla", flush=True)
    if results:
        chk.sample({"kind": "straight vs split run, files compared byte for byte", "example": {k: results[0][k] for k in ("seed", "n", "chain")}})
    print(f"  split/straight comparisons: {len(results)}", flush=True)
    # (ii) several workers: exactly the recorded in-flight jobs are re-issued (monitor clauses)
    sc.replay_behaviours("N3W2S4_kill", {"N": 3, "Workers": 2, "Steps": 4, "MaxPn": 14, "MaxRestarts": 2, "MoreSteps": 2}, 100 if q else 1200, 22)
    specs = S.standard_random_specs(tier, chk.seed + 21, [3, 4, 5], lambda n: list(range(2, n)) or [1], 24 if q else 80,
                                    32 if q else 240, restarts=True, moves_mix=True)
    for sp in specs:
        sp.setdefault("plan", [("kill", 3, False), ("kill", 2, True)])
    sc.random_runs(specs)
    # live paths whose numbers contain one another as strings (21 and 211): the record of jobs in flight is kept by path number
    sc.random_runs(S.renumbered_specs(chk.seed + 6, 12 if q else 80))
    chk.assumptions += ["one-worker runs are compared byte for byte (infretis_data.txt; restart.toml as a parsed dict without the "
                        "restarted_from bookkeeping key); allowmaxlength = true as the property's scope note says",
                        "the lattice plug-in engine produces integer order parameters, lossless at six decimals; the TurtleMD runs use the "
                        "example's x position rounded to the six decimals order.txt stores (the scope note of the property)"]
    return sc.finish("(seed, split chain, move set) combinations, each executed twice on the real code (straight and split) and compared; "
                     "multi-worker kill/restart behaviours and runs validated by the trace specification; distinct by parameters")
