"""C20 - order parameters respect the symmetries of what they measure.

Geometry.tla enumerates two-atom configurations on an integer lattice, orthogonal odd
boxes and symmetry actions, and carries exact oracles (squared minimum-image distance,
numerator of the distance rate) before and after the action; TLC checks the stated
relations on the oracles.  Every state is executed on the real Distance, Distancevel,
Position, Velocity, pbc_dist_coordinate; the angle-type parameters (Dihedral,
Puckering) are checked through the same actions by the required relation between
their values before and after.
"""

from __future__ import annotations

import copy
import importlib.util  # noqa: F401
import json
import math
import os
import random
import sys

import numpy as np

from harness import common, tlc

PID = "C20"
REPO = os.environ.get("VERIF_REPO", "/repo")
if REPO not in sys.path:
    sys.path.insert(0, REPO)
_RAW = {}
TOL = 1e-9


def mksys(pos, vel, box, nine=False):
    from infretis.classes.system import System
    s = System()
    s.pos = np.array(pos, dtype=float)
    s.vel = np.array(vel, dtype=float)
    b = [float(x) for x in box]
    s.box = np.array(b + [0.0] * 6) if nine else np.array(b)
    return s


def unchanged(s, snap):
    return np.array_equal(s.pos, snap[0]) and np.array_equal(s.vel, snap[1]) and np.array_equal(np.asarray(s.box), snap[2]) and s.vel_rev == snap[3]


def calc(op, s, fails, name):
    snap = (s.pos.copy(), s.vel.copy(), np.asarray(s.box).copy(), s.vel_rev)
    try:
        val = op.calculate(s)
    except Exception as exc:  # noqa: BLE001
        fails.append((f"{name}:raise:{type(exc).__name__}", f"{name}.calculate raised {type(exc).__name__}: {exc}"))
        return None
    if not unchanged(s, snap):
        fails.append((f"{name}:modifies-system", f"{name}.calculate modified the system it was given"))
    return [float(v) for v in val]


def rotmat(k):
    return {1: np.array([[0, -1, 0], [1, 0, 0], [0, 0, 1.0]]), 2: np.array([[1, 0, 0], [0, 0, -1], [0, 1, 0.0]]),
            3: np.array([[0, 1, 0], [0, 0, 1], [1, 0, 0.0]]), 4: np.array([[0.6, -0.8, 0], [0.8, 0.6, 0], [0, 0, 1.0]])}[k]


_ENG = {}


def _stub_engine():
    """The concrete methods of EngineBase (calculate_order, snapshot_to_system) on a subclass without a program behind it."""
    if "cls" not in _ENG:
        from infretis.classes.engines.enginebase import EngineBase

        class Stub(EngineBase):
            def __init__(self):      # noqa: D107
                self.order_function = None

            def _extract_frame(self, *a): pass            # noqa: E704
            def _propagate_from(self, *a, **k): pass      # noqa: E704
            def _read_configuration(self, *a): pass       # noqa: E704
            def _reverse_velocities(self, *a): pass       # noqa: E704
            def modify_velocities(self, *a): pass         # noqa: E704
            def set_mdrun(self, *a): pass                 # noqa: E704
        _ENG["cls"] = Stub
    return _ENG["cls"]()


def path_reverse_case(p0, p1, v0, v1, box):
    """C20 anchors Path.reverse ("recomputes velocity-dependent orders"): the time-reversed path carries the same position-type values in
    reverse order and the velocity-type values with the opposite sign; reversing twice restores them; the original is not modified.
    Frames are built the way the engines build them (calculate_order + snapshot_to_system: positions and velocities are not kept in the
    phase point) and, as a second form, with the arrays kept."""
    from infretis.classes import orderparameter as OP
    from infretis.classes.path import Path
    from infretis.classes.system import System
    fails = []
    for form in ("engine", "stored"):
        for name, op, sign in (("Distance", OP.Distance((0, 1), periodic=True), 1), ("Distancevel", OP.Distancevel((0, 1), periodic=True), -1),
                               ("Velocity", OP.Velocity(1, dim="y"), -1)):
            eng = _stub_engine()
            eng.order_function = op
            path, tmpl = Path(maxlen=10), System()
            for k in range(3):
                xyz = np.array([p0, p1], dtype=float) + 0.01 * k
                vel = np.array([v0, v1], dtype=float) * (1 + k)
                order = eng.calculate_order(tmpl, xyz=xyz, vel=vel, box=np.array(box, dtype=float))
                snap = {"order": order, "config": ("frames.xyz", k), "vel_rev": False}
                if form == "stored":
                    snap.update(pos=xyz, vel=vel)
                path.append(eng.snapshot_to_system(tmpl, snap))
            orig = [list(s.order) for s in path.phasepoints]
            try:
                rev = path.reverse(op)
                back = rev.reverse(op)
            except Exception as exc:  # noqa: BLE001
                fails.append((f"PathReverse:{name}:raise:{type(exc).__name__}:{form}", f"Path.reverse with the {name} order parameter on {form}-style phase points raised "
                                                                                     f"{type(exc).__name__}: {str(exc)[:100]}"))
                continue
            got = [list(s.order) for s in rev.phasepoints]
            want = [[sign * x for x in o] for o in reversed(orig)]
            if any(abs(a - b) > TOL for g, w in zip(got, want) for a, b in zip(g, w)) or len(got) != len(want):
                fails.append((f"PathReverse:{name}:{'sign' if sign < 0 else 'value'}:{form}", f"the reversed path carries {name} values {got}, expected {want} "
                                                                                             f"({'opposite sign' if sign < 0 else 'unchanged'}, reverse order)"))
            elif [list(s.order) for s in back.phasepoints] != orig and any(abs(a - b) > TOL for g, w in zip([list(s.order) for s in back.phasepoints], orig) for a, b in zip(g, w)):
                fails.append((f"PathReverse:{name}:twice:{form}", "reversing twice does not restore the order-parameter values"))
            if [list(s.order) for s in path.phasepoints] != orig or any(s.vel_rev for s in path.phasepoints):
                fails.append((f"PathReverse:{name}:modifies-original:{form}", "Path.reverse changed the path it was called on"))
    return fails


def calculate_order_case(p0, p1, v0, v1, box):
    """EngineBase.calculate_order is where the engines apply a frame's velocity flag: with the arrays handed over (what every engine does
    while it propagates) a velocity-type parameter of a frame flagged as reversed has the opposite sign, a position-type one the same value."""
    from infretis.classes import orderparameter as OP
    from infretis.classes.system import System
    fails = []
    xyz, vel, bx = np.array([p0, p1], dtype=float), np.array([v0, v1], dtype=float), np.array(box, dtype=float)
    for name, op, sign in (("Distance", OP.Distance((0, 1), periodic=True), 1), ("Distancevel", OP.Distancevel((0, 1), periodic=True), -1),
                           ("Velocity", OP.Velocity(1, dim="y"), -1), ("Position", OP.Position((1, 0), periodic=False), 1)):
        eng = _stub_engine()
        eng.order_function = op
        out = []
        for flag in (False, True):
            s = System()
            s.vel_rev = flag
            try:
                out.append(list(eng.calculate_order(s, xyz=xyz.copy(), vel=vel.copy(), box=bx.copy())))
            except Exception as exc:  # noqa: BLE001
                fails.append((f"calculate_order:{name}:raise:{type(exc).__name__}", f"calculate_order raised {type(exc).__name__}: {str(exc)[:100]}"))
                break
        if len(out) == 2 and any(abs(b - sign * a) > TOL for a, b in zip(out[0], out[1])):
            fails.append((f"calculate_order:{name}:vel_rev", f"{name} of a frame flagged as reversed is {out[1]}, of the unflagged frame {out[0]} "
                                                             f"({'opposite sign' if sign < 0 else 'the same value'} expected)"))
    return fails


def eval_case(st):
    from infretis.classes import orderparameter as OP
    fails = []
    p0, p1, v0, v1, box, act, res = st["p0"], st["p1"], st["v0"], st["v1"], st["box"], st["act"], st["res"]
    kind = act["kind"]
    d2, dv, d2a, dva = res["d2"], res["dv"], res["d2a"], res["dva"]
    dist, rate = OP.Distance((0, 1), periodic=True), OP.Distancevel((0, 1), periodic=True)
    for nine in ((False, True) if kind == "boxform" else (False,)):
        tag = "(9-component box)" if nine else ""
        s = mksys([p0, p1], [v0, v1], box, nine)
        val = calc(dist, s, fails, "Distance")
        if val is not None and abs(val[0] - math.sqrt(d2)) > TOL:
            fails.append((f"Distance:value{':box9' if nine else ''}", f"Distance {val[0]} for atoms {p0} {p1} in box {box} {tag}, exact sqrt({d2})"))
        val = calc(rate, s, fails, "Distancevel" + (":box9" if nine else ""))
        if val is not None and abs(val[0] - dv / math.sqrt(d2)) > TOL:
            fails.append((f"Distancevel:value{':box9' if nine else ''}", f"Distancevel {val[0]} for atoms {p0} {p1} velocities {v0} {v1} box {box} {tag}, exact {dv}/sqrt({d2})"))
    a = res["after"]
    s2 = mksys([a[0], a[1]], [a[2], a[3]], a[4])
    val = calc(dist, s2, fails, "Distance")
    if val is not None and abs(val[0] - math.sqrt(d2a)) > TOL:
        fails.append((f"Distance:after-{kind}", f"Distance {val[0]} after {kind}, exact sqrt({d2a})"))
    val = calc(rate, s2, fails, "Distancevel")
    if val is not None and abs(val[0] - dva / math.sqrt(d2a)) > TOL:
        fails.append((f"Distancevel:after-{kind}", f"Distancevel {val[0]} after {kind}, exact {dva}/sqrt({d2a})"))
    # minimum image vector
    try:
        mi = OP.pbc_dist_coordinate(np.array(p1, dtype=float) - np.array(p0, dtype=float), np.array(box, dtype=float))
        if any(abs(mi[i]) > box[i] / 2 + 1e-12 for i in range(3)):
            fails.append(("minimage:bound", f"minimum-image vector {mi} exceeds half the box {box}"))
        if abs(float(np.dot(mi, mi)) - d2) > 1e-9:
            fails.append(("minimage:value", f"minimum-image vector {mi} for {p0} {p1} box {box}, exact squared length {d2}"))
    except Exception as exc:  # noqa: BLE001
        fails.append((f"minimage:raise:{type(exc).__name__}", str(exc)))
    # position / velocity type parameters
    s = mksys([p0, p1], [v0, v1], box)
    pos_op, vel_op = OP.Position((1, 0), periodic=False), OP.Velocity(1, dim="y")
    pv, vv = calc(pos_op, s, fails, "Position"), calc(vel_op, s, fails, "Velocity")
    if pv is not None and abs(pv[0] - p1[0]) > TOL:
        fails.append(("Position:value", f"Position {pv[0]}, exact {p1[0]}"))
    if vv is not None and abs(vv[0] - v1[1]) > TOL:
        fails.append(("Velocity:value", f"Velocity {vv[0]}, exact {v1[1]}"))
    if kind == "reverse":
        pv2, vv2 = calc(pos_op, s2, fails, "Position"), calc(vel_op, s2, fails, "Velocity")
        if pv is not None and pv2 is not None and abs(pv2[0] - pv[0]) > TOL:
            fails.append(("Position:reverse", "a position-type parameter changed under velocity reversal"))
        if vv is not None and vv2 is not None and abs(vv2[0] + vv[0]) > TOL:
            fails.append(("Velocity:reverse", "a velocity-type parameter did not change sign under velocity reversal"))
    if kind == "reverse":
        fails += path_reverse_case(p0, p1, v0, v1, box)
        fails += calculate_order_case(p0, p1, v0, v1, box)
    # angle-type parameters: relation between the values before and after the same action
    rnd = random.Random(hash((tuple(p0), tuple(p1), tuple(box), json.dumps(act, sort_keys=True))) & 0xffffff)
    L = 31.0
    quad = np.array([[0.0, 0, 0], [1.5, 0.2, 0], [2.1, 1.4, 0.3], [3.3, 1.6, 1.5]]) + rnd.uniform(-0.3, 0.3) * np.array(
        [[rnd.random() for _ in range(3)] for _ in range(4)])
    ring = np.array([[1.4 * math.cos(math.pi / 3 * i), 1.4 * math.sin(math.pi / 3 * i), 0.25 * (-1) ** i + 0.1 * (i == 0)] for i in range(6)])
    ring += 0.08 * np.array([[rnd.uniform(-1, 1) for _ in range(3)] for _ in range(6)])
    for name, op, coords in (("Dihedral", OP.Dihedral((0, 1, 2, 3), periodic=True), quad + 5.0),
                             ("Puckering", OP.Puckering((0, 1, 2, 3, 4, 5), periodic=True), ring + 7.0)):
        n = len(coords)
        sb = mksys(coords, np.zeros((n, 3)), [L, L, L], nine=(kind == "boxform"))
        before = calc(op, sb, fails, name)
        if kind == "translate":
            c2 = coords + np.array(act["t"], dtype=float)
        elif kind == "shift":
            c2 = coords.copy()
            c2[rnd.randrange(n), act["axis"] - 1] += act["n"] * L
        elif kind == "rotate":
            c2 = (rotmat(act["k"]) @ coords.T).T
        else:
            c2 = coords
        sa = mksys(c2, np.zeros((n, 3)), [L, L, L])
        after = calc(op, sa, fails, name)
        if before is None or after is None:
            continue
        if name == "Dihedral":
            if abs(abs(before[0]) - math.pi) < 0.2:
                continue
            if abs(before[0] - after[0]) > 1e-8:
                fails.append((f"Dihedral:{kind}", f"Dihedral {before[0]} became {after[0]} under {kind}"))
        else:
            th, ph = before[0], before[1]
            if th < 5 or th > 175 or ph < 5 or ph > 355:
                continue
            if any(abs(x - y) > 1e-6 for x, y in zip(before, after)):
                fails.append((f"Puckering:{kind}", f"Puckering {before} became {after} under {kind}"))
    return fails


def _job(chunk):
    out, n, sample = [], 0, None
    for sid in chunk:
        st = tlc.parse_state(_RAW[sid])
        if not st["done"]:
            continue
        n += 1
        case = {k: st[k] for k in ("p0", "p1", "v0", "v1", "box", "act", "res")}
        try:
            fails = eval_case(case)
        except Exception as exc:  # noqa: BLE001
            fails = [(f"harness:{type(exc).__name__}", f"{exc}")]
        if sample is None and st["act"]["kind"] == "shift":
            sample = case
        for sig, msg in fails:
            out.append((sig, msg, case))
    return n, out, sample


def main(tier, replay=None):
    global _RAW
    chk = common.Check(PID, tier, "model_checking")
    q = tier == "quick"
    if replay:
        with open(replay) as fh:
            rp = json.load(fh)
        fails = eval_case(rp["case"])
        if fails:
            print(f"VIOLATION property={PID} replay={replay}\n  {fails[:2]}")
            return 1
        print("replay: holds")
        return 0
    work = common.tmpdir("c20-")
    try:
        os.symlink(os.path.join(tlc.SPEC_DIR, "Geometry.tla"), os.path.join(work, "Geometry.tla"))
        coords = "{-2, 1, 3}" if q else "{-3, -1, 0, 2}"
        with open(os.path.join(work, "MC_Geometry.tla"), "w") as fh:
            fh.write("---- MODULE MC_Geometry ----\nEXTENDS Geometry\n"
                     f"CoordsDef == {coords}\nVelsDef == {{<<1, 0, -2>>, <<-1, 2, 1>>}}\nBoxesDef == {{<<11, 11, 11>>, <<11, 13, 15>>}}\n"
                     'ActionsDef == {[kind |-> "translate", t |-> <<1, 0, 0>>], [kind |-> "translate", t |-> <<-2, 3, 1>>],\n'
                     '  [kind |-> "shift", axis |-> 1, n |-> 1], [kind |-> "shift", axis |-> 3, n |-> -2], [kind |-> "shift", axis |-> 2, n |-> 1],\n'
                     '  [kind |-> "rotate", k |-> 1], [kind |-> "rotate", k |-> 2], [kind |-> "rotate", k |-> 3],\n'
                     '  [kind |-> "reverse"], [kind |-> "boxform"]}\n====\n')
        cfg = os.path.join(work, "Geometry.cfg")
        with open(cfg, "w") as fh:
            fh.write("SPECIFICATION Spec\nCONSTANTS\n  Coords <- CoordsDef\n  Vels <- VelsDef\n  Boxes <- BoxesDef\n  Actions <- ActionsDef\n"
                     "INVARIANT DistanceInvariant\nINVARIANT RateRelation\nINVARIANT MinImageBounded\nINVARIANT NonDegenerate\nCHECK_DEADLOCK FALSE\n")
        dot = os.path.join(work, "geo.dot")
        res = tlc.run_tlc(os.path.join(work, "MC_Geometry.tla"), cfg, dump=dot, timeout=3400, allow_violation=True, cwd=work, heap="12g")
        chk.add_tlc(res, {"Coords": coords})
        if not res["ok"]:
            chk.machinery(f"TLC refuted {res['violated']} on Geometry.tla")
        _RAW, _i, _e = tlc.read_dot(dot, parse=False)
        os.remove(dot)
        results = common.pmap(_job, common.chunks(sorted(_RAW), 64))
        ncases = 0
        for n, fails, sample in results:
            ncases += n
            if sample:
                chk.sample(sample, limit=3)
            for sig, msg, case in fails:
                if sig.startswith("harness:"):
                    chk.machinery(f"{sig} {msg}")
                    continue
                chk.violation(sig, msg, {"property": PID, "binding": "B", "spec": "Geometry", "case": case, "clause": sig})
        chk.evaluated(ncases)
        chk.traces(ncases)
        for i in range(ncases):
            chk.nontrivial(i)
        chk.cov["exhaustive"] = True
        print(f"  Geometry: {res['distinct']} states, {ncases} (configuration, action) cases executed on the real order parameters", flush=True)
    finally:
        common.rmtree(work)
    chk.assumptions += ["integer coordinates and odd box lengths (unique minimum image); molecules smaller than half the box",
                        "dihedrals within 0.2 rad of +-pi and puckering angles within 5 degrees of the poles / seam are skipped"]
    return chk.finish("all two-atom lattice configurations x velocities x boxes x symmetry actions; for each also a jittered 4-atom "
                      "and 6-ring configuration under the same action; all distinct")
