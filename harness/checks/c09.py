"""C09 - accepted paths belong to their ensemble; rejections change nothing.

Part 1 (spec -> code): Moves.tla enumerates shooting attempts on the lattice (old
path, shooting index, class of the drawn number, scripted backward and forward
steps, length limit) and computes what the property demands; every case whose
trajectories reach the interfaces is replayed into the real tis.shoot with a
scripted move stream and a scripted engine.
Part 2 (code -> spec): real shoot / wire_fencing / retis_swap_zero / run_md moves
on the lattice engine with real random streams are recorded and every outcome is
validated by TLC against TraceMoves.tla (membership, AccIffStatus, old path
untouched, length limit, shooting point contained).
"""

from __future__ import annotations

import json
import os
import random
import shutil

from harness import common, moves, tlc

PID = "C09"
_RAW = {}
_CONST = {}


def run_shoot(st, exe_dir, allowmax=False):
    """Replay one enumerated case on the real shoot(); returns list of (signature, message)."""
    from infretis.core import tis
    L, M, R = _CONST["L"], _CONST["M"], _CONST["R"]
    res = st["res"]
    old, idx = list(st["old"]), st["idx"]
    nold, nnew = res["nold"], res["nnew"]
    t = nold / nnew if nnew > 0 else 2.0
    if st["xi"] == "below":
        xi = min(t * (1 - 1e-6), 0.999999)
    elif st["xi"] == "above":
        if t * (1 + 1e-6) >= 1.0:
            return None        # no number above the threshold exists: the class is empty
        xi = t * (1 + 1e-6)
    else:
        xi = 0.01 * min(1.0, t)
    for f in os.listdir(exe_dir):
        os.remove(os.path.join(exe_dir, f))
    path = moves.make_path(old, exe_dir)
    rg = moves.ScriptedRgen(integers=[idx - 1], randoms=[xi])
    eng = moves.engine(exe_dir)
    eng.script_calls = [list(st["back"]), list(st["forw"])]
    es = moves.ens_set(L + 0.5, M - 0.5, R - 0.5, st["maxlength"], rg, allowmax=allowmax)
    before = moves.snapshot(path)
    fails = []
    try:
        accept, trial, status = tis.shoot(es, path, eng, start_cond=("L",))
    except Exception as exc:  # noqa: BLE001
        from harness.plugins.lattice_engine import LatticeScriptExhausted
        if isinstance(exc, LatticeScriptExhausted):
            return [("harness:script", "the engine asked for more steps than the case scripts (harness)")]
        return [(f"raise:{type(exc).__name__}", f"shoot raised {type(exc).__name__}: {exc}")]
    exp = res["accept"] if not allowmax else (res["accept"] or (st["xi"] == "above" and _would_accept_without_xi(st)))
    ints = [c for c in rg.calls if c[0] == "integers"]
    if not ints or ints[0][1] < 1 or (ints[0][2] is not None and ints[0][2] > len(old) - 1):
        fails.append(("shoot:index", f"shooting index drawn from {ints[0][1:] if ints else None} for a path of {len(old)} frames: end points must be excluded"))
    if bool(accept) != (status == "ACC") or (trial.status == "ACC") != bool(accept):
        fails.append(("acc_iff_status", f"accept = {accept} but status = {status!r} / path status {trial.status!r}"))
    if bool(accept) != bool(exp):
        fails.append((f"shoot:rule:{st['xi']}:{'accepts' if accept else 'rejects'}",
                      f"old path {old} (n_old = {nold}), shooting frame {idx - 1}, trial would be {list(res['trial'])} (n_new = {nnew}), "
                      f"drawn number {xi:.6f} {'<=' if xi <= t else '>'} n_old/n_new = {t:.6f}, maxlength {st['maxlength']}: "
                      f"the code {'accepted' if accept else 'rejected with ' + status}, the property {'accepts' if exp else 'rejects'}"))
    if accept:
        got = moves.positions(trial)
        if got != list(res["trial"]):
            fails.append(("shoot:trial", f"accepted path {got}, specification {list(res['trial'])}"))
        nb = res["shootpos"]
        flags = [bool(s.vel_rev) for s in trial.phasepoints]
        if flags != [True] * nb + [False] * (len(got) - nb):
            fails.append(("shoot:vel_rev", f"velocity flags {flags} not consistent with a backward part of {nb} frames"))
        if trial.length > st["maxlength"]:
            fails.append(("shoot:length", f"accepted path of {trial.length} frames exceeds maxlength {st['maxlength']}"))
        if trial.generated[0] != "sh" or int(trial.generated[2]) != idx - 1:
            fails.append(("shoot:generated", f"generated = {trial.generated}, shooting index was {idx - 1}"))
    if moves.snapshot(path) != before:
        fails.append(("old_untouched", f"the old path or its files changed during a shooting move (status {status})"))
    return fails


def run_shoot_minus(st, exe_dir, allowmax=False):
    """One enumerated [0-] shooting attempt on the real shoot() (start condition "R")."""
    from infretis.core import tis
    R0, wall = _CONST["R0"], _CONST["Wall"]
    res = st["res"]
    old, idx = list(st["old"]), st["idx"]
    nold, nnew = res["nold"], res["nnew"]
    t = nold / nnew if nnew > 0 else 2.0
    if st["xi"] == "below":
        xi = min(t * (1 - 1e-6), 0.999999)
    elif st["xi"] == "above":
        if t * (1 + 1e-6) >= 1.0:
            return None
        xi = t * (1 + 1e-6)
    else:
        xi = 0.01 * min(1.0, t)
    for f in os.listdir(exe_dir):
        os.remove(os.path.join(exe_dir, f))
    path = moves.make_path(old, exe_dir)
    rg = moves.ScriptedRgen(integers=[idx - 1], randoms=[xi])
    eng = moves.engine(exe_dir, left_wall=wall)
    eng.script_calls = [list(st["back"]), list(st["forw"])]
    es = moves.ens_set(float("-inf"), R0 - 0.5, R0 - 0.5, st["maxlength"], rg, allowmax=allowmax, start_cond="R", name="000")
    before = moves.snapshot(path)
    fails = []
    try:
        accept, trial, status = tis.shoot(es, path, eng, start_cond=("R",))
    except Exception as exc:  # noqa: BLE001
        from harness.plugins.lattice_engine import LatticeScriptExhausted
        if isinstance(exc, LatticeScriptExhausted):
            return [("harness:script", "the engine asked for more steps than the case scripts (harness)")]
        return [(f"raise:{type(exc).__name__}", f"shoot in [0-] raised {type(exc).__name__}: {exc}")]
    tr = list(res["trial"])
    exp = res["accept"] if not allowmax else (res["accept"] or (st["xi"] == "above" and bool(res["complete"]) and len(tr) <= st["maxlength"]))
    if bool(accept) != (status == "ACC") or (trial.status == "ACC") != bool(accept):
        fails.append(("acc_iff_status", f"[0-]: accept = {accept} but status = {status!r} / path status {trial.status!r}"))
    if bool(accept) != bool(exp):
        fails.append((f"shoot0:rule:{st['xi']}:{'accepts' if accept else 'rejects'}",
                      f"[0-]: old path {old} (n_old = {nold}), shooting frame {idx - 1}, trial would be {tr} (n_new = {nnew}), drawn number {xi:.6f}, "
                      f"n_old/n_new = {t:.6f}, maxlength {st['maxlength']}: the code {'accepted' if accept else 'rejected with ' + status}, "
                      f"the property {'accepts' if exp else 'rejects'}"))
    if accept:
        got = moves.positions(trial)
        if got != tr:
            fails.append(("shoot0:trial", f"[0-]: accepted path {got}, specification {tr}"))
        if not (got[0] >= R0 and got[-1] >= R0 and all(x < R0 for x in got[1:-1])):
            fails.append(("shoot0:member", f"[0-]: the accepted path {got} is not a member of [0-]"))
    if moves.snapshot(path) != before:
        fails.append(("old_untouched", f"[0-]: the old path or its files changed during a shooting move (status {status})"))
    return fails


def _job_minus(chunk):
    exe = common.tmpdir("c09m-")
    out, n, skipped = [], 0, 0
    try:
        for sid in chunk:
            st = tlc.parse_state(_RAW[sid])
            if not st["done"]:
                continue
            if not st["res"]["complete"]:
                skipped += 1
                continue
            for allowmax in (False, True):
                fails = run_shoot_minus(st, exe, allowmax=allowmax)
                if fails is None:
                    continue
                n += 1
                case = {k: st[k] for k in ("old", "idx", "xi", "back", "forw", "maxlength")}
                case.update({"allowmaxlength": allowmax, "expected": st["res"], "minus": True})
                for sig, msg in fails:
                    out.append((sig, msg, case))
    finally:
        shutil.rmtree(exe, ignore_errors=True)
    return n, out, skipped


def run_minus(chk, work, q):
    """MovesMinus.tla: shooting in [0-]."""
    global _RAW, _CONST
    consts = {"R0": 1, "Wall": -2, "MaxOld": 5 if q else 6, "NSteps": 3 if q else 4}
    _CONST = dict(consts)
    for mod in ("MovesMinus.tla", "LatticeOps.tla"):
        if not os.path.exists(os.path.join(work, mod)):
            os.symlink(os.path.join(tlc.SPEC_DIR, mod), os.path.join(work, mod))
    with open(os.path.join(work, "MC_MovesMinus.tla"), "w") as fh:
        fh.write(f"---- MODULE MC_MovesMinus ----\nEXTENDS MovesMinus\nMLs == {{5, 7}}\nWallDef == {consts['Wall']}\n====\n")
    cfg = os.path.join(work, "MovesMinus.cfg")
    with open(cfg, "w") as fh:
        fh.write("SPECIFICATION Spec\nCONSTANTS\n" + "".join(f"  {k} = {v}\n" for k, v in consts.items() if k != "Wall")
                 + "  Wall <- WallDef\n  MaxLengths <- MLs\nINVARIANT AcceptedIsMember\nCHECK_DEADLOCK FALSE\n")
    dot = os.path.join(work, "minus.dot")
    try:
        res = tlc.run_tlc(os.path.join(work, "MC_MovesMinus.tla"), cfg, dump=dot, timeout=3000, allow_violation=True, cwd=work)
    except tlc.TLCError as exc:
        chk.machinery(str(exc)[:1500])
        return
    chk.add_tlc(res, consts)
    if not res["ok"]:
        chk.machinery(f"TLC refuted {res['violated']} on MovesMinus.tla")
        return
    _RAW, _i, _e = tlc.read_dot(dot, parse=False)
    os.remove(dot)
    results = common.pmap(_job_minus, common.chunks(sorted(_RAW), 64))
    ncases = nskip = 0
    for n, fails, skipped in results:
        ncases += n
        nskip += skipped
        for sig, msg, case in fails:
            if sig.startswith("harness:"):
                chk.machinery(msg)
                continue
            chk.violation(sig, msg, {"property": PID, "binding": "B", "spec": "MovesMinus", "constants": dict(consts), "case": case, "clause": sig})
    chk.evaluated(ncases)
    chk.traces(ncases)
    for i in range(ncases):
        chk.nontrivial(("minus", i))
    print(f"  MovesMinus: {res['distinct']} states, {ncases} shooting attempts in [0-] replayed on the real shoot() ({nskip} cases whose walks do not "
          "reach the interface skipped)", flush=True)


def _would_accept_without_xi(st):
    L, M = _CONST["L"], _CONST["M"]
    res = st["res"]
    tr = list(res["trial"])
    return bool(res["complete"]) and len(tr) <= st["maxlength"] and tr[0] <= L and max(tr) >= M


def _job(chunk):
    exe = common.tmpdir("c09x-")
    out, n, sample, skipped = [], 0, None, 0
    try:
        for sid in chunk:
            st = tlc.parse_state(_RAW[sid])
            if not st["done"]:
                continue
            if not st["res"]["complete"]:
                skipped += 1
                continue
            for allowmax in (False, True):
                fails = run_shoot(st, exe, allowmax=allowmax)
                if fails is None:
                    continue
                n += 1
                case = {k: st[k] for k in ("old", "idx", "xi", "back", "forw", "maxlength")}
                case["allowmaxlength"] = allowmax
                case["expected"] = st["res"]
                if sample is None and st["res"]["accept"]:
                    sample = case
                for sig, msg in fails:
                    out.append((sig, msg, case))
    finally:
        shutil.rmtree(exe, ignore_errors=True)
    return n, out, sample, skipped


def main(tier, replay=None):
    global _RAW, _CONST
    chk = common.Check(PID, tier, "model_checking")
    q = tier == "quick"
    if replay:
        with open(replay) as fh:
            rp = json.load(fh)
        if rp.get("kind") == "recorded-move":
            from harness.checks import moves_trace
            return moves_trace.replay(PID, rp, replay)
        if rp.get("kind") == "wfmove2-case":
            from harness.checks import wfmove
            wfmove._CONST.update(rp["constants"])
            wk = common.tmpdir("c09w-")
            try:
                fails = wfmove.replay_case2(rp, wk)
            finally:
                common.rmtree(wk)
            if fails:
                print(f"VIOLATION property={PID} replay={replay}\n  {fails[:2]}")
                return 1
            print("replay: holds")
            return 0
        if rp.get("kind") == "wfmove-case":
            from harness.checks import wfmove
            wk = common.tmpdir("c09w-")
            try:
                fails = wfmove.replay_case(rp, wk)
            finally:
                common.rmtree(wk)
            if fails:
                print(f"VIOLATION property={PID} replay={replay}\n  {fails[:2]}")
                return 1
            print("replay: holds")
            return 0
        _CONST = rp["constants"]
        exe = common.tmpdir("c09r-")
        st = dict(rp["case"])
        st["res"] = st.pop("expected")
        fails = (run_shoot_minus if st.get("minus") else run_shoot)(st, exe, allowmax=st.get("allowmaxlength", False))
        shutil.rmtree(exe, ignore_errors=True)
        if fails:
            print(f"VIOLATION property={PID} replay={replay}\n  {fails[:3]}")
            return 1
        print("replay: holds")
        return 0
    work = common.tmpdir("c09-")
    try:
        from harness.checks import wfmove
        wwork = os.path.join(work, "wf")
        os.makedirs(wwork)
        wfmove.run(chk, PID, tier, wwork)
        wwork2 = os.path.join(work, "wf2")
        os.makedirs(wwork2)
        wfmove.run_two_jumps(chk, PID, tier, wwork2, chk.seed + 77)
        mwork = os.path.join(work, "minus")
        os.makedirs(mwork)
        run_minus(chk, mwork, q)
        for mod in ("Moves.tla", "LatticeOps.tla"):
            os.symlink(os.path.join(tlc.SPEC_DIR, mod), os.path.join(work, mod))
        for (L, M, R, maxold, nsteps, mls) in ([(0, 2, 3, 5, 3, "{5, 7}")] if q else [(0, 2, 3, 5, 4, "{5, 7}"), (0, 1, 3, 5, 4, "{6}"), (0, 3, 4, 7, 4, "{8, 9}")]):
            _CONST = {"L": L, "M": M, "R": R}
            name = f"L{L}M{M}R{R}"
            mc = os.path.join(work, f"MC_Moves_{name}.tla")
            with open(mc, "w") as fh:
                fh.write(f"---- MODULE MC_Moves_{name} ----\nEXTENDS Moves\nMLs == {mls}\n====\n")
            cfg = os.path.join(work, f"{name}.cfg")
            with open(cfg, "w") as fh:
                fh.write(f"SPECIFICATION Spec\nCONSTANTS\n  L = {L}\n  M = {M}\n  R = {R}\n  MaxOld = {maxold}\n  NSteps = {nsteps}\n"
                         "  MaxLengths <- MLs\nINVARIANT AcceptedIsMember\nINVARIANT LengthRuleBalanced\nCHECK_DEADLOCK FALSE\n")
            dot = os.path.join(work, f"{name}.dot")
            try:
                res = tlc.run_tlc(mc, cfg, dump=dot, timeout=3000, allow_violation=True, cwd=work)
            except tlc.TLCError as exc:
                chk.machinery(str(exc)[:1500])
                continue
            chk.add_tlc(res, {"L": L, "M": M, "R": R, "MaxOld": maxold, "NSteps": nsteps, "MaxLengths": mls})
            if not res["ok"]:
                chk.machinery(f"TLC refuted {res['violated']} on Moves.tla")
                continue
            _RAW, _i, _e = tlc.read_dot(dot, parse=False)
            os.remove(dot)
            results = common.pmap(_job, common.chunks(sorted(_RAW), 64))
            ncases = nskip = 0
            for n, fails, sample, skipped in results:
                ncases += n
                nskip += skipped
                if sample:
                    chk.sample(sample, limit=3)
                for sig, msg, case in fails:
                    if sig.startswith("harness:"):
                        chk.machinery(msg)
                        continue
                    chk.violation(sig, msg, {"property": PID, "binding": "B", "spec": "Moves", "constants": dict(_CONST), "case": case, "clause": sig})
            chk.evaluated(ncases)
            chk.traces(ncases)
            for i in range(ncases):
                chk.nontrivial((name, i))
            print(f"  Moves/{name}: {res['distinct']} states, {ncases} shooting attempts replayed on the real shoot() "
                  f"({nskip} cases whose walks do not reach an interface skipped)", flush=True)
        # the implemented length rule as a lead: TLC refutes its detailed balance (documented, not a verdict)
        from harness.checks import moves_trace
        moves_trace.run(chk, PID, tier, work)
    finally:
        common.rmtree(work)
    chk.assumptions += ["interfaces lie between lattice sites, so no frame equals an interface", "the drawn number is placed a relative 1e-6 below / "
                        "above the threshold n_old/n_new (the threshold itself has measure zero)"]
    return chk.finish("shooting attempts enumerated by Moves.tla (old path x shooting index x draw class x backward steps x forward steps x "
                      "length limit x allowmaxlength) plus recorded real moves validated by TraceMoves.tla; all distinct")
