"""Recorded real moves (shoot, wire_fencing, retis_swap_zero on the lattice engine with
real random streams) validated by TLC against TraceMoves.tla.  Used by C09 and C11."""

from __future__ import annotations

import json
import os
import random
import re
import shutil

import numpy as np

from harness import common, moves, tlc

CLAUSES = {
    "C09": {"M_AccIffStatus", "M_Member", "M_Length", "M_TimeOrdered", "M_FileOrder", "M_Weight", "M_ShootingPoint", "M_VelRev",
            "M_WfContainsSegment", "M_OldUntouched"},
    "C11": {"S_Exchange", "S_ExchangeContent", "M_Member", "M_AccIffStatus", "M_OldUntouched", "M_Length", "M_TimeOrdered"},
}
_BAD = re.compile(r'<<"BADCLAUSE", (\d+), "(\w+)">>')
_DONE = re.compile(r'<<"TRACE-CONSUMED", (\d+), (\d+)>>')


def _cfgs(path):
    return [(os.path.basename(s.config[0]), int(s.config[1] or 0)) for s in path.phasepoints]


def chain(args):
    """One Markov chain of real moves; returns the list of events."""
    seed, kind, m, r, maxlength, nmoves, cap = args
    from infretis.core import tis
    exe = common.tmpdir("mv-")
    events = []
    try:
        eng = moves.engine(exe, left_wall=-4)
        eng.rgen = np.random.default_rng(seed)
        rg = np.random.default_rng(seed + 1)
        nint = r
        interfaces = [i + 0.5 for i in range(nint)]
        mv = ["sh"] * nint
        if kind == "wf":
            for i in range(1, nint):
                mv[i] = "wf"
        if kind in ("sh", "wf"):
            es = moves.ens_set(0.5, m - 0.5, r - 0.5, maxlength, rg, move=kind if kind == "wf" else "sh", cap=cap)
            path = moves.make_path(list(range(0, m + 1)) + list(range(m - 1, -1, -1)), exe, name="init.lat")
            for it in range(nmoves):
                before = moves.snapshot(path)
                old = moves.positions(path)
                segs = []
                if kind == "wf":
                    real_shoot = tis.shoot

                    def rec_shoot(*a, **k):
                        out = real_shoot(*a, **k)
                        if out[0]:
                            segs.append(_cfgs(out[1]))
                        return out
                    tis.shoot = rec_shoot
                    try:
                        accept, trial, status = tis.wire_fencing(es, path, eng, start_cond=("L",))
                    finally:
                        tis.shoot = real_shoot
                else:
                    accept, trial, status = tis.shoot(es, path, eng, start_cond=("L",))
                ev = {"kind": kind, "minus": False, "l": 0, "m": m, "r": r, "maxlength": maxlength, "acc": bool(accept),
                      "status_acc": status == "ACC", "path_status_acc": trial.status == "ACC", "old": old,
                      "new": moves.positions(trial) if accept else [], "newrev": [int(bool(s.vel_rev)) for s in trial.phasepoints] if accept else [],
                      "untouched": moves.snapshot(path) == before, "spos": 0, "sidx": 0, "oidx": 0, "weight_ok": True, "seg_ok": True,
                      "status": str(status)}
                ev["newfile"], ev["newidx"] = [], []
                if accept:
                    ids = {}
                    for s_ in trial.phasepoints:
                        ev["newfile"].append(ids.setdefault(str(s_.config[0]), len(ids) + 1))
                        ev["newidx"].append(int(s_.config[1] or 0))
                    w = tis.calc_cv_vector(trial, interfaces, mv, cap=cap)
                    ev["weight_ok"] = bool(w[m - 1] > 0)
                    if kind == "sh":
                        ev["oidx"] = int(trial.generated[2]) + 1
                        ev["sidx"] = int(trial.generated[3]) + 1
                        ev["spos"] = old[ev["oidx"] - 1] if 0 < ev["oidx"] <= len(old) else -99
                    elif segs:
                        # the end frames of the seed segment are re-dumped by the extension; its interior keeps its references
                        last, full = segs[-1][1:-1], _cfgs(trial)
                        n = len(last)
                        ev["seg_ok"] = n == 0 or any(full[i:i + n] == last or full[i:i + n] == last[::-1] for i in range(len(full) - n + 1))
                    path = moves.archive(trial, exe)
                    path.path_number = 7
                events.append(ev)
        else:   # zero swaps interleaved with shooting in [0-] and [0+]
            es0 = moves.ens_set(float("-inf"), 0.5, 0.5, maxlength, rg, start_cond="R", name="000")
            es1 = moves.ens_set(0.5, 0.5, r - 0.5, maxlength, rg, start_cond="L", name="001")
            p0 = moves.make_path([1, 0, 1], exe, name="init0.lat")
            p1 = moves.make_path([0, 1, 0], exe, name="init1.lat")
            for it in range(nmoves):
                which = rg.integers(0, 3)
                if which == 0:
                    acc, tr, st = tis.shoot(es0, p0, eng, start_cond=("R",))
                    if acc:
                        p0 = moves.archive(tr, exe)
                    continue
                if which == 1:
                    acc, tr, st = tis.shoot(es1, p1, eng, start_cond=("L",))
                    if acc:
                        p1 = moves.archive(tr, exe)
                    continue
                b0, b1 = moves.snapshot(p0), moves.snapshot(p1)
                o0, o1 = moves.positions(p0), moves.positions(p1)
                picked = {-1: {"ens": es0, "traj": p0}, 0: {"ens": es1, "traj": p1}}
                acc, news, st = tis.retis_swap_zero(picked, {-1: [eng], 0: [eng]})
                ev = {"kind": "swap", "r0": 1, "l": 0, "m": 1, "r": r, "maxlength": maxlength, "acc": bool(acc), "status_acc": st == "ACC",
                      "old0": o0, "old1": o1, "new0": moves.positions(news[0]) if acc else [], "new1": moves.positions(news[1]) if acc else [],
                      "untouched": moves.snapshot(p0) == b0 and moves.snapshot(p1) == b1, "weight_ok": True, "content_ok": True, "status": str(st)}
                if acc:
                    try:
                        def xof(s):
                            from harness.plugins.lattice_engine import read_lat
                            return read_lat(s.config[0])[int(s.config[1] or 0)][0]
                        ev["content_ok"] = (xof(news[0].phasepoints[-1]) == o1[1] and xof(news[0].phasepoints[-2]) == o1[0]
                                            and xof(news[1].phasepoints[0]) == o0[-2] and xof(news[1].phasepoints[1]) == o0[-1])
                    except Exception:  # noqa: BLE001
                        ev["content_ok"] = False
                    p0, p1 = moves.archive(news[0], exe), moves.archive(news[1], exe)
                events.append(ev)
    except Exception as exc:  # noqa: BLE001
        import traceback
        events.append({"kind": "_error", "type": type(exc).__name__, "msg": str(exc)[:300], "tb": traceback.format_exc()[-1200:],
                       "args": list(args)})
    finally:
        shutil.rmtree(exe, ignore_errors=True)
    return events


def validate(events, work, tag):
    path = os.path.join(work, f"moves_{tag}.ndjson")
    with open(path, "w") as fh:
        for ev in events:
            fh.write(json.dumps({k: v for k, v in ev.items() if k not in ("args", "xi", "tb")}) + "\n")
    cfg = os.path.join(work, f"moves_{tag}.cfg")
    with open(cfg, "w") as fh:
        fh.write("SPECIFICATION TSpec\nINVARIANT Report\nCHECK_DEADLOCK FALSE\n")
    sub = os.path.join(work, f"mt_{tag}")
    os.makedirs(sub, exist_ok=True)
    res = tlc.run_tlc("TraceMoves", cfg, workers=1, cwd=sub, env={"TRACE_FILE": path}, coverage=False, timeout=3000,
                      keep_output=True, allow_violation=True, heap="3g")
    out = res.get("output", "")
    bad = [(int(m.group(1)) - 1, m.group(2)) for m in _BAD.finditer(out)]
    done = _DONE.search(out)
    ok = res["ok"] and done is not None and int(done.group(1)) == len(events)
    return res, bad, ok, ("" if ok else "\n".join(out.splitlines()[-20:]))


def _vjob(args):
    return validate(*args)


def run(chk, pid, tier, work):
    q = tier == "quick"
    rnd = random.Random(chk.seed + 71)
    jobs = []
    kinds = ["sh", "wf", "swap"] if pid == "C09" else ["swap"]
    for kind in kinds:
        for i in range(8 if q else 48):
            r = rnd.choice([3, 4, 5])
            m = rnd.randrange(1, r)
            ml = rnd.choice([8, 12, 20, 40])
            cap = None
            if kind == "wf" and rnd.random() < 0.5 and r - m >= 2:
                cap = r - 1.25
            jobs.append((rnd.randrange(10 ** 6), kind, m, r, ml, 150 if q else 400, cap))
    results = common.pmap(chain, jobs)
    events, meta = [], []
    for job, evs in zip(jobs, results):
        for ev in evs:
            if ev["kind"] == "_error":
                chk.violation(f"raise:{ev['type']}:{job[1]}", f"a {job[1]} move raised {ev['type']}: {ev['msg']}",
                              {"property": pid, "kind": "recorded-move", "chain": list(job), "observed": ev, "clause": "moves do not raise"})
                continue
            events.append(ev)
            meta.append(job)
    if not events:
        return
    k = 8
    size = (len(events) + k - 1) // k
    vjobs = [(events[i:i + size], work, f"{pid}_{i}") for i in range(0, len(events), size)]
    vres = common.pmap(_vjob, vjobs, procs=k)
    nacc = 0
    for (chunk, _w, tag), (res, bad, ok, tail) in zip(vjobs, vres):
        base = int(tag.rsplit("_", 1)[1])        # offset of the chunk in `events` (equal events exist: do not search for it)
        chk.cov["tlc_runs"].append({"module": "TraceMoves", "generated": res.get("states"), "distinct": res.get("distinct"),
                                    "wall_s": res.get("wall_s"), "events": len(chunk)})
        chk.cov["states"] += int(res.get("distinct") or 0)
        chk.cov["transitions"] += int(res.get("states") or 0)
        if not ok:
            chk.machinery(f"TraceMoves validation did not consume its batch:\n{tail}")
            continue
        for idx, clause in bad:
            if clause not in CLAUSES[pid]:
                continue
            ev = chunk[idx]
            chk.violation(f"clause:{clause};move:{ev['kind']}", f"a recorded {ev['kind']} move violates {clause} of TraceMoves.tla",
                          {"property": pid, "kind": "recorded-move", "binding": "C", "clause": clause, "observed": ev,
                           "chain": list(meta[base + idx])})
    for i, ev in enumerate(events):
        if ev["acc"]:
            nacc += 1
            chk.nontrivial(("move", ev["kind"], json.dumps(ev.get("new") or ev.get("new0"))))
    chk.evaluated(len(events))
    chk.traces(len(jobs))
    acc = [e for e in events if e["acc"]]
    if acc:
        chk.sample({"kind": "recorded move", "event": acc[0]}, limit=5)
    print(f"  recorded moves validated by TraceMoves.tla: {len(events)} ({nacc} accepted) from {len(jobs)} chains", flush=True)
    selftest(chk, pid, events, work)


def selftest(chk, pid, events, work):
    """Binding self-test: recorded moves that TraceMoves.tla accepts are corrupted in one field each; every corruption must be
    rejected by a clause that concerns it (a monitor that accepted them would be bound to nothing)."""
    import copy
    variants = []

    def add(name, ev, fn, expect):
        if ev is None:
            return
        variants.append(("unchanged " + ev["kind"], copy.deepcopy(ev), None))
        t = copy.deepcopy(ev)
        fn(t)
        variants.append((name, t, expect))
    acc = lambda kind: next((e for e in events if e["kind"] == kind and e["acc"] and not e.get("minus")), None)  # noqa: E731
    sh, wf, sw = acc("sh"), acc("wf"), acc("swap")
    rej = next((e for e in events if e["kind"] in ("sh", "wf") and not e["acc"]), None)

    def inside_end(t):
        t["new"][-1] = t["new"][-2]
    add("sh: the accepted path's last frame is inside the region", sh, inside_end, {"M_Member"})
    add("sh: accepted, but the status says rejected", sh, lambda t: t.__setitem__("status_acc", False), {"M_AccIffStatus"})
    add("sh: a jump of two lattice sites in the new path", sh, lambda t: t["new"].__setitem__(t["sidx"] - 1, t["new"][t["sidx"] - 1] + 2),
        {"M_TimeOrdered", "M_ShootingPoint", "M_Member"})
    add("sh: the shooting frame is not in the old path", sh, lambda t: t.__setitem__("spos", t["spos"] + 1), {"M_ShootingPoint"})
    add("sh: one frame too long", sh, lambda t: t.__setitem__("maxlength", len(t["new"]) - 1), {"M_Length"})
    add("sh: a forward frame marked as reversed", sh, lambda t: t["newrev"].__setitem__(len(t["newrev"]) - 1, 1), {"M_VelRev"})
    def flip_flags(t):
        t["newrev"] = [1 - x for x in t["newrev"]]
    add("wf: every frame's velocity flag flipped (a path turned around in place)", wf, flip_flags, {"M_FileOrder", "M_VelRev"})
    add("wf: the new path does not contain the segment", wf, lambda t: t.__setitem__("seg_ok", False), {"M_WfContainsSegment"})
    add("wf: the old path was changed", wf, lambda t: t.__setitem__("untouched", False), {"M_OldUntouched"})
    if pid != "C09" or sw is not None:
        add("swap: the new [0+] path starts one site off", sw, lambda t: t["new1"].__setitem__(0, t["new1"][0] - 1), {"S_Exchange", "M_TimeOrdered", "M_Member"})
        add("swap: the new [0-] path does not end with the old [0+] path's first frames", sw,
            lambda t: t["old1"].__setitem__(1, t["old1"][1] + 1), {"S_Exchange"})
    add("rejected move reported with an accepting status", rej, lambda t: t.__setitem__("path_status_acc", True), {"M_AccIffStatus"})
    if not variants:
        return
    res, bad, ok, tail = validate([v[1] for v in variants], work, f"{pid}_selftest")
    if not ok:
        chk.machinery(f"self-test: TraceMoves validation did not consume its batch:\n{tail}")
        return
    by = {}
    for idx, clause in bad:
        by.setdefault(idx, set()).add(clause)
    report = []
    for k, (name, _t, expect) in enumerate(variants):
        got = sorted(by.get(k, ()))
        if expect is None:
            if got:
                chk.machinery(f"self-test: the uncorrupted recorded move ({name}) is rejected by {got}")
            continue
        report.append({"corruption": name, "rejected_by": got})
        if not got:
            chk.machinery(f"self-test: TraceMoves.tla accepted a corrupted move ({name})")
        elif not (set(got) & expect):
            chk.machinery(f"self-test: '{name}' was rejected, but by none of the clauses that concern it ({got})")
    chk.cov["binding_selftest"] = report
    print(f"  binding self-test (TraceMoves): {len(report)} corruptions, all rejected: " + "; ".join(",".join(r["rejected_by"][:2]) for r in report), flush=True)


def replay(pid, rp, path):
    work = common.tmpdir("mvr-")
    try:
        evs = chain(tuple(rp["chain"]))
        errs = [e for e in evs if e["kind"] == "_error"]
        if errs:
            print(f"VIOLATION property={pid} replay={path}\n  {errs[0]['type']}: {errs[0]['msg']}")
            return 1
        res, bad, ok, tail = validate(evs, work, "replay")
        hit = sorted({c for _i, c in bad if c in CLAUSES[pid]})
        if hit:
            print(f"VIOLATION property={pid} replay={path}\n  clauses violated again: {hit}")
            return 1
        print("replay: holds")
        return 0
    finally:
        common.rmtree(work)
