"""C17 - exactly the requested number of moves runs; each result is consumed once."""
from harness.checks import system as S

PID = "C17"
INV = ["StepsExact", "RecordCounts", "NeverTooMany", "NoLostJob", "LockedSeqExact", "NotStuck"]


def main(tier, replay=None):
    if replay:
        import json
        from harness import common, trace
        from harness.checks import runner as R
        with open(replay) as fh:
            rp = json.load(fh)
        run = rp.get("scheduler_run") or (rp.get("run") if isinstance(rp.get("run"), dict) and "c0" in rp.get("run", {}) else None)
        if run:        # the real scheduler() under the scripted executor
            S._CTX["work"] = common.tmpdir("c17r-")
            try:
                _i, enc, problems, _spec = R._sched_job((0, run["n"], run["workers"], run["steps"], run["c0"], run["seed"], run["fail"], run.get("idle", False)))
                bad = []
                if enc:
                    out = trace.validate({(run["n"], run["workers"]): [enc]}, procs=1)
                    bad = sorted({c for _o, _n, _w, r in out for (_t, _e, c) in r["bad"] if c in S.CLAUSES[PID]})
            finally:
                common.rmtree(S._CTX["work"])
            if problems or bad:
                print(f"VIOLATION property={PID} replay={replay}\n  {problems or bad}")
                return 1
            print("replay: holds")
            return 0
        if "script" in rp:   # a Runner.tla behaviour on the bare runner
            problems = []
            for _attempt in range(5):      # thread timing decides which completions the runner sees together
                _i, problems, _out = R._runner_job((0, [tuple(a) for a in rp["script"]], rp["workers"], set(rp.get("fails", []))))
                if problems:
                    break
            if problems:
                print(f"VIOLATION property={PID} replay={replay}\n  {problems}")
                return 1
            print("replay: holds")
            return 0
        return S.replay_main(PID, replay)
    sc = S.SystemCheck(PID, tier)
    q = tier == "quick"
    for (n, w, s) in ([(3, 1, 3), (3, 2, 2), (3, 2, 4), (4, 3, 3)] if q else [(3, 1, 1), (3, 1, 4), (3, 2, 2), (3, 2, 3), (3, 2, 4), (4, 3, 3), (4, 3, 4), (4, 2, 4)]):
        S.model_check(sc.chk, sc.work, f"N{n}W{w}S{s}", {"N": n, "Workers": w, "Steps": s, "MaxPn": n + 2 * s + 2}, INV, [], timeout=3000,
                      required=("InitPick", "Complete", "Finish") + (("LoopPick",) if s > w else ()))
    S.model_check(sc.chk, sc.work, "N3W2S3_more", {"N": 3, "Workers": 2, "Steps": 3, "MaxRestarts": 1, "MoreSteps": 1, "MaxPn": 11}, INV, [],
                  required=("InitPick", "LoopPick", "Complete", "Finish", "Kill", "Restart"))
    # the weakening the repository had before 7cc4d53 (initiate() submits one job per worker whenever a step is left) must be refuted:
    # a finished run continued with one more step on two workers ends with a job in flight
    res = S.model_check(sc.chk, sc.work, "N3W2S3_overissue", {"N": 3, "Workers": 2, "Steps": 3, "MaxRestarts": 1, "MoreSteps": 1, "MaxPn": 11,
                                                              "OverIssue": True}, ["StepsExact", "NeverTooMany"], [], expect_violation=True)
    if res is not None and res["ok"]:
        sc.chk.machinery("Infretis.tla with OverIssue = TRUE is not refuted: StepsExact / NeverTooMany do not see a job left in flight")
    # the counting argument for EVERY worker count, step count and restart point: inductive invariant discharged by Apalache
    from harness import tlc
    ind = []
    for label, args, want in (("Init => IndInv", ["--cinit=ConstInit", "--init=Init", "--inv=IndInv", "--length=0"], "ok"),
                              ("IndInv /\\ Next => IndInv'", ["--cinit=ConstInit", "--init=IndInit", "--inv=IndInv", "--length=1"], "ok"),
                              ("OverIssue (code before 7cc4d53): IndInv not inductive", ["--cinit=ConstInitOld", "--init=IndInit", "--inv=IndInv", "--length=1"], "cex"),
                              ("OverIssue: StepsExact refuted from Init", ["--cinit=ConstInitOld", "--init=Init", "--inv=StepsExact", "--length=8"], "cex")):
        r = tlc.run_apalache("ApaSteps.tla", args, timeout=600)
        ind.append({"step": label, "outcome": r["outcome"], "counterexample": r["counterexample"], "wall_s": r["wall_s"]})
        if want == "ok" and r["outcome"] != "ok":
            sc.chk.machinery(f"Apalache did not discharge the inductive invariant of ApaSteps.tla ({label}): {r['outcome']}\n{r['tail']}")
        if want == "cex" and not r["counterexample"]:
            sc.chk.machinery(f"Apalache found no counterexample for the weakened ApaSteps.tla ({label}): {r['outcome']}\n{r['tail']}")
    sc.chk.cov["apalache_inductive_invariant"] = {"module": "ApaSteps.tla", "constants": "W >= 1, Steps >= C0 >= 0 (symbolic, unbounded integers)", "steps": ind}
    print(f"  Apalache, ApaSteps.tla for symbolic W, Steps, C0: {[(i['step'][:28], i['outcome']) for i in ind]}", flush=True)
    sc.replay_behaviours("N3W2S4_more", {"N": 3, "Workers": 2, "Steps": 4, "MaxPn": 14, "MaxRestarts": 2, "MoreSteps": 2}, 120 if q else 1200, 24)
    sc.replay_behaviours("N4W3S5", {"N": 4, "Workers": 3, "Steps": 5, "MaxPn": 16}, 80 if q else 1200, 20)
    sc.random_runs(S.endgame_specs(sc.chk.seed + 91, 12 if q else 90))
    from harness.checks import runner as R
    R.run(sc, tier)
    # the unmodified scheduler() with a real process pool and real moves: exact step count, every result consumed once, also when the
    # whole session is SIGKILLed and the run restarted (with more steps)
    sc.real_pool_runs(S.real_pool_specs(sc.chk.seed + 78, 10 if q else 80, kills=True, n_values=(3, 4) if q else (3, 4, 5)))
    return sc.finish("Infretis.tla behaviours (step counting, restarts with more steps) replayed on the real code; Runner.tla completion "
                     "orders replayed on the real scheduler()/aiorunner/future_list under a scripted executor; distinct by action sequence")
