"""Runner part of C17 (filled in below)."""


def run(sc, tier):
    return None
