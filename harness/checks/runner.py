"""Runner half of C17: Runner.tla model-checked, its behaviours replayed on the real
aiorunner/future_list, and the real scheduler() run under a scripted executor."""

from __future__ import annotations

import os
import random

from harness import common, scheddrv, sysdrv, tlc, trace
from harness.checks import system as S

PID = "C17"
INV = ["ExecOnce", "DeliverOnce", "NothingLost", "StepsExact", "NeverTooMany", "CleanStop"]


def _cfg(path, w, steps, c0, mayfail, live=True, cont=False, over=False):
    with open(path, "w") as fh:
        fh.write(f"SPECIFICATION {'FairSpec' if live else 'Spec'}\nCONSTANTS\n  W = {w}\n  Steps = {steps}\n  C0 = {c0}\n"
                 f"  MayFail = {'TRUE' if mayfail else 'FALSE'}\n  ContinueOnFail = {'TRUE' if cont else 'FALSE'}\n  OverIssue = {'TRUE' if over else 'FALSE'}\n")
        for i in INV:
            fh.write(f"INVARIANT {i}\n")
        if live:
            fh.write("PROPERTY Terminates\n")
        fh.write("CHECK_DEADLOCK FALSE\n")


def _m(x):
    """TLC prints a function with domain 1..n as a tuple."""
    return {i + 1: v for i, v in enumerate(x)} if isinstance(x, list) else x


def script_of(beh):
    """Runner.tla behaviour -> runner_only script; returns (script, expectations)."""
    final = beh[-1][1]
    fails = {u for u, v in _m(final["fut"]).items() if v == "exception"}
    script, done, undelivered = [], [], []
    for k in range(1, len(beh)):
        label, post = beh[k]
        pre = beh[k - 1][1]
        name, args = tlc.label_parts(label)
        if post["nsub"] > pre["nsub"]:
            if name == "Deliver":
                script.append(("deliver",))
            u = post["nsub"]
            script.append(("submit", u, u in fails))
        elif name == "Deliver":
            script.append(("deliver",))
        if name == "Done":
            u = _m(pre["running"])[args[0]]
            script.append(("finish", u))
    return script, fails


def _runner_job(args):
    idx, script, w, fails = args
    out = scheddrv.runner_only(script, w)
    problems = []
    if out["hung"]:
        problems.append("hung: the runner did not finish the behaviour and stop")
    finished = [a[1] for a in script if a[0] == "finish"]
    for u in finished:
        if out["nexec"].get(u, 0) != 1:
            problems.append(f"unit {u} executed {out['nexec'].get(u, 0)} times")
    ndel = sum(1 for a in script if a[0] == "deliver")
    got = [d for d in out["delivered"] if d is not None]
    if not out["hung"]:
        if len(got) != ndel:
            problems.append(f"{len(got)} deliveries for {ndel} as_completed calls")
        seen = set()
        for d in got:
            if d[0] == "result":
                if d[1] in seen:
                    problems.append(f"unit {d[1]} delivered twice")
                if d[1] in fails:
                    problems.append(f"unit {d[1]} failed but a result was delivered")
                seen.add(d[1])
        nexc = sum(1 for d in got if d[0] == "exception")
        exp_exc = len([u for u in finished if u in fails][:10**9])
        if nexc > exp_exc:
            problems.append(f"{nexc} exceptions delivered, {exp_exc} units failed")
        if not out["stopped"] or out.get("queue_left", 0) != 0:
            problems.append("stop() left the loop thread or the queue alive")
    problems += out["errors"]
    return idx, problems, out


def _sched_job(args):
    idx, n, w, steps, c0, seed, fail = args[:7]
    idle = len(args) > 7 and args[7]       # the finished first leg is restarted once without more steps before the real restart
    rnd = random.Random(seed)
    root = os.path.join(S._CTX["work"], f"sd{os.getpid()}")
    sysdrv.cleanup(root)
    sysdrv.build_rundir(root, n, w, c0 if c0 else steps, seed=rnd.randrange(1000))

    def outcomes(picked):
        acc = rnd.random() < 0.6
        rows = []
        for e in picked.keys():
            if e < 0:
                rows.append([1] + [0] * (n - 1))
            else:
                reach = rnd.randrange(e + 1, n)
                rows.append([0] + [1 if j <= reach else 0 for j in range(1, n)])
        return acc, rows
    order = [[rnd.randrange(w)] if rnd.random() < 0.7 else [rnd.randrange(w), 0] for _ in range(steps + 4)]
    events, problems, infos = [], [], []
    if c0:
        ev, info = scheddrv.run_scheduler(root, n, w, c0, order, outcomes)
        events += ev
        infos.append(info)
        if info["error"] or info["hung"]:
            problems.append(f"first leg: {info['error'] or 'hung'}")
    if c0 and idle:
        ev, info = scheddrv.run_scheduler(root, n, w, c0, order, outcomes, restart_steps=c0)
        events += ev
        infos.append(info)
        if info["error"] or info["hung"] or info.get("ndeliv", 0):
            problems.append(f"idle restart of the finished first leg: {info['error'] or ('hung' if info['hung'] else str(info.get('ndeliv')) + ' moves run')}")
    fail_at = [rnd.randrange(1, max(2, steps - c0))] if fail else []
    ev, info = scheddrv.run_scheduler(root, n, w, steps, order, outcomes, fail_at=fail_at, restart_steps=steps if c0 else None)
    events += ev
    infos.append(info)
    sysdrv.cleanup(root)
    todo = steps - c0
    if info["hung"]:
        problems.append("scheduler() did not return (watchdog)")
    elif info["error"]:
        problems.append(f"scheduler() raised {info['error']['type']}: {info['error']['msg']}")
    elif info.get("refused"):
        problems.append(f"refused: setup_config returned None although {todo} of the {steps} requested moves are still to do")
    elif fail:
        if not info["raised"]:
            problems.append("a task failed but scheduler() did not receive its exception")
        if info.get("stop_hung"):
            problems.append("runner.stop() hangs after a failed task")
    else:
        if info["ndeliv"] != todo:
            problems.append(f"{info['ndeliv']} results consumed for {todo} moves left to do")
        if steps >= w:          # the property's premise is on the step count, not on what a restart point leaves to do
            if info["nsubmit"] != todo or info["ndeliv"] != todo:
                problems.append(f"{info['nsubmit']} submissions and {info['ndeliv']} deliveries for {todo} requested moves")
            if sorted(info["nexec"].values()) != [1] * todo:
                problems.append(f"executions per unit {sorted(info['nexec'].values())} for {todo} moves")
        if info.get("loop_thread_alive") or info.get("queue_left"):
            problems.append("runner not shut down cleanly")
    return idx, (trace.encode_trace(events) if events and not fail else []), problems, {"n": n, "workers": w, "steps": steps, "c0": c0, "seed": seed, "fail": fail, "idle": bool(idle)}


def run(sc, tier):
    chk = sc.chk
    q = tier == "quick"
    grid = [(1, 3, 0), (2, 4, 0), (2, 4, 1), (3, 5, 2)] if q else \
        [(w, s, c) for w in (1, 2, 3, 4) for s in (2, 4, 6, 8) for c in (0, 1, 3, 7) if s - c >= 1 and s - c <= 6]
    behs_all = []
    for (w, s, c0) in grid:
        cfg = os.path.join(sc.work, f"Runner_{w}_{s}_{c0}.cfg")
        _cfg(cfg, w, s, c0, True, live=(s - c0) * w <= 12)
        try:
            res = tlc.run_tlc("Runner", cfg, timeout=1500, allow_violation=True)
        except tlc.TLCError as exc:
            chk.machinery(str(exc)[:1500])
            continue
        chk.add_tlc(res, {"W": w, "Steps": s, "C0": c0, "MayFail": True})
        if not res["ok"]:
            chk.machinery(f"TLC refuted {res['violated']} on Runner.tla W={w} Steps={s} C0={c0}")
        # the runner on its own: a delivered exception is consumed and the caller goes on
        _cfg(cfg, w, s, c0, True, live=(s - c0) * w <= 12, cont=True)
        try:
            res = tlc.run_tlc("Runner", cfg, timeout=1500, allow_violation=True)
            chk.add_tlc(res, {"W": w, "Steps": s, "C0": c0, "MayFail": True, "ContinueOnFail": True})
            if not res["ok"]:
                chk.machinery(f"TLC refuted {res['violated']} on Runner.tla (ContinueOnFail) W={w} Steps={s} C0={c0}")
        except tlc.TLCError as exc:
            chk.machinery(str(exc)[:1500])
        # behaviours for the replay
        _cfg(cfg, w, s, c0, True, live=False, cont=True)
        out = os.path.join(sc.work, f"rsim_{w}_{s}_{c0}")
        os.makedirs(out, exist_ok=True)
        num = 6 if q else 40
        tlc.run_tlc("Runner", cfg, workers=2, simulate=f"file={out}/tr,num={num}", depth=60, seed=chk.seed + 3, coverage=False,
                    timeout=600, allow_violation=True)
        for b in tlc.read_sim_traces(out):
            behs_all.append((w, b))
        common.rmtree(out)
    # the weakening the repository had before 7cc4d53 (one initial submission per worker whenever a step is left) must be refuted
    cfg = os.path.join(sc.work, "Runner_overissue.cfg")
    _cfg(cfg, 2, 5, 4, False, live=False, over=True)
    try:
        res = tlc.run_tlc("Runner", cfg, timeout=600, allow_violation=True, coverage=False)
        chk.add_tlc(res, {"W": 2, "Steps": 5, "C0": 4, "OverIssue": True, "expected": "refuted"})
        if res["ok"]:
            chk.machinery("Runner.tla with OverIssue = TRUE (more initial submissions than steps left) is not refuted: StepsExact / NeverTooMany are vacuous")
        else:
            print(f"  Runner.tla with OverIssue = TRUE refuted as expected ({res['violated']})", flush=True)
    except tlc.TLCError as exc:
        chk.machinery(str(exc)[:1500])
    jobs = []
    for i, (w, b) in enumerate(behs_all):
        script, fails = script_of(b)
        jobs.append((i, script, w, fails))
    results = common.pmap(_runner_job, jobs, chunksize=2)
    for idx, problems, out in results:
        chk.evaluated(1)
        chk.traces(1)
        chk.nontrivial(("runner", str(jobs[idx][1])))
        for p in problems:
            kind = p.split(":")[0].split(" ")[0]
            chk.violation(f"runner:{kind}", f"aiorunner/future_list: {p}",
                          {"property": PID, "binding": "B", "spec": "Runner", "script": jobs[idx][1], "workers": jobs[idx][2], "fails": sorted(jobs[idx][3]), "observed": out,
                           "clause": "ExecOnce / DeliverOnce / CleanStop"})
    if jobs:
        chk.sample({"kind": "Runner.tla behaviour replayed on the real aiorunner", "script": jobs[0][1]})
    print(f"  runner behaviours replayed: {len(jobs)}", flush=True)
    # the real scheduler() under the scripted executor
    rnd = random.Random(chk.seed + 41)
    combos = []
    for (w, s, c0) in ([(1, 4, 0), (2, 5, 0), (3, 6, 0), (2, 6, 2), (3, 7, 3), (2, 4, 0)] if q else
                       [(w, s, c) for w in (1, 2, 3) for s in (3, 5, 8) for c in (0, 1, 2, 4) if s - c >= w]):
        n = max(3, w + 1)
        combos.append((len(combos), n, w, s, c0, rnd.randrange(10 ** 6), False))
    for (w, s, c0) in ([(2, 5, 4), (3, 6, 4)] if q else [(2, 5, 4), (3, 6, 4), (3, 6, 5), (2, 3, 2)]):   # fewer moves left than workers
        combos.append((len(combos), max(3, w + 1), w, s, c0, rnd.randrange(10 ** 6), False))
    for (w, s) in ([(2, 5)] if q else [(1, 4), (2, 5), (3, 6)]):
        combos.append((len(combos), max(3, w + 1), w, s, 0, rnd.randrange(10 ** 6), True))
    for (w, s, c0) in ([(1, 5, 2), (2, 6, 3)] if q else [(1, 5, 2), (2, 6, 3), (3, 8, 4), (2, 7, 2)]):   # restart point = end of a finished run, twice
        combos.append((len(combos), max(3, w + 1), w, s, c0, rnd.randrange(10 ** 6), False, True))
    results = common.pmap(_sched_job, combos)
    groups = {}
    for idx, enc, problems, spec in results:
        chk.evaluated(1)
        chk.nontrivial(("sched", spec["workers"], spec["steps"], spec["c0"], spec["fail"], spec.get("idle")))
        for p in problems:
            chk.violation(f"scheduler:{p.split(' ')[0]}", f"scheduler() with W={spec['workers']} steps={spec['steps']} restart at {spec['c0']}: {p}",
                          {"property": PID, "binding": "B", "spec": "Runner", "run": spec, "observed": p, "clause": "StepsExact"})
        if enc:
            groups.setdefault((spec["n"], spec["workers"]), ([], []))
            groups[(spec["n"], spec["workers"])][0].append(enc)
            groups[(spec["n"], spec["workers"])][1].append({"binding": "B", "scheduler_run": spec})
    sc.validate_multi(groups)
    print(f"  scheduler() runs under the scripted executor: {len(combos)}", flush=True)
