"""Shared machinery of the system-level checks (C03 C04 C05 C06 C07 C17 ...).

Three bindings (DESIGN.md section 2):
  A  TLC model-checks Infretis.tla (Layer R) on small constants;
  B  TLC-simulated behaviours of Infretis.tla are replayed on the real
     REPEX_state/setup/storage code (forced draws, scripted move outcomes) and
  C  randomised real runs (real draws, real lattice moves through the plug-in
     engine, random completion order, kills and restarts) are recorded;
  the recorded events of B and C are validated by TLC against TraceInfretis.tla,
  which names every Layer R clause a step violates.
"""

from __future__ import annotations

import json
import os
import random
import time

from harness import common, sysdrv, sysreplay, tlc, trace

CLAUSES = {
    "C03": {"P_PinFree", "P_EnsIdle", "P_PathsIdle", "P_LocksExact", "P_Holds", "P_NonZero", "P_ZeroSwapAtomic",
            "P_Engines", "P_Folder", "P_Conserve", "C_JobMatches", "C_Unlock", "C_BusyUntouched", "C_ListedAreBusy",
            "C_LockedList", "P_LockedList"},      # `locked`, the list of jobs in flight, is part of "exactly those are marked busy"
    "C05": {"I_Fresh", "I_Diagonal", "I_CanDraw", "P_Support", "C_Sorted", "C_CanDraw", "C_Live", "C_Numbering",
            "C_NewValid", "C_MinusStays", "C_WeightsStable", "C_Record", "R_HasRecord", "R_Restore", "R_Weights",
            "R_Sorted"},
    "C04": {"C_CreditDomain", "C_CreditBusyZero", "C_CreditUnit", "C_CreditSupport", "C_Rows", "C_RecordFrac",
            "F_RecordFrac", "R_Frac"},
    "C02": {"P_UsedP", "P_UsedPOk", "C_CreditIsP"},
    "C17": {"P_StepsLeft", "P_NotTooMany", "C_StepCounter", "C_NoOverrun", "F_Done", "F_StepsExact", "F_Count", "F_Record",
            "F_Unchanged", "P_Counters", "R_Continues"},
    "C14": {"C_StoreLive", "C_StoreHasLive", "C_StoreInitial", "C_StoreLag"},
    "C07": {"P_StreamsDistinct", "P_StreamsFresh", "P_StreamFunction", "P_StreamSeed", "C_NoForeign"},
    "C06": {"P_Reissue", "P_ReissueRecorded", "P_LockedList", "C_LockedList", "R_Restore", "R_Frac", "R_Weights",
            "R_HasRecord"},
}
# where an exception raised by the real main-process code is attributed
RAISES = {
    "C03": {"lock", "unlock", "assign_engines", "pick", "pick_traj_ens", "pick_lock", "swap", "prep_md_items"},
    "C05": None,  # every exception in the main process is a stall
    "C04": {"write_to_pathens", "treat_output", "write_toml"},
    "C17": {"loop", "initiate", "scheduler", "treat_output", "prep_md_items"},
    "C06": {"set_rgen", "load_paths", "load_path", "load_paths_from_disk", "setup_config", "pick_lock", "__init__"},
    "C07": {"set_rgen", "spawn_rng"},
    "C02": {"inf_retis", "quick_prob", "permanent_prob", "find_blocks", "prob", "fast_glynn_perm"},
    "C08": None, "C14": None,
}

ALL_INVARIANTS = ["MutexEns", "MutexPath", "LocksExact", "JobHoldsItsPaths", "PickedNonZero", "EngineExclusive",
                  "ZeroSwapHoldsBoth", "LockedSeqExact", "Distinct", "MinusAtZero", "CanDraw", "CanReissue",
                  "NotStuck", "FreshNumbers", "RestartLoads", "StepsExact", "RecordCounts", "NeverTooMany",
                  "NoLostJob", "OrdinalsFresh", "OrdinalsDistinct", "WrittenOnce", "NeverWrittenWhileLive",
                  "Accounting", "RecordFracIsLive"]
ALL_PROPERTIES = ["ZeroSwapAtomic", "IdleSorted", "NumbersNeverReused"]

DEFAULTS = {"N": 3, "Workers": 2, "Steps": 3, "MoreSteps": 0, "MaxPn": 9, "WSet": "W1", "ZeroSwap": True,
            "MaxRestarts": 0, "TrackFrac": False, "EngTypes": "OneEngine", "EngNeed": "OneNeed",
            "LiteralOrd": False, "FormulaOrd": False, "VaryInit": False, "OverIssue": False, "MaxLevel": 100}


def cfg_text(consts, invariants=None, properties=None, spec="Spec"):
    c = dict(DEFAULTS)
    c.update(consts)
    lines = [f"SPECIFICATION {spec}", "CONSTANTS"]
    for k, v in c.items():
        if k in ("WSet", "EngTypes", "EngNeed"):
            lines.append(f"  {k} <- {v}")
        elif isinstance(v, bool):
            lines.append(f"  {k} = {'TRUE' if v else 'FALSE'}")
        else:
            lines.append(f"  {k} = {v}")
    lines.append("CONSTRAINT Bound")
    for inv in (ALL_INVARIANTS if invariants is None else invariants):
        lines.append(f"INVARIANT {inv}")
    for pr in (ALL_PROPERTIES if properties is None else properties):
        lines.append(f"PROPERTY {pr}")
    lines.append("CHECK_DEADLOCK FALSE")
    return "\n".join(lines) + "\n", c


def model_check(chk, work, name, consts, invariants=None, properties=None, timeout=1500, expect_violation=False,
                required=("InitPick", "LoopPick", "Complete", "Finish")):
    text, full = cfg_text(consts, invariants, properties)
    cfg = os.path.join(work, f"MC_{name}.cfg")
    with open(cfg, "w") as fh:
        fh.write(text)
    try:
        res = tlc.run_tlc("MC_Infretis", cfg, timeout=timeout, allow_violation=True, keep_output=expect_violation)
    except tlc.TLCError as exc:
        chk.machinery(f"TLC on {name}: {str(exc)[:1500]}")
        return None
    chk.add_tlc(res, {k: v for k, v in full.items()})
    if not res["ok"] and not expect_violation:
        chk.machinery(f"TLC refuted {res['violated']} on the Layer R model {name}: the specification needs attention")
    vac = tlc.vacuity(res, required)
    if vac and res["ok"]:
        chk.machinery(f"vacuous TLC run {name}: actions never taken {vac}")
    print(f"  TLC {name}: {res['distinct']} states, {res['states']} generated, depth {res['depth']}, "
          f"{res['wall_s']} s, {'ok' if res['ok'] else 'violated ' + str(res['violated'])}", flush=True)
    return res


def simulate(work, name, consts, num, depth, seed):
    """Behaviours of Infretis.tla sampled by TLC (-simulate)."""
    text, full = cfg_text(consts, invariants=[], properties=[])
    cfg = os.path.join(work, f"SIM_{name}.cfg")
    with open(cfg, "w") as fh:
        fh.write(text)
    out = os.path.join(work, f"sim_{name}")
    os.makedirs(out, exist_ok=True)
    nw = 8
    per = max(1, (num + nw - 1) // nw)
    res = tlc.run_tlc("MC_Infretis", cfg, workers=nw, simulate=f"file={out}/tr,num={per}", depth=depth, seed=seed,
                      coverage=False, timeout=1200, allow_violation=True)
    behs = tlc.read_sim_traces(out)
    common.rmtree(out)
    return behs[:num], res, full


_CTX = {}


def _replay_job(args):
    idx, steps, consts, seed = args
    rnd = random.Random(seed * 1000003 + idx)
    root = os.path.join(_CTX["work"], f"rp{os.getpid()}")
    events, info = sysreplay.replay_script(root, consts, steps, rnd)
    enc = trace.encode_trace(events) if events else []
    return idx, enc, info


def _random_job(args):
    idx, spec = args
    root = os.path.join(_CTX["work"], f"rr{os.getpid()}")
    kw = dict(spec)
    n, w = kw.pop("n"), kw.pop("workers")
    steps, seed, sched = kw.pop("steps"), kw.pop("seed"), kw.pop("sched_seed")
    if "plan" in kw:
        kw["plan"] = [tuple(x) for x in kw["plan"]]
    events, info = sysreplay.random_run(root, n, w, steps, seed, sched, **kw)
    sysreplay.sysdrv.cleanup(root)
    if any(op[0] == "renumber" for op in kw.get("plan", ())):
        # the restart file was edited between the lifetimes (live paths renumbered): what follows the restart is judged as an
        # execution of its own, starting from what that restart found on disk
        k = next((i for i, e in enumerate(events) if e["ev"] == "Restart"), None)
        events = events[k:] if k is not None else []
        if events:
            events[0]["clean"] = False
    enc = trace.encode_trace(events) if events else []
    return idx, enc, info


def _real_pool_job(args):
    idx, spec = args
    from harness import realrun
    root = os.path.join(_CTX["work"], f"rp{os.getpid()}_{idx}")
    try:
        kw = {k: spec[k] for k in ("moves", "cap", "sleep", "more", "delete_old", "delete_old_all", "turtle") if k in spec}
        res = realrun.real_run(root, spec["n"], spec["workers"], spec["steps"], spec["seed"],
                               kills=[tuple(k) for k in spec.get("kills", [])], **kw)
    except Exception as exc:  # noqa: BLE001
        import traceback
        res = {"_error": f"{type(exc).__name__}: {exc}\n{traceback.format_exc()[-800:]}"}
    finally:
        sysdrv.cleanup(root)
    return idx, res


def turtle_pool_specs(seed, count, kills=True):
    """Histories of the unmodified scheduler with the real TurtleMD engine (8 ensembles, several workers)."""
    rnd = random.Random(seed)
    specs = []
    for i in range(count):
        w = rnd.choice([2, 3, 4])
        steps = rnd.randrange(8, 16)
        sp = {"n": 8, "workers": w, "steps": steps, "seed": rnd.randrange(1, 10 ** 6), "turtle": True,
              "moves": rnd.choice([["sh"] * 8, ["sh", "sh", "wf", "wf", "wf", "wf", "wf", "wf"], ["sh", "wf", "sh", "wf", "sh", "wf", "sh", "sh"]])}
        if kills and i % 2 == 1:
            sp["kills"] = [["ev", rnd.randrange(4, 2 * steps), rnd.choice([0.0, 0.002, 0.01])]]
        if i % 3 == 0:
            sp["more"] = rnd.randrange(2, 5)
        specs.append(sp)
    return specs


def real_pool_specs(seed, count, kills=True, n_values=(3, 4), restarts_more=True):
    rnd = random.Random(seed)
    specs = []
    for i in range(count):
        n = rnd.choice(list(n_values))
        w = rnd.randrange(2, n) if n > 2 else 1
        steps = rnd.randrange(8, 20)
        sp = {"n": n, "workers": w, "steps": steps, "seed": rnd.randrange(1, 10 ** 6), "sleep": rnd.choice([0.0, 0.002, 0.01])}
        if kills and i % 2 == 1:
            nk = rnd.choice([1, 1, 2])
            sp["kills"] = [["ev", rnd.randrange(3, 2 * steps), rnd.choice([0.0, 0.001, 0.003, 0.01])] for _ in range(nk)]
        if restarts_more and i % 3 == 0:
            sp["more"] = rnd.randrange(2, 6)
        if i % 4 == 2:
            sp["moves"] = ["sh"] + [rnd.choice(["sh", "wf"]) for _ in range(n - 2)] + ["sh"]
        specs.append(sp)
    return specs


class SystemCheck:
    def __init__(self, pid, tier, level="model_checking"):
        self.pid = pid
        self.chk = common.Check(pid, tier, level)
        self.work = common.tmpdir(f"{pid.lower()}-")
        _CTX["work"] = self.work
        self.tier = tier
        self.clauses = set(CLAUSES.get(pid, ()))
        self.extra_clause_props = {}
        self.stats = {"behaviours": 0, "diverged": 0, "random_runs": 0, "events": 0, "errors": 0}

    def also(self, other_pid):
        """Also report the clauses of another property (system-level binding of it)."""
        self.clauses |= CLAUSES[other_pid]

    # -- B -------------------------------------------------------------------
    def replay_behaviours(self, name, consts, num, depth):
        chk = self.chk
        behs, res, full = simulate(self.work, name, consts, num, depth, chk.seed + 17)
        if res is not None:
            chk.cov["tlc_runs"].append({"module": "MC_Infretis", "cfg": f"simulate {name}", "constants": full,
                                        "generated": res.get("states"), "behaviours": len(behs), "wall_s": res.get("wall_s")})
            chk.cov["transitions"] += int(res.get("states") or 0)
        scripts = []
        for b in behs:
            try:
                scripts.append(sysreplay.script_of(b))
            except Exception as exc:  # noqa: BLE001
                chk.machinery(f"cannot derive a script from a TLC behaviour: {exc}")
        rc = {"N": full["N"], "Workers": full["Workers"], "Steps": full["Steps"]}
        if full["EngNeed"] == "TwoNeed":
            rc["ensemble_engines"] = [["engine0"]] + [["engine"]] * (full["N"] - 1)
            rc["extra_engines"] = ("engine0",)
        jobs = [(i, s, rc, chk.seed) for i, s in enumerate(scripts)]
        t0 = time.time()
        results = common.pmap(_replay_job, jobs, chunksize=4)
        traces, metas = [], []
        for idx, enc, info in results:
            self.stats["behaviours"] += 1
            if info["diverged"]:
                self.stats["diverged"] += 1
                key = "diverged: " + info["diverged"][:70]
                self.stats[key] = self.stats.get(key, 0) + 1
            if info["error"]:
                self.stats["errors"] += 1
                self.exception(info["error"], {"binding": "B", "spec": "Infretis", "constants": full,
                                               "behaviour": scripts[idx]})
            if enc:
                traces.append(enc)
                metas.append({"binding": "B", "spec": "Infretis", "constants": full, "behaviour": scripts[idx],
                              "run": rc, "diverged": info["diverged"]})
            chk.nontrivial(json.dumps(scripts[idx], sort_keys=True))
        if scripts:
            chk.sample({"kind": "TLC behaviour replayed on the real code", "model": name, "script": scripts[0]}, limit=3)
        self.validate((full["N"], full["Workers"]), traces, metas)
        if scripts and self.stats["diverged"] > 0.3 * max(1, self.stats["behaviours"]):
            chk.machinery(f"{self.stats['diverged']} of {self.stats['behaviours']} behaviours could not be followed by "
                          "the real code: replay coverage is too thin to trust")
        print(f"  replay {name}: {len(scripts)} behaviours, {self.stats['diverged']} diverged, {time.time() - t0:.1f} s", flush=True)

    # -- C -------------------------------------------------------------------
    def random_runs(self, specs):
        chk = self.chk
        t0 = time.time()
        results = common.pmap(_random_job, list(enumerate(specs)))
        by_key = {}
        for idx, enc, info in results:
            self.stats["random_runs"] += 1
            spec = specs[idx]
            if info["error"]:
                self.stats["errors"] += 1
                self.exception(info["error"], {"binding": "C", "run": spec})
            if enc:
                by_key.setdefault((spec["n"], spec["workers"]), []).append((enc, {"binding": "C", "run": spec}))
            chk.nontrivial("run:" + json.dumps(spec, sort_keys=True))
        if specs:
            chk.sample({"kind": "real run recorded and validated", "run": specs[0]}, limit=4)
        self.validate_multi({k: ([e for e, _ in v], [m for _, m in v]) for k, v in by_key.items()})
        print(f"  real runs: {len(specs)} runs, {time.time() - t0:.1f} s", flush=True)

    def real_pool_runs(self, specs, label="real-pool"):
        """The unmodified scheduler() with a real process pool and real moves, recorded in the main process, optionally
        SIGKILLed (whole session) after a given number of recorded events and restarted; every history is validated by
        TraceInfretis.tla.  spec: {n, workers, steps, seed, kills: [("ev", k, delay), ...], more, sleep, moves, cap}."""
        chk = self.chk
        t0 = time.time()
        results = common.pmap(_real_pool_job, list(enumerate(specs)), procs=max(1, min(6, (os.cpu_count() or 4) // 3)))
        by_key = {}
        nkilled = 0
        for idx, res in results:
            spec = specs[idx]
            self.stats["random_runs"] += 1
            if "_error" in res:
                chk.machinery(f"real-pool driver failed: {res['_error']}")
                continue
            nkilled += sum(1 for lt in res["lifetimes"] if lt["killed"])
            rp = {"binding": "C", "kind": label, "run": spec, "lifetimes": res["lifetimes"]}
            for sig, what in res["problems"]:
                rp2 = dict(rp, property=self.pid, clause=sig, observed=what)
                chk.violation(f"{label}:{sig}", f"real scheduler, real process pool ({spec}): {what}", rp2)
            if res["events"]:
                by_key.setdefault((spec["n"], spec["workers"]), []).append((trace.encode_trace(res["events"]), rp))
            chk.nontrivial(f"{label}:" + json.dumps(spec, sort_keys=True))
        if specs:
            chk.sample({"kind": "unmodified scheduler() with a real process pool, recorded and validated", "run": specs[0]}, limit=5)
        self.validate_multi({k: ([e for e, _ in v], [m for _, m in v]) for k, v in by_key.items()})
        self.stats["real_pool_runs"] = self.stats.get("real_pool_runs", 0) + len(specs)
        self.stats["real_pool_kills"] = self.stats.get("real_pool_kills", 0) + nkilled
        print(f"  real scheduler / real process pool: {len(specs)} histories, {nkilled} SIGKILLs, {time.time() - t0:.1f} s", flush=True)

    # -- verdicts --------------------------------------------------------------
    def exception(self, err, replay):
        where = err.get("where", "harness")
        fn = where.split(":")[-1]
        allowed = RAISES.get(self.pid)
        if where == "harness":
            self.chk.machinery(f"harness exception: {err}")
            return
        if allowed is None or fn in allowed:
            rp = dict(replay)
            rp.update({"property": self.pid, "clause": "the main process does not raise", "observed": err})
            self.chk.violation(f"raise:{err['type']}:{where}", f"{err['type']} in {where}: {err['msg']}", rp)

    def validate(self, key, traces, metas):
        if traces:
            self.validate_multi({key: (traces, metas)})

    def validate_multi(self, groups):
        """groups: {(n, workers): (traces, metas)}; all batches run in one pool."""
        chk = self.chk
        results = trace.validate({k: v[0] for k, v in groups.items() if v[0]})
        for offset, n, workers, r in results:
            traces, metas = groups[(n, workers)]
            chk.cov["tlc_runs"].append({"module": "TraceInfretis", "cfg": f"N={n} Workers={workers}",
                                        "generated": r["generated"], "distinct": r["states"], "wall_s": r["wall_s"],
                                        "events": r["total"]})
            chk.cov["states"] += int(r["states"] or 0)
            chk.cov["transitions"] += int(r["generated"] or 0)
            self.stats["events"] += r["total"]
            if not r["ok"]:
                chk.machinery(f"trace validation did not consume its batch ({r['consumed']}/{r['total']}):\n{r['tail']}")
                continue
            seen = set()
            for ti, ei, clause in r["bad"]:
                if clause not in self.clauses:
                    continue
                gi = offset + ti
                if (gi, clause) in seen:
                    continue
                seen.add((gi, clause))
                ev = traces[gi][ei]
                meta = dict(metas[gi])
                meta.update({"property": self.pid, "clause": clause, "event_index": ei,
                             "observed": {k: v for k, v in ev.items() if k != "st"}, "post_state": ev["st"],
                             "pre_state": traces[gi][ei - 1]["st"] if ei > 0 else None})
                kind = ev.get("kind", "")
                hist = ""
                if clause.startswith("P_Stream"):
                    # how many restarts precede the step, and did an earlier process lifetime re-issue jobs?
                    before = traces[gi][:ei]
                    rpos = [i for i, e in enumerate(before) if e["ev"] == "Restart"]
                    earlier_reissue = bool(rpos) and any(e["ev"] == "Pick" and e.get("kind") == "reissue" for e in before[:rpos[-1]])
                    hist = f";hist:r{min(len(rpos), 2)}{'+reissue' if earlier_reissue else ''}"
                chk.violation(f"clause:{clause};event:{ev['ev']}{':' + kind if kind else ''}{hist}",
                              f"step {ei} ({ev['ev']}) of a recorded execution violates {clause} of TraceInfretis.tla", meta)
        for traces, _m in groups.values():
            chk.traces(len(traces))
            chk.evaluated(sum(len(t) for t in traces))

    def finish(self, rule, explanation=None):
        common.rmtree(self.work)
        self.chk.cov["system_stats"] = self.stats
        return self.chk.finish(rule, explanation)


RENUMBER = [21, 211, 212, 213, 22, 221, 214, 215, 23, 231]     # numbers that contain one another as strings, live together


def renumbered_specs(seed, count, n_values=(4, 5, 6)):
    """Runs that are killed early and continue from a restart file whose live paths carry numbers like 21 and 211."""
    rnd = random.Random(seed)
    specs = []
    for i in range(count):
        n = n_values[i % len(n_values)]
        w = rnd.randrange(2, n)
        specs.append({"n": n, "workers": w, "steps": 24, "seed": rnd.randrange(10 ** 6), "sched_seed": rnd.randrange(10 ** 6),
                      "plan": [("kill", rnd.randrange(1, 4), rnd.random() < 0.5), ("renumber", RENUMBER), ("kill", rnd.randrange(6, 12), False)]})
    return specs


def endgame_specs(seed, count, n_values=(4, 5)):
    """Runs that are killed with fewer steps left than workers, or continued with fewer extra steps than workers: the restarted
    lifetime must not start more jobs than there are steps left (C17: a finished run leaves no job in flight)."""
    rnd = random.Random(seed)
    specs = []
    for i in range(count):
        n = n_values[i % len(n_values)]
        w = rnd.randrange(2, n)
        steps = rnd.randrange(w + 2, w + 8)
        left = rnd.randrange(1, w)
        plan = [("kill", steps - left, rnd.random() < 0.5)] if i % 3 != 2 else []
        plan.append(("more", rnd.randrange(1, w)))
        if i % 4 == 0:
            plan.append(("more", rnd.randrange(1, w + 2)))
        specs.append({"n": n, "workers": w, "steps": steps, "seed": rnd.randrange(10 ** 6), "sched_seed": rnd.randrange(10 ** 6), "plan": plan})
    return specs


def standard_random_specs(tier, seed, n_list, workers_of, steps, count, restarts=False, moves_mix=False):
    rnd = random.Random(seed * 7 + 3)
    specs = []
    for i in range(count):
        n = n_list[i % len(n_list)]
        ws = workers_of(n)
        w = ws[(i // len(n_list)) % len(ws)]
        spec = {"n": n, "workers": w, "steps": steps, "seed": rnd.randrange(10 ** 6), "sched_seed": rnd.randrange(10 ** 6)}
        if moves_mix and i % 2 == 1:
            mv = ["sh"] + [rnd.choice(["sh", "wf"]) for _ in range(n - 1)]      # wire fencing also in [0+]
            spec["moves"] = mv
            if "wf" in mv and rnd.random() < 0.5:
                # a cap that really cuts the region (excludes the lattice site below the last interface);
                # the last ensemble then shoots, so that its loaded path keeps a weight
                mv[-1] = "sh"
                spec["cap"] = n - 1.25 if n > 3 else n - 0.75
        if restarts and i % 3 != 0:
            plan = []
            left = steps
            for _ in range(rnd.randrange(1, 3)):
                k = rnd.randrange(1, max(2, left // 2))
                plan.append(("kill", k, rnd.random() < 0.5))
            if rnd.random() < 0.6:
                plan.append(("more", rnd.randrange(w, w + 6)))
            spec["plan"] = plan
        specs.append(spec)
    return specs


def replay_main(pid, path):
    """Re-execute a replay file against /repo; exit 1 iff the recorded clause fails again."""
    with open(path) as fh:
        rp = json.load(fh)
    work = common.tmpdir("replay-")
    _CTX["work"] = work
    try:
        if "presort" in rp:            # a pre-sort state of Infretis.tla handed to the real sort_trajstate
            c = rp["presort"]
            _SORT["n"] = rp["constants"]["N"]
            _n, fails = _sort_job([(tuple(c["slot"]), frozenset(c["lock"]), tuple(tuple(r) for r in c["rows"]))])
            if fails:
                print(f"VIOLATION property={pid} replay={path}\n  {[f[:2] for f in fails]}")
                return 1
            print("replay: sort_trajstate treats this state as the property demands")
            return 0
        if rp.get("kind") in ("real-pool", "sigkill"):
            # the unmodified scheduler with a real process pool: completion order and kill moments are decided by the operating
            # system, so the history is re-run a few times
            want = rp.get("clause")
            for attempt in range(3):
                _idx, res = _real_pool_job((attempt, dict(rp["run"])))
                if "_error" in res:
                    print(f"replay: the driver failed ({res['_error'][:200]})")
                    return 2
                probs = [sig for sig, _w in res["problems"]]
                bad = []
                if res["events"]:
                    key = (rp["run"]["n"], rp["run"]["workers"])
                    out = trace.validate({key: [trace.encode_trace(res["events"])]}, procs=1)
                    bad = [c for _o, _n2, _w2, r in out for (_t, _e, c) in r["bad"] if c in CLAUSES.get(pid, ())]
                if want in probs or want in bad or (probs and want not in CLAUSES.get(pid, ())):
                    print(f"VIOLATION property={pid} replay={path}\n  attempt {attempt + 1}: {probs or sorted(set(bad))}")
                    return 1
            print(f"replay: three re-runs of this history did not show {want} again")
            return 0
        if rp.get("binding") == "B":
            consts = rp.get("run") or {"N": rp["constants"]["N"], "Workers": rp["constants"]["Workers"], "Steps": rp["constants"]["Steps"]}
            for seed in range(4):   # the only free choice of a replay is the draw order inside a zero swap
                events, info = sysreplay.replay_script(os.path.join(work, "rp"), consts, rp["behaviour"], random.Random(seed))
                if info["error"] or events:
                    break
            key = (consts["N"], consts["Workers"])
        else:
            spec = dict(rp["run"])
            n, w = spec.pop("n"), spec.pop("workers")
            steps, seed, sched = spec.pop("steps"), spec.pop("seed"), spec.pop("sched_seed")
            if "plan" in spec:
                spec["plan"] = [tuple(x) for x in spec["plan"]]
            events, info = sysreplay.random_run(os.path.join(work, "rr"), n, w, steps, seed, sched, **spec)
            key = (n, w)
        if info.get("error"):
            print(f"VIOLATION property={pid} replay={path}\n  the real code raised: {info['error']}")
            return 1
        res = trace.validate({key: [trace.encode_trace(events)]}, procs=1)
        bad = [c for _o, _n, _w, r in res for (_t, _e, c) in r["bad"]]
        want = rp.get("clause")
        if want in bad or (want not in CLAUSES.get(pid, ()) and bad):
            print(f"VIOLATION property={pid} replay={path}\n  clauses violated again: {sorted(set(bad))}")
            return 1
        print(f"replay: clause {want} holds on this execution (violated clauses: {sorted(set(bad))})")
        return 0
    finally:
        common.rmtree(work)


# ---------------------------------------------------------------------------
# every reachable pre-sort state of a small model, handed to the real sort_trajstate
_SORT = {}


class _SortLoop(Exception):
    pass


def _sort_job(chunk):
    import types
    from harness.repex_util import new_state, with_ghost, locks_vec
    n = _SORT["n"]
    out = []
    for key in chunk:
        slot, lock, rows = key
        st = new_state(n, workers=max(1, min(n - 1, 2)))
        st.state = with_ghost([list(r) for r in rows])
        st._locks = locks_vec(n, lock)
        st._trajs = [types.SimpleNamespace(path_number=p) for p in slot] + [""]
        st.toinitiate = -1
        count = {"n": 0}
        real_swap = st.swap

        def swap(a, b):
            count["n"] += 1
            if count["n"] > 4 * n * n:
                raise _SortLoop()
            return real_swap(a, b)
        st.swap = swap
        fails = []
        try:
            st.sort_trajstate()
        except _SortLoop:
            fails.append(("sort:no-termination", "sort_trajstate keeps swapping (more than 4 N^2 swaps)"))
        except Exception as exc:  # noqa: BLE001
            fails.append((f"sort:raise:{type(exc).__name__}", f"sort_trajstate raised {type(exc).__name__}: {exc}"))
        if not fails:
            post = [t.path_number for t in st._trajs[:n]]
            w = st.state[:n, :n]
            wt_of = {p: list(r) for p, r in zip(slot, rows)}
            if sorted(post) != sorted(slot):
                fails.append(("sort:C_Live", f"live paths changed from {sorted(slot)} to {sorted(post)}"))
            elif any(post[e] != slot[e] for e in lock):
                fails.append(("sort:C_BusyUntouched", f"the path of a busy ensemble was moved: {slot} -> {post}, busy {sorted(lock)}"))
            elif any([float(x) for x in w[e]] != [float(x) for x in wt_of[post[e]]] for e in range(n)):
                fails.append(("sort:C_WeightsStable", "weight rows no longer travel with their paths"))
            elif any(w[e][e] == 0 for e in range(n) if e not in lock):
                fails.append(("sort:C_Sorted", f"an idle path sits in an ensemble where its weight is zero: {post}"))
            elif [int(x) for x in st._locks[:n]] != [1 if e in lock else 0 for e in range(n)]:
                fails.append(("sort:C_Unlock", "sort_trajstate changed the locks"))
        for sig, msg in fails:
            out.append((sig, msg, {"slot": list(slot), "lock": sorted(lock), "rows": [list(r) for r in rows]}))
    return len(chunk), out


def sort_cases(sc, n, k, timeout=1500):
    """Spec -> code: every case of SortCases.tla (a sorted arrangement disturbed by up to k picks, one completion, weights 1 / 2) through the
    real sort_trajstate."""
    chk = sc.chk
    cfg = os.path.join(sc.work, f"SortCases_{n}_{k}.cfg")
    with open(cfg, "w") as fh:
        fh.write(f"SPECIFICATION Spec\nCONSTANTS\n  N = {n}\n  K = {k}\nINVARIANT Sortable\nINVARIANT BusyValid\nCHECK_DEADLOCK FALSE\n")
    dot = os.path.join(sc.work, f"sortcases_{n}_{k}.dot")
    try:
        res = tlc.run_tlc("SortCases", cfg, dump=dot, timeout=timeout, allow_violation=True)
    except tlc.TLCError as exc:
        chk.machinery(str(exc)[:1000])
        return
    chk.add_tlc(res, {"N": n, "K": k})
    if not res["ok"]:
        chk.machinery(f"TLC refuted {res['violated']} on SortCases.tla")
        return
    raw, _i, _e = tlc.read_dot(dot, parse=False)
    os.remove(dot)
    keys = set()
    displaced = 0
    for txt in raw.values():
        if 'phase = "done"' not in txt:
            continue
        st = tlc.parse_state(txt)
        rows = tuple(tuple(int(st["rows"][e][j]) for j in range(n)) for e in range(n))
        lock = frozenset(int(x) for x in st["lock"])
        keys.add((tuple(20 + e for e in range(n)), lock, rows))
    for (_s, lock, rows) in keys:
        if any(rows[e][e] == 0 and e not in lock for e in range(1, n)):
            displaced += 1
    if not keys or not displaced:
        chk.machinery(f"SortCases.tla N={n} K={k}: {len(keys)} cases, {displaced} with a displaced idle path - nothing to sort")
        return
    _SORT["n"] = n
    keys = sorted(keys, key=lambda kk: (sorted(kk[1]), kk[2]))
    results = common.pmap(_sort_job, common.chunks(keys, 64))
    total = 0
    for n_done, fails in results:
        total += n_done
        for sig, msg, case in fails:
            chk.violation(sig + ";weighted", msg, {"property": sc.pid, "binding": "B", "spec": "SortCases", "constants": {"N": n, "K": k}, "presort": case,
                                                   "clause": sig, "kind": "sort-state"})
    chk.evaluated(total)
    chk.traces(total)
    for kk in keys:
        chk.nontrivial(("sortcase", str(kk)))
    print(f"  SortCases N={n} K={k}: {res['distinct']} model states, {total} cases through the real sort_trajstate ({displaced} with a displaced idle path)", flush=True)


def binding_selftest(sc):
    """Demonstrate that the trace specification is bound to what it is given: a recorded execution that TLC accepts is corrupted in
    one field at a time (a busy mark, a path number, a stream, a credited fraction, a whole event dropped as if a recorder were
    missing) and each corruption must be rejected, by a clause that fits.  A corruption that is accepted is a machinery failure."""
    import copy
    chk = sc.chk
    root = os.path.join(sc.work, "selftest")
    events, info = sysreplay.random_run(root, 4, 2, 8, 11, 5, plan=[("kill", 3, False)])
    sysdrv.cleanup(root)
    if info["error"] or not events:
        chk.machinery(f"self-test run failed: {info['error']}")
        return
    base = trace.encode_trace(events)
    picks = [i for i, e in enumerate(base) if e["ev"] == "Pick"]
    comps = [i for i, e in enumerate(base) if e["ev"] == "Complete" and e.get("acc")]
    variants = [("unchanged", base, None)]

    def variant(name, fn, expect):
        t = copy.deepcopy(base)
        fn(t)
        variants.append((name, t, expect))
    i1 = picks[1]

    def lockbit(t):
        e = next(k for k, v in enumerate(t[i1]["st"]["lock"]) if v == 0)
        t[i1]["st"]["lock"][e] = 1
    variant("a busy mark too many in the state after a pick", lockbit, {"P_Holds", "P_LocksExact", "P_Conserve", "P_ListedAreBusy", "P_LockedList"})
    variant("the pick reports another path than the one in the slot", lambda t: t[i1]["pns"].__setitem__(0, t[i1]["pns"][0] + 1), {"P_PathsIdle", "P_Holds", "P_Conserve", "P_LockedList"})
    variant("two jobs with the same move stream", lambda t: t[picks[2]]["fps"].__setitem__(0, t[picks[1]]["fps"][0]), {"P_StreamsFresh", "P_StreamsDistinct"})
    c1 = comps[0]
    variant("the new path gets another number", lambda t: t[c1]["new"].__setitem__(0, t[c1]["new"][0] + 7), {"C_Numbering", "C_Live", "C_NewValid", "C_Record"})

    def credit(t):
        row = next(r for r in t[c1]["dfrac"] if r[1] and any(r[1]))
        k = next(j for j, v in enumerate(row[1]) if v)
        row[1][k] += 250000
    variant("a quarter unit too much credited to one path", credit, {"C_CreditUnit", "C_CreditIsP", "C_RecordFrac", "C_CreditSupport"})
    variant("a Complete event missing (as if treat_output were not recorded)", lambda t: t.pop(c1), None)
    res = trace.validate({(4, 2): [v[1] for v in variants]}, procs=1)
    bad_by_trace = {}
    for offset, _n, _w, r in res:
        if not r["ok"]:
            chk.machinery(f"self-test: trace validation did not consume its batch:\n{r['tail']}")
            return
        for ti, _ei, clause in r["bad"]:
            bad_by_trace.setdefault(offset + ti, set()).add(clause)
    report = []
    for k, (name, _t, expect) in enumerate(variants):
        got = sorted(bad_by_trace.get(k, ()))
        report.append({"corruption": name, "rejected_by": got})
        if k == 0:
            if got:
                chk.machinery(f"self-test: the uncorrupted recorded execution is rejected by {got}")
        elif not got:
            chk.machinery(f"self-test: the trace specification accepted a corrupted execution ({name})")
        elif expect is not None and not (set(got) & expect):
            chk.machinery(f"self-test: '{name}' was rejected, but by none of the clauses that concern it ({got})")
    chk.cov["binding_selftest"] = report
    print("  binding self-test: " + "; ".join(f"{r['corruption']} -> {', '.join(r['rejected_by'][:3]) or 'accepted'}" for r in report[1:]), flush=True)


def liveness_check(chk, work, name, consts, timeout=1500):
    """FairSpec => Progress: under weak fairness of the picks, the completions and the finish, the run ends
    (no state constraint: a constraint could hide a cycle without progress)."""
    text, full = cfg_text(consts, invariants=[], properties=["Progress"], spec="FairSpec")
    text = text.replace("CONSTRAINT Bound\n", "")
    cfg = os.path.join(work, f"MC_{name}_live.cfg")
    with open(cfg, "w") as fh:
        fh.write(text)
    try:
        res = tlc.run_tlc("MC_Infretis", cfg, timeout=timeout, allow_violation=True, coverage=False)
    except tlc.TLCError as exc:
        chk.machinery(f"TLC (liveness) on {name}: {str(exc)[:1200]}")
        return None
    chk.add_tlc(res, dict(full, specification="FairSpec", property="Progress"))
    if not res["ok"]:
        chk.machinery(f"TLC refuted {res['violated'] or 'Progress'} under FairSpec on {name}: the Layer R model can stall")
    print(f"  TLC {name} (liveness, FairSpec => Progress): {res['distinct']} states, {res['wall_s']} s, {'ok' if res['ok'] else 'refuted'}", flush=True)
    return res


def sort_states(sc, name, consts, timeout=1500):
    """All pre-sort states reachable in a small model of Infretis.tla, each run through the real sort_trajstate."""
    chk = sc.chk
    text, full = cfg_text(consts, invariants=["NotStuck"], properties=[])
    cfg = os.path.join(sc.work, f"SORT_{name}.cfg")
    with open(cfg, "w") as fh:
        fh.write(text)
    dot = os.path.join(sc.work, f"sort_{name}.dot")
    try:
        res = tlc.run_tlc("MC_Infretis", cfg, dump=dot, timeout=timeout, allow_violation=True, coverage=False)
    except tlc.TLCError as exc:
        chk.machinery(str(exc)[:1000])
        return
    chk.add_tlc(res, full)
    keys = set()
    import re
    pat = re.compile(r"presort = (\[.*?\])\n/\\", re.S)
    raw, _i, _e = tlc.read_dot(dot, parse=False)
    os.remove(dot)
    seen_txt = set()
    for txt in raw.values():
        m = re.search(r"/\\ presort = (.*?)(?=\n/\\ |\Z)", txt, re.S)
        if not m or m.group(1).strip() == "<<>>":
            continue
        t = m.group(1).strip()
        if t in seen_txt:
            continue
        seen_txt.add(t)
        v = tlc.parse_value(t)
        n = full["N"]
        slot = tuple(v["slot"][e] for e in range(n)) if isinstance(v["slot"], dict) else tuple(v["slot"])
        rows_v = v["rows"]
        rows = tuple(tuple((rows_v[e][j] if isinstance(rows_v[e], dict) else rows_v[e][j]) for j in range(n)) for e in range(n)) \
            if isinstance(rows_v, dict) else tuple(tuple(r[j] if isinstance(r, dict) else r[j] for j in range(n)) for r in rows_v)
        keys.add((slot, frozenset(v["lock"]), rows))
    # the re-sorting depends on the support of the weights only (Arrangements in Infretis.tla): every pre-sort state is also run
    # with its non-zero weights replaced by wire-fencing-like magnitudes (heavier entries not necessarily first)
    for (slot, lock, rows) in list(keys):
        for salt in (1, 2):
            rows2 = tuple(tuple((1 + (7 * e + 3 * j + salt * (slot[e] + 2 * j)) % 4) if x else 0 for j, x in enumerate(r)) for e, r in enumerate(rows))
            keys.add((slot, lock, rows2))
    _SORT["n"] = full["N"]
    keys = sorted(keys, key=lambda k: (k[0], sorted(k[1]), k[2]))
    results = common.pmap(_sort_job, common.chunks(keys, 48))
    total = 0
    for n_done, fails in results:
        total += n_done
        for sig, msg, case in fails:
            if sig.split(":")[1] in ("C_Live", "C_BusyUntouched", "C_WeightsStable", "C_Unlock") and sc.pid not in ("C03", "C05", "C04"):
                continue
            chk.violation(sig, msg, {"property": sc.pid, "binding": "B", "spec": "Infretis", "constants": full, "presort": case,
                                     "clause": sig, "kind": "sort-state"})
    chk.evaluated(total)
    chk.traces(total)
    for k in keys[:200000]:
        chk.nontrivial(("presort", str(k)))
    if keys:
        k = keys[len(keys) // 2]
        chk.sample({"kind": "reachable pre-sort state run through the real sort_trajstate", "slot": list(k[0]), "busy": sorted(k[1]), "rows": [list(r) for r in k[2]]}, limit=8)
    print(f"  pre-sort states {name}: {res['distinct']} model states, {total} distinct pre-sort states through the real sort_trajstate", flush=True)
