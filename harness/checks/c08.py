"""C08 - a crash at any point leaves a restartable, consistent state (fault enumeration)."""
import json
import os
import random

from harness import common, crashdrv, sysdrv, trace
from harness.checks import system as S

PID = "C08"
CLAUSES = {"R_HasRecord", "R_Restore", "R_Weights", "R_Frac", "R_Sorted", "R_Distinct", "R_Numbers", "R_RowsOnce",
           "R_RowsNotLive", "P_Reissue", "P_ReissueRecorded", "C_Rows", "C_Live", "C_Numbering", "C_Record", "C_RecordFrac",
           "C_LockedList", "C_ListedAreBusy", "P_LockedList"}


def build(root, sc):
    sysdrv.cleanup(root)
    sysdrv.build_rundir(root, sc["n"], sc["workers"], sc["steps"], seed=sc["seed"], moves=sc.get("moves"), cap=sc.get("cap"),
                        delete_old=sc.get("delete_old", False), delete_old_all=sc.get("delete_old_all", False), maxlength=30)


def reference(args):
    """Crash-free run of a scenario: its effect list (kinds, roles, byte counts)."""
    sc, = args
    root = os.path.join(S._CTX["work"], f"ref{os.getpid()}")
    build(root, sc)
    evp = os.path.join(root, "events.jsonl")
    rc = crashdrv.run_child(crashdrv.lifetime, root, "infretis.toml", sc["sched_seed"], crashdrv.Interposer(), evp)
    evs = crashdrv.read_events(evp)
    eff = next((e["effects"] for e in evs if e.get("ev") == "_effects"), None)
    err = next((e for e in evs if e.get("ev") == "_error"), None)
    sysdrv.cleanup(root)
    return sc, rc, eff, err


def crash_case(args):
    """Kill at the given effect(s), restart from disk, continue to the end."""
    idx, sc, points = args       # points: [(effect index, mode, half_bytes)] one per successive lifetime
    root = os.path.join(S._CTX["work"], f"cr{os.getpid()}")
    build(root, sc)
    evp = os.path.join(root, "events.jsonl")
    res = {"idx": idx, "scenario": sc, "points": points, "lifetimes": [], "events": [], "problems": []}
    inp = "infretis.toml"
    clean = True
    for li, pt in enumerate(list(points) + [None]):
        ip = crashdrv.Interposer(crash_at=pt[0], mode=pt[1], half_bytes=pt[2]) if pt else crashdrv.Interposer()
        if os.path.exists(evp):
            os.remove(evp)
        rc = crashdrv.run_child(crashdrv.lifetime, root, inp, sc["sched_seed"] + li, ip, evp)
        evs = crashdrv.read_events(evp)
        res["lifetimes"].append(rc)
        cr = next((e for e in evs if e.get("ev") == "_crash"), None)
        if cr:
            res["last_crash"] = cr
        real = [e for e in evs if not e["ev"].startswith("_")]
        if real and real[0]["ev"] == "Restart":
            real[0]["clean"] = clean
        res["events"] += real
        err = next((e for e in evs if e.get("ev") == "_error"), None)
        if rc == crashdrv.EXIT_CRASH:
            clean = False
            if not os.path.isfile(os.path.join(root, "restart.toml")):
                res["nothing_to_restart"] = True
                break
            inp = "restart.toml"
            continue
        if rc == 3:
            res["problems"].append(("starts", "setup_config refused to restart from what is on disk (returned None)"))
        elif rc == 4:
            res["problems"].append((f"raise:{err['type']}:{err['where']}" if err else "raise",
                                    f"the restarted run raised {err['type']} in {err['where']}: {err['msg']}" if err else "the restarted run failed"))
        elif rc != 0:
            res["problems"].append(("child", f"child exit status {rc}"))
        if pt is not None and rc == 0:
            res["not_reached"] = True      # the run ended before the scripted effect
        break
    # the data file at the very end: every replaced path exactly once
    df = os.path.join(root, "infretis_data.txt")
    if os.path.isfile(df) and not res["problems"] and not res.get("nothing_to_restart"):
        pns = []
        with open(df) as fh:
            for ln in fh:
                if not ln.startswith("#") and ln.strip():
                    pns.append(int(float(ln.split("\t")[1])))
        dup = sorted({p for p in pns if pns.count(p) > 1})
        if dup:
            res["problems"].append(("rows:duplicate", f"paths {dup} appear more than once in the data file after the restarted run finished"))
    sysdrv.cleanup(root)
    return res


def main(tier, replay=None):
    if replay:
        return replay_case(replay)
    sc = S.SystemCheck(PID, tier, level="fault_enumeration")
    sc.clauses = set(CLAUSES)
    chk = sc.chk
    q = tier == "quick"
    rnd = random.Random(chk.seed + 51)
    scenarios = [{"n": 3, "workers": 1, "steps": 4, "seed": 3, "sched_seed": 1},
                 {"n": 4, "workers": 2, "steps": 5, "seed": 5, "sched_seed": 2, "delete_old": True, "delete_old_all": True}]
    if not q:
        scenarios += [{"n": 4, "workers": 3, "steps": 7, "seed": 11, "sched_seed": 3, "delete_old": True},
                      {"n": 5, "workers": 2, "steps": 8, "seed": 2, "sched_seed": 4, "moves": ["sh", "sh", "wf", "wf", "sh"], "cap": 4.25,
                       "delete_old": True, "delete_old_all": True},
                      {"n": 3, "workers": 2, "steps": 6, "seed": 8, "sched_seed": 5}]
    refs = common.pmap(reference, [(s,) for s in scenarios])
    cases = []
    for scn, rc, eff, err in refs:
        if rc != 0 or eff is None:
            chk.machinery(f"reference run of {scn} failed (rc={rc}, {err})")
            continue
        chk.sample({"scenario": scn, "effects": [f"{k}:{r}" for k, r, _b in eff][:40], "n_effects": len(eff)}, limit=2)
        pts = []
        for k, (kind, role, nbytes) in enumerate(eff):
            pts.append((k, "before", None))
            if kind.startswith("open"):
                pts.append((k, "empty", None))
                if nbytes > 1:
                    pts.append((k, "half", max(1, nbytes // 2)))
        pts.append((len(eff) - 1, "after", None))
        for p in pts:
            cases.append((len(cases), scn, [p]))
        # double crashes: a second kill in the restarted lifetime
        for _ in range(12 if q else 60):
            p1 = rnd.choice(pts)
            p2 = (rnd.randrange(0, max(1, len(eff) // 2)), rnd.choice(["before", "empty"]), None)
            cases.append((len(cases), scn, [p1, p2]))
    results = common.pmap(crash_case, cases, chunksize=2)
    groups = {}
    effect_of = {}
    for scn, rc, eff, err in refs:
        effect_of[json.dumps(scn, sort_keys=True)] = eff
    reached = 0
    for r in results:
        chk.evaluated(1)
        scn = r["scenario"]
        eff = effect_of[json.dumps(scn, sort_keys=True)]
        k, mode, _hb = r["points"][0]
        kind, role, _b = eff[k] if k < len(eff) else ("?", "?", 0)
        label = f"effect:{kind}:{role};mode:{mode}"
        if len(r["points"]) > 1:     # a chain of crashes: every one of them is named (the consequences of the first persist)
            lc = r.get("last_crash")
            label += (f"+effect:{lc['effect'][0]}:{lc['effect'][1]};mode:{lc['mode']}" if lc else "+effect:?") + ";double"
        if r.get("nothing_to_restart") or r.get("not_reached"):
            continue
        reached += 1
        chk.nontrivial((json.dumps(scn, sort_keys=True), tuple(map(tuple, r["points"]))))
        rp = {"property": PID, "binding": "B", "kind": "crash", "scenario": scn, "points": r["points"], "effect": [kind, role, mode]}
        for sig, what in r["problems"]:
            rp2 = dict(rp)
            rp2["observed"] = what
            chk.violation(f"{label};outcome:{sig}", f"killed at {label}: {what}", rp2)
        if r["events"]:
            key = (scn["n"], scn["workers"])
            groups.setdefault(key, ([], []))
            groups[key][0].append(trace.encode_trace(r["events"]))
            groups[key][1].append(dict(rp, label=label))
    # route the clause verdicts of the trace specification through the crash labels
    orig_violation = chk.violation

    def labelled(signature, what, replay):
        lab = replay.get("label", "")
        return orig_violation(f"{lab};outcome:{signature}", what, replay)
    chk.violation = labelled
    sc.validate_multi(groups)
    chk.violation = orig_violation
    chk.cov["crash_points_reached"] = reached
    chk.cov["exhaustive"] = True
    chk.assumptions += ["a crash is the death of the main process (os._exit); completed write/rename calls are assumed durable",
                        "crash points are the file-system effects of main-process code; worker-side effects are outside"]
    print(f"  crash cases: {len(cases)} ({reached} reached a restart)", flush=True)
    return sc.finish("every file-system effect index of the crash-free reference run (taken from the interposer's own numbering), in the "
                     "modes before / file created empty / file half written / after, plus sampled double crashes; a case is non-trivial "
                     "when the killed run left a restart file and the restarted run was driven to its end; distinct by (scenario, crash points)")


def replay_case(path):
    with open(path) as fh:
        rp = json.load(fh)
    work = common.tmpdir("c08r-")
    S._CTX["work"] = work
    try:
        r = crash_case((0, rp["scenario"], [tuple(p) for p in rp["points"]]))
        bad = list(r["problems"])
        if r["events"]:
            res = trace.validate({(rp["scenario"]["n"], rp["scenario"]["workers"]): [trace.encode_trace(r["events"])]}, procs=1)
            bad += [(c, c) for _o, _n, _w, x in res for (_t, _e, c) in x["bad"] if c in CLAUSES]
        if bad:
            print(f"VIOLATION property={PID} replay={path}\n  {bad[:5]}")
            return 1
        print("replay: the property holds for this crash point")
        return 0
    finally:
        common.rmtree(work)
