"""C08 - a crash at any point leaves a restartable, consistent state (fault enumeration)."""
import json
import os
import random

import re

from harness import common, crashdrv, crashtrace, sysdrv, tlc, trace
from harness.checks import system as S

PID = "C08"
CLAUSES = {"R_HasRecord", "R_Restore", "R_Weights", "R_Frac", "R_Sorted", "R_Distinct", "R_Numbers", "R_RowsOnce",
           "R_RowsNotLive", "P_Reissue", "P_ReissueRecorded", "C_Rows", "C_Live", "C_Numbering", "C_Record", "C_RecordFrac",
           "C_LockedList", "C_ListedAreBusy", "P_LockedList"}


def build(root, sc):
    sysdrv.cleanup(root)
    sysdrv.build_rundir(root, sc["n"], sc["workers"], sc["steps"], seed=sc["seed"], moves=sc.get("moves"), cap=sc.get("cap"),
                        delete_old=sc.get("delete_old", False), delete_old_all=sc.get("delete_old_all", False), maxlength=30)


def reference(args):
    """Crash-free run of a scenario: its effect list (kinds, roles, byte counts)."""
    sc, = args
    root = os.path.join(S._CTX["work"], f"ref{os.getpid()}")
    build(root, sc)
    evp = os.path.join(root, "events.jsonl")
    rc = crashdrv.run_child(crashdrv.lifetime, root, "infretis.toml", sc["sched_seed"], crashdrv.Interposer(), evp)
    evs = crashdrv.read_events(evp)
    eff = next((e["effects"] for e in evs if e.get("ev") == "_effects"), None)
    err = next((e for e in evs if e.get("ev") == "_error"), None)
    # did some completed step leave an arrangement that sort_trajstate had to change?  (a restart file written before the
    # sorting would then record an unsorted state: the scenarios are chosen so that this window exists)
    moved = 0
    real = [e for e in evs if not e["ev"].startswith("_")]
    for prev, ev in zip(real, real[1:]):
        if ev["ev"] == "Complete" and ev.get("acc"):
            naive = list(prev["st"]["slot"])
            for o, nw in zip(ev["old"], ev["new"]):
                if o in naive:
                    naive[naive.index(o)] = nw
            if naive != list(ev["st"]["slot"]):
                moved += 1
    sysdrv.cleanup(root)
    return sc, rc, eff, err, moved


def pick_scenarios(base, tries=40):
    """For every base scenario the first seed whose crash-free run contains a step that sort_trajstate rearranges."""
    cands = []
    for b in base:
        for k in range(tries):
            cands.append(dict(b, seed=b["seed"] + k))
    refs = common.pmap(reference, [(s,) for s in cands])
    out = []
    for bi, b in enumerate(base):
        mine = refs[bi * tries:(bi + 1) * tries]
        ok = [r for r in mine if r[1] == 0 and r[2] is not None]
        best = next((r for r in ok if r[4] > 0), ok[0] if ok else mine[0])
        out.append(best)
    return out


def crash_case(args):
    """Kill at the given effect(s), restart from disk, continue to the end."""
    idx, sc, points = args       # points: [(effect index, mode, half_bytes)] one per successive lifetime
    root = os.path.join(S._CTX["work"], f"cr{os.getpid()}")
    build(root, sc)
    evp = os.path.join(root, "events.jsonl")
    res = {"idx": idx, "scenario": sc, "points": points, "lifetimes": [], "events": [], "problems": [], "raw": []}
    inp = "infretis.toml"
    clean = True
    for li, pt in enumerate(list(points) + [None]):
        ip = crashdrv.Interposer(crash_at=pt[0], mode=pt[1], half_bytes=pt[2]) if pt else crashdrv.Interposer()
        if os.path.exists(evp):
            os.remove(evp)
        rc = crashdrv.run_child(crashdrv.lifetime, root, inp, sc["sched_seed"] + li, ip, evp)
        evs = crashdrv.read_events(evp)
        res["lifetimes"].append(rc)
        res["raw"].append([e for e in evs if e.get("ev") in ("_fx", "_begin", "_disk", "_crash", "_refused")])
        cr = next((e for e in evs if e.get("ev") == "_crash"), None)
        if cr:
            res["last_crash"] = cr
        real = [e for e in evs if not e["ev"].startswith("_")]
        if real and real[0]["ev"] == "Restart":
            real[0]["clean"] = clean
        res["events"] += real
        err = next((e for e in evs if e.get("ev") == "_error"), None)
        if rc == crashdrv.EXIT_CRASH:
            clean = False
            if not os.path.isfile(os.path.join(root, "restart.toml")):
                res["nothing_to_restart"] = True
                break
            inp = "restart.toml"
            continue
        if rc == 3:
            res["problems"].append(("starts", "setup_config refused to restart from what is on disk (returned None)"))
        elif rc == 4:
            res["problems"].append((f"raise:{err['type']}:{err['where']}" if err else "raise",
                                    f"the restarted run raised {err['type']} in {err['where']}: {err['msg']}" if err else "the restarted run failed"))
        elif rc != 0:
            res["problems"].append(("child", f"child exit status {rc}"))
        if pt is not None and rc == 0:
            res["not_reached"] = True      # the run ended before the scripted effect
        break
    # the data file at the very end: every replaced path exactly once
    df = os.path.join(root, "infretis_data.txt")
    if os.path.isfile(df) and not res["problems"] and not res.get("nothing_to_restart"):
        pns = []
        with open(df) as fh:
            for ln in fh:
                if not ln.startswith("#") and ln.strip():
                    pns.append(int(float(ln.split("\t")[1])))
        dup = sorted({p for p in pns if pns.count(p) > 1})
        if dup:
            res["problems"].append(("rows:duplicate", f"paths {dup} appear more than once in the data file after the restarted run finished"))
    sysdrv.cleanup(root)
    res["abstract"] = crashtrace.abstract(res.pop("raw"), sc["n"])
    return res


_BAD = re.compile(r'<<"BADCLAUSE", (\d+), "(\w+)">>')
_DONE = re.compile(r'<<"TRACE-CONSUMED", (\d+), (\d+)>>')
CRASH_CLAUSES = {"T_OrderBegin", "T_OldsLive", "T_OrderStore", "T_OrderDelete", "T_DeleteSafe", "T_OrderRow", "T_OrderTmp", "T_OrderReplace",
                 "T_Crash", "T_Startable", "T_ActiveFromRestart", "T_NextFromRestart", "T_RowsAfterRestart", "T_RowsNotLive", "T_Refused",
                 "T_OrderCheck", "T_Rows", "T_Active", "T_Next", "T_RowsOnce", "T_RestartIsMemory", "T_LiveHaveFiles", "T_KnownEvent"}
CRASH_CONSTS = {"N0": 3, "MaxPn": 7, "MaxCrashes": 2, "MaxSteps": 4, "QueueLen": 1, "Prune": "TRUE", "AtomicRestart": "TRUE", "AtomicPrune": "TRUE"}


def crash_cfg(path, consts, invariants):
    with open(path, "w") as fh:
        fh.write("SPECIFICATION Spec\nCONSTANTS\n" + "".join(f"  {k} = {v}\n" for k, v in consts.items())
                 + "".join(f"INVARIANT {i}\n" for i in invariants) + "CHECK_DEADLOCK FALSE\n")


def model_check_crash(chk, work, q):
    """Crash.tla: the protocol as the current tree has it holds for every crash point; each of the three weakenings is refuted."""
    invs = ["TypeOK", "Startable", "LiveHaveFiles", "RowsOnce", "RestartBehindDisk", "RestartIsLastStep"]
    big = dict(CRASH_CONSTS) if q else dict(CRASH_CONSTS, MaxPn=8, MaxCrashes=3, MaxSteps=5)
    runs = [("current", big, None),
            ("restart-file-rewritten-in-place", dict(CRASH_CONSTS, AtomicRestart="FALSE"), "Startable"),
            ("rows-kept-at-restart", dict(CRASH_CONSTS, Prune="FALSE"), "RowsOnce"),
            ("pruned-file-written-in-place", dict(CRASH_CONSTS, AtomicPrune="FALSE"), "RowsOnce"),
            ("immediate-delete_old", dict(CRASH_CONSTS, QueueLen=0), None)]
    leads = []
    for name, consts, expect in runs:
        cfg = os.path.join(work, f"Crash_{name}.cfg")
        crash_cfg(cfg, consts, invs)
        try:
            res = tlc.run_tlc("Crash", cfg, timeout=3000, allow_violation=True, coverage=(name == "current"))
        except tlc.TLCError as exc:
            chk.machinery(f"Crash.tla ({name}): {str(exc)[:600]}")
            continue
        chk.add_tlc(res, dict(consts, variant=name))
        if name == "current":
            if not res["ok"]:
                chk.machinery(f"TLC refuted {res['violated']} on Crash.tla with the protocol of the current tree")
            never = tlc.vacuity(res, ["AnyMove", "StorePart", "StoreDone", "Retire", "Row", "Tmp", "Replace", "CrashClean", "CrashInRow", "CrashInTmp", "Restart"])      # PruneWrite exists only without AtomicPrune
            if never:
                chk.machinery(f"Crash.tla: actions never taken: {never}")
        else:
            if res["ok"]:
                chk.machinery(f"Crash.tla ({name}): TLC found nothing, the weakened protocol was expected to be refuted")
            elif expect and expect not in str(res["violated"]):
                leads.append(f"{name}: refuted {res['violated']} (expected {expect})")
            else:
                leads.append(f"{name}: refuted {res['violated']}")
    chk.cov["layer_I_leads"] = leads


def validate_crash_traces(chk, work, results, label_of, pid=None, clauses=None):
    """Every crash case as abstract events through TraceCrash.tla (one batch)."""
    path = os.path.join(work, "crash.ndjson")
    index = []          # line -> (result idx, event idx)
    with open(path, "w") as fh:
        for ri, r in enumerate(results):
            for ei, ev in enumerate(r.get("abstract", [])):
                fh.write(json.dumps(crashtrace.normalise(ev)) + "\n")
                index.append((ri, ei))
    if not index:
        return
    cfg = os.path.join(work, "TraceCrash.cfg")
    with open(cfg, "w") as fh:
        fh.write("SPECIFICATION TSpec\nCONSTANTS\n" + "".join(f"  {k} = {v}\n" for k, v in CRASH_CONSTS.items()) + "INVARIANT Report\nCHECK_DEADLOCK FALSE\n")
    sub = os.path.join(work, "tc")
    os.makedirs(sub, exist_ok=True)
    res = tlc.run_tlc("TraceCrash", cfg, workers=1, cwd=sub, env={"TRACE_FILE": path}, coverage=False, timeout=3000, keep_output=True,
                      allow_violation=True, heap="8g")
    out = res.get("output", "")
    done = _DONE.search(out)
    if not (res["ok"] and done and int(done.group(1)) == len(index)):
        chk.machinery("TraceCrash did not consume its batch:\n" + "\n".join(out.splitlines()[-15:]))
        return
    chk.cov["states"] += int(res.get("distinct") or 0)
    chk.cov["transitions"] += int(res.get("states") or 0)
    ntr = sum(1 for r in results if r.get("abstract"))
    chk.traces(ntr)
    seen = set()
    for m in _BAD.finditer(out):
        line, clause = int(m.group(1)) - 1, m.group(2)
        if clause not in (CRASH_CLAUSES if clauses is None else clauses):
            continue
        ri, ei = index[line]
        if (ri, clause) in seen:
            continue
        seen.add((ri, clause))
        r = results[ri]
        ev = r["abstract"][ei]
        chk.violation(f"{label_of(r)};outcome:crash-model:{clause};event:{ev['a']}",
                      f"killed at {label_of(r)}: event {ei} ({ev['a']}) of the recorded effects violates {clause} of TraceCrash.tla: "
                      f"{json.dumps(ev)[:300]}",
                      {"property": pid or PID, "binding": "C", "spec": "TraceCrash", "kind": "crash", "scenario": r["scenario"], "points": r["points"],
                       "clause": clause, "event_index": ei, "abstract": r["abstract"][max(0, ei - 12): ei + 1]})
    print(f"  TraceCrash: {len(index)} recorded effects of {ntr} crash cases applied to the Crash.tla disk", flush=True)


def crash_bad_clauses(work, traces, tag="st"):
    """[abstract trace] -> (consumed?, {trace index: set of failed clauses}) through TraceCrash.tla."""
    path = os.path.join(work, f"crash_{tag}.ndjson")
    index = []
    with open(path, "w") as fh:
        for ti, tr in enumerate(traces):
            for ev in tr:
                fh.write(json.dumps(crashtrace.normalise(ev)) + "\n")
                index.append(ti)
    cfg = os.path.join(work, f"TraceCrash_{tag}.cfg")
    with open(cfg, "w") as fh:
        fh.write("SPECIFICATION TSpec\nCONSTANTS\n" + "".join(f"  {k} = {v}\n" for k, v in CRASH_CONSTS.items()) + "INVARIANT Report\nCHECK_DEADLOCK FALSE\n")
    sub = os.path.join(work, f"tc_{tag}")
    os.makedirs(sub, exist_ok=True)
    res = tlc.run_tlc("TraceCrash", cfg, workers=1, cwd=sub, env={"TRACE_FILE": path}, coverage=False, timeout=900, keep_output=True, allow_violation=True)
    out = res.get("output", "")
    done = _DONE.search(out)
    ok = bool(res["ok"] and done and int(done.group(1)) == len(index))
    bad = {}
    for m in _BAD.finditer(out):
        bad.setdefault(index[int(m.group(1)) - 1], set()).add(m.group(2))
    return ok, bad


def crash_selftest(chk, work, results):
    """The binding of TraceCrash.tla demonstrated: an accepted effect log is corrupted in one place at a time and must be rejected."""
    import copy
    base = next((r["abstract"] for r in results if r.get("abstract") and not r["problems"]
                 and sum(1 for e in r["abstract"] if e["a"] == "Restart") >= 1 and sum(1 for e in r["abstract"] if e["a"] == "Row") >= 2), None)
    if base is None:
        chk.machinery("crash self-test: no recorded crash case with a restart and two data rows")
        return
    variants = [("unchanged", base, None)]

    def variant(name, fn, expect):
        t = copy.deepcopy(base)
        fn(t)
        variants.append((name, t, expect))
    rows = [i for i, e in enumerate(base) if e["a"] == "Row"]
    rst = next(i for i, e in enumerate(base) if e["a"] == "Restart")
    variant("the data-row effect of one step missing from the log", lambda t: t.pop(rows[0]), {"T_OrderTmp", "T_Rows", "T_RowsOnce"})
    variant("the restarted program reports one row more than a restart leaves", lambda t: t[rst]["rows"].append(t[rst]["active"][0]),
            {"T_RowsAfterRestart", "T_RowsNotLive"})
    tmp = next(i for i, e in enumerate(base) if e["a"] == "Tmp" and i + 1 < len(base) and base[i + 1]["a"] == "Replace")

    def swap_tmp(t):
        t[tmp], t[tmp + 1] = t[tmp + 1], t[tmp]
    variant("restart.toml replaced before its temporary file is written", swap_tmp, {"T_OrderReplace", "T_OrderTmp"})
    chkpt = next(i for i, e in enumerate(base) if e["a"] == "Check" and e["rows"])
    variant("a completed step reports a path number as both active and written", lambda t: t[chkpt]["rows"].append(t[chkpt]["active"][0]),
            {"T_Rows", "T_RowsOnce"})
    ok, bad = crash_bad_clauses(work, [v[1] for v in variants])
    if not ok:
        chk.machinery("crash self-test: TraceCrash did not consume its batch")
        return
    report = []
    for k, (name, _t, expect) in enumerate(variants):
        got = sorted(bad.get(k, ()))
        report.append({"corruption": name, "rejected_by": got})
        if k == 0 and got:
            chk.machinery(f"crash self-test: the uncorrupted effect log is rejected by {got}")
        elif k > 0 and not got:
            chk.machinery(f"crash self-test: TraceCrash accepted a corrupted effect log ({name})")
        elif k > 0 and expect and not (set(got) & expect):
            chk.machinery(f"crash self-test: '{name}' was rejected, but by none of the clauses that concern it ({got})")
    chk.cov["binding_selftest"] = report
    print("  binding self-test (TraceCrash): " + "; ".join(f"{r['corruption']} -> {', '.join(r['rejected_by'][:3]) or 'accepted'}" for r in report[1:]), flush=True)


WEIGHT_CRASH_CLAUSES = {"T_OrderRow", "T_OrderTmp", "T_OrderReplace", "T_Rows", "T_RowsOnce", "T_RowsAfterRestart", "T_RowsNotLive"}
WEIGHT_TRACE_CLAUSES = {"R_Frac", "R_RowsOnce", "R_RowsNotLive", "C_Rows", "C_RecordFrac", "C_CreditUnit", "C_CreditSupport", "C_CreditDomain",
                        "C_CreditBusyZero", "F_RecordFrac"}


def weights_across_crashes(sc, pid, q):
    """C04 'across restarts': the main process is killed at every file-system effect that concerns the data file or the restart file
    (before it, with the file empty or half written, after it), restarted and driven to the end; the recorded effects go through
    TraceCrash.tla and the recorded events through TraceInfretis.tla, and the clauses about data rows and fractional weights are
    reported (rows written once, never for a live path, not kept beyond the restart file; the restored weights are the recorded ones;
    the credits of the redone step sum to one).  C08 enumerates all effects and all clauses; this is its projection on the weights."""
    chk = sc.chk
    scenarios = [{"n": 4, "workers": 2, "steps": 5, "seed": 5, "sched_seed": 2}] if q else \
        [{"n": 4, "workers": 2, "steps": 5, "seed": 5, "sched_seed": 2}, {"n": 4, "workers": 3, "steps": 6, "seed": 9, "sched_seed": 4},
         {"n": 3, "workers": 1, "steps": 4, "seed": 3, "sched_seed": 1}]
    refs = pick_scenarios(scenarios)
    cases, effect_of = [], {}
    for scn, rc, eff, err, _moved in refs:
        if rc != 0 or eff is None:
            chk.machinery(f"reference run of {scn} failed (rc={rc}, {err})")
            continue
        effect_of[json.dumps(scn, sort_keys=True)] = eff
        for k, (kind, role, nbytes) in enumerate(eff):
            if role not in ("infretis_data.txt", "restart.toml", "restart.toml.tmp"):
                continue
            pts = [(k, "before", None), (k + 0, "after", None)] if not kind.startswith("open") else \
                [(k, "before", None), (k, "empty", None)] + ([(k, "half", max(1, nbytes // 2))] if nbytes > 1 else [])
            for p in pts:
                if p[1] == "after" and k != len(eff) - 1:
                    p = (k + 1, "before", None)
                cases.append((len(cases), scn, [p]))
    results = common.pmap(crash_case, cases, chunksize=2)

    def label_of(r):
        eff = effect_of[json.dumps(r["scenario"], sort_keys=True)]
        k, mode, _hb = r["points"][0]
        kind, role, _b = eff[k] if k < len(eff) else ("?", "?", 0)
        return f"crash:effect:{kind}:{role};mode:{mode}"
    validate_crash_traces(chk, S._CTX["work"], results, label_of, pid=pid, clauses=WEIGHT_CRASH_CLAUSES)
    groups, reached = {}, 0
    for r in results:
        chk.evaluated(1)
        if r.get("nothing_to_restart") or r.get("not_reached"):
            continue
        reached += 1
        scn = r["scenario"]
        chk.nontrivial(("crash", json.dumps(scn, sort_keys=True), tuple(map(tuple, r["points"]))))
        rp = {"property": pid, "binding": "B", "kind": "crash", "scenario": scn, "points": r["points"], "label": label_of(r)}
        for sig, what in r["problems"]:
            chk.violation(f"{label_of(r)};outcome:{sig}", f"killed at {label_of(r)}: {what}", dict(rp, observed=what))
        if r["events"]:
            key = (scn["n"], scn["workers"])
            groups.setdefault(key, ([], []))
            groups[key][0].append(trace.encode_trace(r["events"]))
            groups[key][1].append(rp)
    orig_violation, orig_clauses = chk.violation, sc.clauses

    def labelled(signature, what, replay):
        return orig_violation(f"{replay.get('label', '')};outcome:{signature}", what, replay)
    chk.violation = labelled
    sc.clauses = set(WEIGHT_TRACE_CLAUSES)
    try:
        sc.validate_multi(groups)
    finally:
        chk.violation, sc.clauses = orig_violation, orig_clauses
    chk.cov["crash_points_on_data_and_restart_file"] = {"cases": len(cases), "reached_a_restart": reached}
    if cases and not reached:
        chk.machinery("no crash case reached a restart")
    print(f"  crashes at the effects on the data file / restart file: {len(cases)} cases, {reached} restarted and driven to the end", flush=True)


def main(tier, replay=None):
    if replay:
        return replay_case(replay)
    sc = S.SystemCheck(PID, tier, level="fault_enumeration")
    sc.clauses = set(CLAUSES)
    chk = sc.chk
    q = tier == "quick"
    rnd = random.Random(chk.seed + 51)
    scenarios = [{"n": 3, "workers": 1, "steps": 4, "seed": 3, "sched_seed": 1},
                 {"n": 4, "workers": 2, "steps": 5, "seed": 5, "sched_seed": 2, "delete_old": True, "delete_old_all": True}]
    if not q:
        scenarios += [{"n": 4, "workers": 3, "steps": 7, "seed": 11, "sched_seed": 3, "delete_old": True},
                      {"n": 5, "workers": 2, "steps": 8, "seed": 2, "sched_seed": 4, "moves": ["sh", "sh", "wf", "wf", "sh"], "cap": 4.25,
                       "delete_old": True, "delete_old_all": True},
                      {"n": 3, "workers": 2, "steps": 6, "seed": 8, "sched_seed": 5}]
    model_check_crash(chk, S._CTX["work"], q)
    refs = pick_scenarios(scenarios)
    chk.cov["scenarios_with_a_rearranging_step"] = sum(1 for r in refs if r[4] > 0)
    cases = []
    for scn, rc, eff, err, _moved in refs:
        if rc != 0 or eff is None:
            chk.machinery(f"reference run of {scn} failed (rc={rc}, {err})")
            continue
        chk.sample({"scenario": scn, "effects": [f"{k}:{r}" for k, r, _b in eff][:40], "n_effects": len(eff)}, limit=2)
        pts = []
        for k, (kind, role, nbytes) in enumerate(eff):
            pts.append((k, "before", None))
            if kind.startswith("open"):
                pts.append((k, "empty", None))
                if nbytes > 1:
                    pts.append((k, "half", max(1, nbytes // 2)))
        pts.append((len(eff) - 1, "after", None))
        for p in pts:
            cases.append((len(cases), scn, [p]))
        # double crashes: a second kill in the restarted lifetime
        for _ in range(12 if q else 60):
            p1 = rnd.choice(pts)
            p2 = (rnd.randrange(0, max(1, len(eff) // 2)), rnd.choice(["before", "empty"]), None)
            cases.append((len(cases), scn, [p1, p2]))
        # crashes during the recovery itself: the first kill leaves a data row that is newer than the restart file (so the
        # restart has something to prune), the second kill falls on one of the first effects of the restarted lifetime
        window = [p for p in pts if (eff[p[0]][1] == "infretis_data.txt" and eff[p[0]][0] == "open:a" and p[1] in ("half", "after"))
                  or (eff[p[0]][1] == "restart.toml.tmp") or (eff[p[0]][1] == "restart.toml" and eff[p[0]][0] == "replace" and p[1] == "before")]
        window = [p for p in window if any(e[1] == "infretis_data.txt" and e[0] == "open:a" for e in eff[max(0, p[0] - 2):p[0] + 1])]
        rnd.shuffle(window)
        for p1 in window[:(6 if q else 40)]:
            for p2 in ((0, "before", None), (0, "empty", None), (0, "half", 40), (0, "after", None), (1, "before", None), (1, "after", None)):
                cases.append((len(cases), scn, [p1, p2]))
    results = common.pmap(crash_case, cases, chunksize=2)
    groups = {}
    effect_of = {}
    for scn, rc, eff, err, _moved in refs:
        effect_of[json.dumps(scn, sort_keys=True)] = eff
    reached = 0

    def label_of(r):
        eff = effect_of[json.dumps(r["scenario"], sort_keys=True)]
        k, mode, _hb = r["points"][0]
        kind, role, _b = eff[k] if k < len(eff) else ("?", "?", 0)
        lab = f"effect:{kind}:{role};mode:{mode}"
        if len(r["points"]) > 1:
            lc = r.get("last_crash")
            lab += (f"+effect:{lc['effect'][0]}:{lc['effect'][1]};mode:{lc['mode']}" if lc else "+effect:?") + ";double"
        return lab
    validate_crash_traces(chk, S._CTX["work"], results, label_of)
    crash_selftest(chk, S._CTX["work"], results)
    for r in results:
        chk.evaluated(1)
        scn = r["scenario"]
        eff = effect_of[json.dumps(scn, sort_keys=True)]
        k, mode, _hb = r["points"][0]
        kind, role, _b = eff[k] if k < len(eff) else ("?", "?", 0)
        label = f"effect:{kind}:{role};mode:{mode}"
        if len(r["points"]) > 1:     # a chain of crashes: every one of them is named (the consequences of the first persist)
            lc = r.get("last_crash")
            label += (f"+effect:{lc['effect'][0]}:{lc['effect'][1]};mode:{lc['mode']}" if lc else "+effect:?") + ";double"
        if r.get("nothing_to_restart") or r.get("not_reached"):
            continue
        reached += 1
        chk.nontrivial((json.dumps(scn, sort_keys=True), tuple(map(tuple, r["points"]))))
        rp = {"property": PID, "binding": "B", "kind": "crash", "scenario": scn, "points": r["points"], "effect": [kind, role, mode]}
        for sig, what in r["problems"]:
            rp2 = dict(rp)
            rp2["observed"] = what
            chk.violation(f"{label};outcome:{sig}", f"killed at {label}: {what}", rp2)
        if r["events"]:
            key = (scn["n"], scn["workers"])
            groups.setdefault(key, ([], []))
            groups[key][0].append(trace.encode_trace(r["events"]))
            groups[key][1].append(dict(rp, label=label))
    # route the clause verdicts of the trace specification through the crash labels
    orig_violation = chk.violation

    def labelled(signature, what, replay):
        lab = replay.get("label", "")
        return orig_violation(f"{lab};outcome:{signature}", what, replay)
    chk.violation = labelled
    sc.validate_multi(groups)
    chk.violation = orig_violation
    # SIGKILL of the whole session (main process and pool workers, at an arbitrary moment, also inside a worker's move) of the
    # unmodified scheduler() with a real process pool; restarted by the real scheduler()
    specs = [sp for sp in S.real_pool_specs(chk.seed + 79, 16 if q else 120, kills=True, n_values=(3, 4)) if sp.get("kills")]
    for i, sp in enumerate(specs):
        if i % 2 == 0:
            sp["delete_old"] = True
    sc.real_pool_runs(specs, label="sigkill")
    chk.cov["crash_points_reached"] = reached
    chk.cov["exhaustive"] = True
    chk.assumptions += ["a crash is the death of the main process (os._exit); completed write/rename calls are assumed durable",
                        "crash points are the file-system effects of main-process code; worker-side effects are outside"]
    print(f"  crash cases: {len(cases)} ({reached} reached a restart)", flush=True)
    return sc.finish("every file-system effect index of the crash-free reference run (taken from the interposer's own numbering), in the "
                     "modes before / file created empty / file half written / after, plus sampled double crashes; a case is non-trivial "
                     "when the killed run left a restart file and the restarted run was driven to its end; distinct by (scenario, crash points)")


def replay_case(path, pid=None):
    with open(path) as fh:
        rp = json.load(fh)
    PID = pid or globals()["PID"]
    work = common.tmpdir("c08r-")
    S._CTX["work"] = work
    try:
        if rp.get("kind") == "sigkill":
            from harness.checks import system as S2
            common.rmtree(work)
            return S2.replay_main(PID, path)
        r = crash_case((0, rp["scenario"], [tuple(p) for p in rp["points"]]))
        bad = list(r["problems"])
        if rp.get("spec") == "TraceCrash":
            chk = common.Check(PID, "quick", "fault_enumeration")
            before = len(chk.violations) if hasattr(chk.violations, "__len__") else chk.violations
            validate_crash_traces(chk, work, [r], lambda _r: "replay", pid=PID, clauses=WEIGHT_CRASH_CLAUSES if pid else None)
            after = len(chk.violations) if hasattr(chk.violations, "__len__") else chk.violations
            if after != before:
                bad.append(("crash-model", rp.get("clause")))
        if r["events"]:
            res = trace.validate({(rp["scenario"]["n"], rp["scenario"]["workers"]): [trace.encode_trace(r["events"])]}, procs=1)
            bad += [(c, c) for _o, _n, _w, x in res for (_t, _e, c) in x["bad"] if c in (WEIGHT_TRACE_CLAUSES if pid else CLAUSES)]
        if bad:
            print(f"VIOLATION property={PID} replay={path}\n  {bad[:5]}")
            return 1
        print("replay: the property holds for this crash point")
        return 0
    finally:
        common.rmtree(work)
