"""Shared plumbing of the checks: evidence files, VIOLATION lines, replay files,
known findings, seeds, scratch directories, parallel map."""

from __future__ import annotations

import hashlib
import importlib.util  # noqa: F401  (infretis.classes.engines.factory relies on it being imported)
import json
import os
import shutil
import sys
import tempfile
import time
import traceback

ROOT = os.path.dirname(os.path.dirname(os.path.abspath(__file__)))
REPO = os.environ.get("VERIF_REPO", "/repo")
EVIDENCE_DIR = os.environ.get("VERIF_EVIDENCE_DIR", os.path.join(ROOT, "evidence"))
REPLAY_DIR = os.environ.get("VERIF_REPLAY_DIR", os.path.join(ROOT, "replays"))
KNOWN = os.path.join(ROOT, "KNOWN_FINDINGS.json")

LEVELS = ("exploration", "fault_enumeration", "model_checking", "proof", "translation_validation", "other")


def seed():
    try:
        return int(os.environ.get("VERIF_SEED", "0"))
    except ValueError:
        return 0


def tmpdir(prefix="verif-"):
    return tempfile.mkdtemp(prefix=prefix, dir=os.environ.get("VERIF_TMP", "/tmp"))


class Check:
    """Book-keeping of one run of one property's check."""

    def __init__(self, pid, tier, level="model_checking"):
        assert level in LEVELS
        self.pid, self.tier, self.level = pid, tier, level
        self.t0 = time.time()
        self.seed = seed()
        self.violations = []          # (signature, what, replay path)
        self.known_hits = {}          # signature -> what
        self.cov = {"states": 0, "transitions": 0, "traces_validated_against_impl": 0, "samples": [],
                    "evaluations": 0, "distinct_nontrivial": 0, "rule": "", "tlc_runs": [],
                    "exhaustive": False}
        self.assumptions = []
        self._nontrivial = set()
        self._known = _load_known(pid)
        self.machinery_errors = []

    # -- coverage accounting -------------------------------------------------
    def add_tlc(self, res, constants=None):
        self.cov["states"] += int(res.get("distinct", 0) or res.get("states", 0))
        self.cov["transitions"] += int(res.get("states", 0))
        self.cov["tlc_runs"].append({
            "module": res.get("module"), "cfg": res.get("cfg"), "constants": constants or {},
            "generated": res.get("states"), "distinct": res.get("distinct"), "depth": res.get("depth"),
            "wall_s": res.get("wall_s"),
            "actions": {k: list(v) for k, v in res.get("actions", {}).items()
                        if k not in ("Init", "Next") and not k.islower()},
        })

    def sample(self, obj, limit=6):
        if len(self.cov["samples"]) < limit:
            self.cov["samples"].append(obj)

    def evaluated(self, n=1):
        self.cov["evaluations"] += n

    def nontrivial(self, key):
        """Count a case as distinct and non-trivial (by the check's stated rule)."""
        self._nontrivial.add(key if isinstance(key, (str, int, tuple)) else json.dumps(key, sort_keys=True, default=str))

    def traces(self, n=1):
        self.cov["traces_validated_against_impl"] += n

    # -- verdicts --------------------------------------------------------------
    def violation(self, signature, what, replay):
        """Report a violation of the property observed on the real code.

        signature identifies the failing input / call site / history class and is
        matched against KNOWN_FINDINGS.json; replay is a JSON-serialisable object
        that re-creates the failure."""
        for k in self._known:
            if _sig_match(k["signature"], signature):
                if k["signature"] not in self.known_hits:
                    self.known_hits[k["signature"]] = k["what"]
                return False
        if len(self.violations) >= 25:
            self.violations.append((signature, what, None))
            return True
        path = write_replay(self.pid, replay)
        self.violations.append((signature, what, path))
        print(f"VIOLATION property={self.pid} replay={path}", flush=True)
        print(f"  what: {what}\n  signature: {signature}", flush=True)
        return True

    def machinery(self, msg):
        self.machinery_errors.append(msg)
        print(f"MACHINERY-FAILURE property={self.pid}: {msg}", file=sys.stderr, flush=True)

    def finish(self, rule, explanation=None, extra=None):
        for sig, what in sorted(self.known_hits.items()):
            print(f"KNOWN-FINDING: property={self.pid} {what} [{sig}]", flush=True)
        self.cov["distinct_nontrivial"] = len(self._nontrivial)
        self.cov["rule"] = rule
        if explanation:
            self.cov["explanation"] = explanation
        self.cov["known_findings_printed"] = sorted(self.known_hits)
        if extra:
            self.cov.update(extra)
        if not self.cov["samples"]:
            self.cov["samples"] = ["(no sample recorded)"]
        ev = {
            "property_id": self.pid, "tier": self.tier, "seed": self.seed, "level": self.level,
            "coverage": self.cov, "assumptions": self.assumptions,
            "wall_s": round(time.time() - self.t0, 2), "violations": len(self.violations),
        }
        if self.machinery_errors:
            ev["coverage"]["machinery_errors"] = self.machinery_errors[:10]
        os.makedirs(EVIDENCE_DIR, exist_ok=True)
        tmp = os.path.join(EVIDENCE_DIR, f".{self.pid}.json.tmp")
        with open(tmp, "w") as fh:
            json.dump(ev, fh, indent=1, default=_jd)
        os.replace(tmp, os.path.join(EVIDENCE_DIR, f"{self.pid}.json"))
        if self.violations:
            counts = {}
            for sig, _w, _p in self.violations:
                counts[sig] = counts.get(sig, 0) + 1
            for sig, c in sorted(counts.items(), key=lambda kv: -kv[1])[:40]:
                print(f"  {c:5d} x {sig}", flush=True)
            print(f"{self.pid}: {len(self.violations)} violation(s)", flush=True)
            return 1
        if self.machinery_errors:
            return 2
        print(f"{self.pid}: held on everything explored ({self.cov['evaluations']} evaluations, "
              f"{self.cov['states']} TLC states, {self.cov['traces_validated_against_impl']} traces/behaviours bound to the code, "
              f"{round(time.time() - self.t0, 1)} s)", flush=True)
        return 0


def _jd(o):
    try:
        import numpy as np
        if isinstance(o, (np.integer,)):
            return int(o)
        if isinstance(o, (np.floating,)):
            return float(o)
        if isinstance(o, np.ndarray):
            return o.tolist()
    except Exception:  # pragma: no cover
        pass
    if isinstance(o, (set, frozenset)):
        return sorted(o, key=str)
    if isinstance(o, bytes):
        return o.hex()
    return str(o)


def write_replay(pid, obj):
    d = os.path.join(REPLAY_DIR, pid)
    os.makedirs(d, exist_ok=True)
    txt = json.dumps(obj, indent=1, sort_keys=True, default=_jd)
    name = hashlib.sha1(txt.encode()).hexdigest()[:16] + ".json"
    path = os.path.join(d, name)
    with open(path, "w") as fh:
        fh.write(txt)
    return path


def _load_known(pid):
    try:
        with open(KNOWN) as fh:
            data = json.load(fh)
    except FileNotFoundError:
        return []
    return [k for k in data.get("open", []) if k.get("property") == pid]


def _sig_match(pattern, sig):
    """Known-finding signatures are exact strings or shell-style globs ('*' matches any run of characters)."""
    import fnmatch
    return fnmatch.fnmatchcase(sig, pattern)


def pmap(fn, items, procs=None, chunksize=1):
    """Parallel map over forked workers (results in input order)."""
    import multiprocessing as mp
    procs = procs or min(16, os.cpu_count() or 1)
    items = list(items)
    if procs <= 1 or len(items) <= 1:
        return [fn(x) for x in items]
    ctx = mp.get_context("fork")
    with ctx.Pool(procs) as pool:
        return pool.map(fn, items, chunksize=chunksize)


def chunks(seq, n):
    seq = list(seq)
    k = max(1, (len(seq) + n - 1) // n)
    return [seq[i:i + k] for i in range(0, len(seq), k)]


def run_main(fn):
    """Wrap a check's main so that an unexpected exception is exit code 2."""
    try:
        rc = fn()
    except SystemExit:
        raise
    except BaseException:  # noqa: BLE001
        traceback.print_exc()
        print("MACHINERY-FAILURE: unexpected exception in the harness", file=sys.stderr)
        rc = 2
    sys.exit(rc)


def rmtree(p):
    shutil.rmtree(p, ignore_errors=True)
