"""From the interposer's per-effect log of one crash case (several process lifetimes) to the abstract
events of Crash.tla, for validation by TraceCrash.tla.

Abstract events (one JSON object per line; `t` is the trace number inside a batch):
  Init     n0                      a fresh run directory: paths 0..n0-1 live and stored
  Begin    olds acc                treat_output starts on a finished job
  Store    p last                  one effect of PathStorage.output on load_dir/<p>/ (last: the path is complete)
  Delete   p                       delete_old removes files of stored path p
  Row                              the append to the data file
  Tmp / Replace                    restart.toml.tmp written / moved over restart.toml
  Crash    torn                    the process dies; torn in {"none", "row", "tmp", "store"}: what the dying effect left behind
  Restart  rows active next        a new lifetime has started from the disk; what it sees
  Check    rows active next        after a completed step: what is on disk and in memory
"""

from __future__ import annotations

STORE_ROLES = ("pathdir", "accepted/", "accepted/file", "order.txt", "energy.txt", "traj.txt")


def classify(fx):
    kind, role = fx["kind"], fx["role"]
    if role == "infretis_data.txt":
        # open:w: the header of a fresh run, or the rewritten copy made by prune_data_file (moved over the data file by a
        # replace): both are silent for the model - what a restart leaves in the data file is observed by the Restart event
        return "Row" if kind == "open:a" else ("Header" if kind == "open:w" else None)
    if role == "restart.toml.tmp" and kind.startswith("open"):
        return "Tmp"
    if role == "restart.toml" and kind == "replace":
        return "Replace"
    if role == "restart.toml" and kind.startswith("open"):
        return "TmpInPlace"
    if kind in ("remove", "rmdir") and fx.get("pn") is not None:
        return "Delete"
    if role in STORE_ROLES and fx.get("pn") is not None and kind in ("mkdir", "open:w", "move", "rename"):
        return "Store"
    return None


def abstract(lifetimes, n0):
    """lifetimes: list of event lists (crashdrv.read_events) in order.  Returns the abstract event list."""
    out = [{"a": "Init", "n0": n0}]
    for li, evs in enumerate(lifetimes):
        fxs = [e for e in evs if e.get("ev") == "_fx"]
        crash = next((e for e in evs if e.get("ev") == "_crash"), None)
        crash_k = None
        if crash is not None and fxs:
            crash_k = fxs[-1]["k"]          # the effect being executed when the process died is the last one logged
        if li > 0:
            disk = next((e for e in evs if e.get("ev") == "_disk" and e.get("at") == "start"), None)
            if any(e.get("ev") == "_refused" for e in evs):
                out.append({"a": "Refused"})
                break
            if disk is None:
                # died (or failed) while restarting: the program was never up, the disk is what the crash before left
                # (setup writes nothing but the atomically replaced, pruned data file)
                if crash is None:
                    break
                continue
            else:
                out.append({"a": "Restart", "rows": disk["rows"], "active": disk["active"], "next": disk["next"]})
        # walk the lines in order
        seq = [e for e in evs if e.get("ev") in ("_fx", "_begin", "_disk")]
        # within one treat_output a stored path that receives store-type effects is a new path: removals inside its
        # directory are the overwriting of a stale directory (a number re-used after a rollback), not delete_old
        step, stepno, new_in_step = {}, 0, {}
        for i, e in enumerate(seq):
            if e["ev"] == "_begin":
                stepno += 1
            step[i] = stepno
            if e["ev"] == "_fx" and classify(e) == "Store":
                new_in_step.setdefault(stepno, set()).add(e["pn"])

        def kind_of(i):
            e = seq[i]
            c = classify(e)
            if c == "Delete" and e["pn"] in new_in_step.get(step[i], ()):
                return "Store"
            return c
        for i, e in enumerate(seq):
            if e["ev"] == "_begin":
                out.append({"a": "Begin", "olds": e["olds"], "acc": bool(e["acc"])})
                continue
            if e["ev"] == "_disk":
                if e["at"] == "complete":
                    out.append({"a": "Check", "rows": e["rows"], "active": e["active"], "next": e["next"]})
                continue
            what = kind_of(i)
            dying = crash is not None and e["k"] == crash_k
            mode = crash["mode"] if dying else None
            if what is None or what == "Header":
                if dying:
                    out.append({"a": "Crash", "torn": "none"})
                continue
            if dying and (mode == "before" or (mode in ("empty", "half") and not e["kind"].startswith("open"))):
                out.append({"a": "Crash", "torn": "none"})      # not done at all (only an open can leave an empty or cut-off file)
                continue
            if what == "Store":
                # the last store effect of this path: the next effect belongs to something else
                later = [j for j in range(i + 1, len(seq)) if seq[j]["ev"] == "_fx" and step[j] == step[i]]
                more = any(kind_of(j) == "Store" and seq[j].get("pn") == e["pn"] for j in later)
                last = bool(later) and not more        # nothing after it at all: the process died here, completeness unknown
                if dying and mode in ("empty", "half"):
                    out.append({"a": "Store", "p": e["pn"], "last": False})
                    out.append({"a": "Crash", "torn": "none"})
                    continue
                out.append({"a": "Store", "p": e["pn"], "last": bool(last)})
            elif what == "Delete":
                out.append({"a": "Delete", "p": e["pn"]})
            elif what == "Row":
                if dying and mode == "empty":
                    out.append({"a": "Crash", "torn": "none"})
                    continue
                if dying and mode == "half":
                    out.append({"a": "Crash", "torn": "row"})
                    continue
                out.append({"a": "Row"})
            elif what in ("Tmp", "TmpInPlace"):
                if dying and mode in ("empty", "half"):
                    out.append({"a": "Crash", "torn": "tmp"})
                    continue
                out.append({"a": "Tmp"})
            elif what == "Replace":
                out.append({"a": "Replace"})
            if dying:      # mode "after"
                out.append({"a": "Crash", "torn": "none"})
        if crash is not None and crash_k is None:
            out.append({"a": "Crash", "torn": "none"})
    return out


def normalise(ev):
    """Every event carries every field (TLC records are accessed by name)."""
    base = {"a": "", "n0": 0, "olds": [], "acc": False, "p": -1, "last": False, "torn": "none", "rows": [], "active": [], "next": 0}
    base.update(ev)
    return base
