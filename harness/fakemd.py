"""Impersonations of the external MD programs at the level the engines see them: the
input files they are handed, the output files they grow while infretis polls, and their
process status.  Each fake program is a tiny *time-reversible* integrator (two atoms,
uniformly accelerated relative motion along x), so that

  * it starts from the configuration and the velocities the engine really handed over
    (a missing or doubled velocity reversal sends it the wrong way),
  * running it backward from a frame retraces the forward trajectory exactly,
  * the box is a function of the configuration (LAMMPS, GROMACS) and changes every frame.

Output timing is scripted: `batches[i]` half-frames are appended before the i-th look of
the engine (the fake advances whenever the engine sleeps), the program exits with
`exit_code` once everything is written, or dies with code 1 after `crash_after` frames.

All file formats are parsed and written here, independently of infretis' own readers.
"""

from __future__ import annotations

import json
import os
import re
import struct

import numpy as np

from harness import writers

G = 0.2        # relative acceleration (atom 1, x) per unit time
H = 0.1        # time per MD step
CVEL = 0.5     # weight of the relative velocity in the order parameter


def md_step(pos, vel):
    acc = np.zeros_like(pos)
    acc[1, 0] = G
    return pos + vel * H + 0.5 * acc * H * H, vel + acc * H


def box_of(pos, kind, box0):
    if kind == "cp2k":
        return np.array(box0, dtype=float)          # CP2K: no box is read back, it is constant
    s = pos[1, 0] - pos[0, 0]
    L = 8.0 + 0.5 * s
    return np.array([L, L, L])


def order_of(pos, vel, box, vel_rev):
    """The order parameter of a frame from its own coordinates, box and velocity direction."""
    sgn = -1.0 if vel_rev else 1.0
    s = pos[1][0] - pos[0][0]
    return 10.0 * s / float(box[0]) + CVEL * sgn * (vel[1][0] - vel[0][0])


def trajectory(pos, vel, kind, box0, nframes, subcycles):
    """Frames 0..nframes-1 as the program writes them (every `subcycles` steps)."""
    out = []
    pos, vel = np.array(pos, dtype=float), np.array(vel, dtype=float)
    for _k in range(nframes):
        out.append((pos.copy(), vel.copy(), box_of(pos, kind, box0)))
        for _s in range(subcycles):
            pos, vel = md_step(pos, vel)
    return out


class BoxVelOrder:
    """Order parameter plug-in used with the fake programs (positions, box and velocities)."""

    def __init__(self):
        self.description = "harness: 10*s/L + c*(relative velocity)"
        self.velocity_dependent = True
        self.index = (0, 1)

    def calculate(self, system):
        pos, vel, box = np.asarray(system.pos), np.asarray(system.vel), np.asarray(system.box).reshape(-1)
        return [10.0 * (pos[1][0] - pos[0][0]) / float(box[0]) + CVEL * (vel[1][0] - vel[0][0])]


# --------------------------------------------------------------------------- independent parsers
def parse_lammpstrj(data):
    """All complete frames of a LAMMPS custom dump: [(pos, vel, box_lengths, box_lo)]."""
    lines = data.decode().split("\n")
    frames, i = [], 0
    while i < len(lines):
        if lines[i].startswith("ITEM: TIMESTEP"):
            try:
                n = int(lines[i + 3])
                bounds = [tuple(float(x) for x in lines[i + 5 + d].split()[:2]) for d in range(3)]
                cols = lines[i + 8].split()[2:]
                rows = [lines[i + 9 + a].split() for a in range(n)]
                if any(len(r) < len(cols) for r in rows):
                    break
            except (IndexError, ValueError):
                break
            ix = {c: k for k, c in enumerate(cols)}
            rows.sort(key=lambda r: int(r[ix["id"]]))
            pos = np.array([[float(r[ix[c]]) for c in ("x", "y", "z")] for r in rows])
            vel = np.array([[float(r[ix[c]]) for c in ("vx", "vy", "vz")] for r in rows])
            lo = np.array([b[0] for b in bounds])
            frames.append((pos - lo, vel, np.array([b[1] - b[0] for b in bounds]), lo))
            i += 9 + n
        else:
            i += 1
    return frames


def parse_xyz(data):
    """Frames of an xyz file (3 or 6 value columns; `Box:` in the comment line if present)."""
    lines = data.decode().split("\n")
    frames, i = [], 0
    while i < len(lines) and lines[i].strip():
        n = int(lines[i])
        comment = lines[i + 1]
        m = re.search(r"[Bb]ox:\s*(.*)$", comment)
        box = np.array([float(x) for x in m.group(1).split()]) if m else None
        rows = [lines[i + 2 + a].split() for a in range(n)]
        pos = np.array([[float(x) for x in r[1:4]] for r in rows])
        vel = np.array([[float(x) for x in r[4:7]] for r in rows]) if all(len(r) >= 7 for r in rows) else np.zeros_like(pos)
        frames.append((pos, vel, box, [r[0] for r in rows]))
        i += 2 + n
    return frames


def parse_g96(text):
    sec, out = None, {"POSITION": [], "VELOCITY": [], "BOX": []}
    for ln in text.split("\n"):
        s = ln.strip()
        if s in ("TITLE", "POSITION", "VELOCITY", "BOX"):
            sec = s
        elif s == "END":
            sec = None
        elif sec in ("POSITION", "VELOCITY"):
            out[sec].append([float(ln[24 + 15 * k: 39 + 15 * k]) for k in range(3)])
        elif sec == "BOX":
            out["BOX"] = [float(x) for x in s.split()]
    pos = np.array(out["POSITION"])
    vel = np.array(out["VELOCITY"]) if out["VELOCITY"] else np.zeros_like(pos)
    return pos, vel, np.array(out["BOX"][:3])


def parse_trr(data):
    """Frames of a (big-endian, single precision) TRR file as written by writers.trr_frame."""
    frames, off = [], 0
    while off + 8 <= len(data):
        try:
            magic, slen0, slen = struct.unpack_from(">3i", data, off)
            p = off + 12 + slen
            sizes = struct.unpack_from(">13i", data, p)
            p += 52
            box_size, x_size, v_size, f_size, natoms = sizes[2], sizes[7], sizes[8], sizes[9], sizes[10]
            real, rs = ("d", 8) if box_size == 72 else ("f", 4)
            p += 2 * rs
            box = struct.unpack_from(f">9{real}", data, p) if box_size else None
            p += box_size
            x = struct.unpack_from(f">{natoms * 3}{real}", data, p)
            p += x_size
            v = struct.unpack_from(f">{natoms * 3}{real}", data, p) if v_size else None
            p += v_size + f_size
        except struct.error:
            break
        assert magic == 1993
        frames.append((np.array(x).reshape(-1, 3), None if v is None else np.array(v).reshape(-1, 3),
                       None if box is None else np.array([box[0], box[4], box[8]])))
        off = p
    return frames


# --------------------------------------------------------------------------- the programs
class Clock:
    """Shared between the fake process and the engine module's `sleep`."""

    def __init__(self):
        self.proc = None
        self.sleeps = 0
        self.killed = False

    def sleep(self, _t=0.0):
        self.sleeps += 1
        if self.sleeps > 5000:
            raise RuntimeError("harness: the engine polls a program that will never write again")
        if self.proc is not None:
            self.proc.advance()

    def killpg(self, _pg, _sig):
        self.killed = True
        if self.proc is not None and self.proc.rc is None:
            self.proc.rc = -15


class FakeProgram:
    """Base: a sequence of per-frame blobs per output file, appended half a frame at a time."""
    pid = 4242
    stdin = stdout = stderr = None

    def __init__(self, clock, script):
        self.clock = clock
        clock.proc = self
        self.batches = list(script.get("batches", ()))
        self.exit_code = script.get("exit_code", 0)
        self.crash_after = script.get("crash_after")
        self.crash_code = script.get("crash_code", 1)      # > 0: the program reports an error; < 0: it was killed by a signal
        self.lag = script.get("lag", 0)             # second output file lags the first by this many half-frames
        self.exit_delay = script.get("exit_delay", 0)   # looks of the engine between the last write and the exit
        self.rc = None
        self.returncode = None
        self.units = 0                              # half-frames "written" to the leading file
        self.frames = []                            # (pos, vel, box) as emitted
        self.outputs = []                           # [(path, [blob per frame], lag?)]
        self.advances = 0

    # -- process interface
    def poll(self):
        self.returncode = self.rc
        return self.rc

    def wait(self, timeout=None):
        if self.rc is None:
            self.rc = -15
        self.returncode = self.rc
        return self.rc

    def communicate(self, input=None):  # noqa: A002
        while self.rc is None:
            self.advance()
        self.returncode = self.rc
        return b"", b""

    # -- output
    def total_units(self):
        n = len(self.frames) if self.crash_after is None else min(len(self.frames), self.crash_after)
        return 2 * n

    def advance(self):
        if self.rc is not None:
            return
        self.advances += 1
        n = self.batches.pop(0) if self.batches else 2 * len(self.frames)
        self.units = min(self.total_units(), self.units + n)
        for path, blobs, lagging in self.outputs:
            upto = max(0, self.units - (self.lag if lagging else 0))
            if self.units >= self.total_units() and not self.batches:
                upto = self.units
            data = b""
            for k in range(upto // 2):
                data += blobs[k]
            if upto % 2:
                b = blobs[upto // 2]
                data += b[: len(b) // 2]
            have = os.path.getsize(path) if os.path.exists(path) else 0
            if len(data) > have:
                with open(path, "ab") as fh:
                    fh.write(data[have:])
        if self.units >= self.total_units() and not self.batches:
            if self.exit_delay > 0:
                self.exit_delay -= 1
                return
            self.finish()
            self.rc = self.crash_code if (self.crash_after is not None and self.crash_after < len(self.frames)) else self.exit_code

    def finish(self):
        pass


def _vars(txt):
    return dict(re.findall(r"^variable\s+(\w+)\s+index\s+(\S+)", txt, flags=re.M))


class FakeLammps(FakeProgram):
    def __init__(self, cmd, clock, script, cwd):
        super().__init__(clock, script)
        with open(cmd[cmd.index("-i") + 1]) as fh:
            var = _vars(fh.read())
        with open(var["initconf"], "rb") as fh:
            pos, vel, box, lo = parse_lammpstrj(fh.read())[0]
        nsteps, sub = int(var["nsteps"]), int(var["subcycles"])
        self.request = {"nsteps": nsteps, "subcycles": sub, "initconf": var["initconf"]}
        self.frames = trajectory(pos, vel, "lammps", box, nsteps // sub + 1, sub)
        blobs = [writers.lammpstrj_frame(k * sub, [1, 2], p.tolist(), v.tolist(), [(0.0, float(b[d])) for d in range(3)], fmt="{:.10f}")
                 for k, (p, v, b) in enumerate(self.frames)]
        self.traj = os.path.join(cwd, var["name"] + ".lammpstrj")
        self.outputs = [(self.traj, blobs, False)]
        with open(os.path.join(cwd, "log.lammps"), "w") as fh:
            fh.write("Step KinEng PotEng TotEng Temp\n" + "".join(f"{k * sub} 0.1 0.2 0.3 300\n" for k in range(len(self.frames))) + "Loop time of 1\n")
        self.advance()


class FakeCp2k(FakeProgram):
    def __init__(self, cmd, clock, script, cwd):
        super().__init__(clock, script)
        with open(os.path.join(cwd, cmd[cmd.index("-i") + 1])) as fh:
            txt = fh.read()
        proj = re.search(r"^\s*PROJECT\s+(\S+)", txt, flags=re.M).group(1)
        steps = int(re.search(r"^\s*STEPS\s+(\d+)", txt, flags=re.M).group(1))
        each = int(re.search(r"&TRAJECTORY.*?&EACH\s+MD\s+(\d+)", txt, flags=re.S).group(1))
        coord = re.search(r"^\s*COORD_FILE_NAME\s+(\S+)", txt, flags=re.M).group(1)
        velsec = re.search(r"&VELOCITY\s*\n(.*?)&END VELOCITY", txt, flags=re.S).group(1)
        vel = np.array([[float(x) for x in ln.split()] for ln in velsec.strip().split("\n") if ln.strip()])
        with open(os.path.join(cwd, coord), "rb") as fh:
            pos, _v, box, names = parse_xyz(fh.read())[0]
        self.request = {"nsteps": steps, "subcycles": each, "initconf": coord}
        self.frames = trajectory(pos, vel, "cp2k", box, steps // each + 1, each)
        pblobs = [writers.xyz_frame(k * each, names, p.tolist(), fmt="{:.10f}") for k, (p, _v2, _b) in enumerate(self.frames)]
        vblobs = [writers.xyz_frame(k * each, names, v.tolist(), fmt="{:.10f}") for k, (_p, v, _b) in enumerate(self.frames)]
        self.outputs = [(os.path.join(cwd, f"{proj}-pos-1.xyz"), pblobs, False), (os.path.join(cwd, f"{proj}-vel-1.xyz"), vblobs, True)]
        with open(os.path.join(cwd, f"{proj}-1.ener"), "w") as fh:
            fh.write("# Step Time Kin Temp Pot Cons Used\n" + "".join(f"{s} {s * 0.5} 0.1 300.0 -0.2 -0.1 0.0\n" for s in range(steps + 1)))
        self.advance()


class FakeMdrun(FakeProgram):
    def __init__(self, cmd, clock, script, cwd):
        super().__init__(clock, script)
        tpr = cmd[cmd.index("-s") + 1]
        name = cmd[cmd.index("-deffnm") + 1]
        with open(os.path.join(cwd, tpr)) as fh:
            rec = json.load(fh)
        with open(rec["mdp"]) as fh:
            mdp = dict((k.strip(), v.split(";")[0].strip()) for k, v in (ln.split("=", 1) for ln in fh if "=" in ln and not ln.strip().startswith(";")))
        with open(rec["conf"]) as fh:
            pos, vel, box = parse_g96(fh.read())
        nsteps, sub = int(mdp["nsteps"]), int(mdp["nstxout"])
        self.request = {"nsteps": nsteps, "subcycles": sub, "initconf": rec["conf"]}
        self.frames = trajectory(pos, vel, "gromacs", box, nsteps // sub + 1, sub)
        blobs = [writers.trr_frame(k * sub, k * sub * 0.002, [[b[0], 0, 0], [0, b[1], 0], [0, 0, b[2]]], p.tolist(), v.tolist())[0]
                 for k, (p, v, b) in enumerate(self.frames)]
        self.traj = os.path.join(cwd, name + ".trr")
        self.outputs = [(self.traj, blobs, False)]
        with open(os.path.join(cwd, name + ".edr"), "wb") as fh:
            fh.write(b"edr")
        self.advance()


def gmx_command(eng):
    """Stand-in for `gmx grompp` / `gmx energy` issued through EngineBase.execute_command."""
    def run(cmd, cwd=None, inputs=None):
        if "grompp" in cmd:
            get = lambda flag: cmd[cmd.index(flag) + 1]  # noqa: E731
            conf, mdp = get("-c"), get("-f")
            with open(os.path.join(cwd, get("-o")), "w") as fh:
                json.dump({"conf": conf if os.path.isabs(conf) else os.path.join(cwd, conf),
                           "mdp": mdp if os.path.isabs(mdp) else os.path.join(cwd, mdp)}, fh)
            with open(os.path.join(cwd, "mdout.mdp"), "w") as fh:
                fh.write("; fake\n")
            return 0
        if "energy" in cmd:
            with open(os.path.join(cwd, "energy.xvg"), "w") as fh:
                fh.write('@ s0 legend "Potential"\n@ s1 legend "Kinetic En."\n' + "".join(f"{k} -0.2 0.1\n" for k in range(400)))
            return 0
        raise RuntimeError(f"harness: unexpected gmx command {cmd}")
    return run
