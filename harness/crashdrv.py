"""Kill the real main process at every one of its file-system effects (and half-way
through every file it writes), restart from what is on disk, continue to the end.

The run is executed by the step-by-step driver (sysdrv.Segment) in a forked child;
an interposer on open/write/os.remove/os.rmdir/os.makedirs/shutil.move/os.replace
numbers the effects made by main-process code (setup, prep_md_items, treat_output,
write_toml) and os._exit()s at the scripted one.  Worker-side effects (the engine
writing trajectories while a move runs) are not crash points of the main process.
"""

from __future__ import annotations

import builtins
import json
import os
import random
import shutil
import sys

from harness import sysdrv

EXIT_CRASH = 77


class Interposer:
    """Numbers file-system effects; crashes at effect `crash_at` in mode before|empty|half|after."""

    def __init__(self, crash_at=None, mode="before", half_bytes=None, log=None):
        self.crash_at, self.mode, self.half_bytes = crash_at, mode, half_bytes
        self.n = 0
        self.active = False
        self.effects = []      # (kind, role, nbytes)
        self.log = log
        self.ctx = "setup"       # which call of the main process the effects belong to
        self._saved = {}

    @staticmethod
    def path_number(path):
        """The stored path a file-system object belongs to (load_dir/<number>/...), or None."""
        parts = str(path).replace("\\", "/").split("/")
        for i, part in enumerate(parts):
            if part == "load" and i + 1 < len(parts) and parts[i + 1].isdigit():
                return int(parts[i + 1])
        return None

    @staticmethod
    def role(path):
        p = str(path)
        b = os.path.basename(p)
        if b in ("restart.toml", "restart.toml.tmp", "order.txt", "energy.txt", "traj.txt", "pattern.txt"):
            return b
        if b.startswith("infretis_data"):
            return "infretis_data.txt"
        if "/accepted" in p:
            return "accepted/" + ("file" if b != "accepted" else "")
        if "/worker" in p or b.startswith("worker"):
            return "workerdir"
        if p.rstrip("/").split("/")[-1].isdigit():
            return "pathdir"
        return "other"

    def _die(self):
        if self.log:
            eff = self.effects[self.crash_at] if self.crash_at is not None and self.crash_at < len(self.effects) else ["?", "?", 0]
            self.log.write(json.dumps({"ev": "_crash", "effect": [eff[0], eff[1]], "mode": self.mode}) + "\n")
            self.log.flush()
        sys.stdout.flush()
        os._exit(EXIT_CRASH)

    def _effect(self, kind, path):
        """Register an effect; returns True if the process must die *before* doing it."""
        if not self.active or str(path).endswith(".log"):
            return None
        idx = self.n
        self.n += 1
        self.effects.append([kind, self.role(path), 0])
        if self.log:     # one line per effect, written before the effect happens (Crash.tla / TraceCrash.tla)
            self.log.write(json.dumps({"ev": "_fx", "k": idx, "kind": kind, "role": self.role(path), "pn": self.path_number(path),
                                       "ctx": self.ctx}) + "\n")
            self.log.flush()
        if self.crash_at == idx:
            return self.mode
        return "go" if self.crash_at is None or idx < self.crash_at else "go"

    def install(self):
        ip = self
        real_open = builtins.open
        self._saved = {"open": real_open, "remove": os.remove, "rmdir": os.rmdir, "makedirs": os.makedirs,
                       "move": shutil.move, "replace": os.replace, "rename": os.rename, "unlink": os.unlink}

        class W:
            """File wrapper that counts bytes and can die half-way."""

            def __init__(self, fh, idx, die_half):
                self._fh, self._idx, self._die_half = fh, idx, die_half
                self._written = 0

            def write(self, data):
                n = len(data)
                if self._die_half is not None and self._written + n >= self._die_half:
                    keep = max(0, self._die_half - self._written)
                    self._fh.write(data[:keep])
                    self._fh.flush()
                    ip._die()
                self._written += n
                ip.effects[self._idx][2] += n
                return self._fh.write(data)

            def __getattr__(self, name):
                return getattr(self._fh, name)

            def __enter__(self):
                self._fh.__enter__()
                return self

            def __exit__(self, *a):
                r = self._fh.__exit__(*a)
                if ip.crash_at == self._idx and ip.mode == "after":
                    ip._die()
                return r

            def close(self):
                r = self._fh.close()
                if ip.crash_at == self._idx and ip.mode == "after":
                    ip._die()
                return r

            def __iter__(self):
                return iter(self._fh)

        def open_(file, mode="r", *a, **k):
            if any(c in mode for c in "wax+") and ip.active and not str(file).endswith(".log"):
                idx = ip.n
                verdict = ip._effect("open:" + ("a" if "a" in mode else "w"), file)
                if verdict == "before":
                    ip._die()
                fh = real_open(file, mode, *a, **k)
                if verdict == "empty":
                    fh.flush()
                    ip._die()
                die_half = ip.half_bytes if verdict == "half" else None
                if verdict == "half" and not die_half:
                    die_half = 1
                return W(fh, idx, die_half)
            return real_open(file, mode, *a, **k)

        def wrap(kind, fn, pathpos=0):
            def inner(*a, **k):
                verdict = ip._effect(kind, a[pathpos] if len(a) > pathpos else "")
                if verdict in ("before", "empty", "half"):
                    ip._die()
                r = fn(*a, **k)
                if verdict == "after":
                    ip._die()
                return r
            return inner

        builtins.open = open_
        os.remove = wrap("remove", self._saved["remove"])
        os.unlink = wrap("remove", self._saved["unlink"])
        os.rmdir = wrap("rmdir", self._saved["rmdir"])
        os.replace = wrap("replace", self._saved["replace"], 1)
        os.rename = wrap("rename", self._saved["rename"], 1)
        shutil.move = wrap("move", self._saved["move"], 1)
        real_makedirs = self._saved["makedirs"]

        def makedirs(name, *a, **k):
            if os.path.isdir(name):
                return real_makedirs(name, *a, **k)     # no effect: raises EEXIST as before
            verdict = ip._effect("mkdir", name)
            if verdict in ("before", "empty", "half"):
                ip._die()
            r = real_makedirs(name, *a, **k)
            if verdict == "after":
                ip._die()
            return r
        os.makedirs = makedirs

    def uninstall(self):
        builtins.open = self._saved["open"]
        os.remove, os.rmdir, os.makedirs = self._saved["remove"], self._saved["rmdir"], self._saved["makedirs"]
        os.unlink = self._saved["unlink"]
        shutil.move, os.replace, os.rename = self._saved["move"], self._saved["replace"], self._saved["rename"]


def lifetime(root, inp, sched_seed, ip, events_path, steps=None, max_completions=None):
    """One process lifetime driven to its end (or to the crash).  Runs in a child process."""
    rnd = random.Random(sched_seed)
    seg = sysdrv.Segment(root, inp=inp)
    out = open(events_path, "a")

    def dump(from_idx):
        for ev in seg.events[from_idx:]:
            out.write(json.dumps(ev, default=sysdrv_default) + "\n")
        out.flush()
        return len(seg.events)
    ip.log = out
    ip.install()
    done = 0
    try:
        ip.active = True
        ok = seg.start(steps=steps)
        ip.active = False
        if not ok:
            out.write(json.dumps({"ev": "_refused"}) + "\n")
            out.flush()
            return 3
        done = dump(done)
        out.write(json.dumps({"ev": "_disk", "at": "start", "rows": rows_on_disk(seg), "active": sorted(int(t.path_number) for t in seg.state._trajs[:seg.N]),
                              "next": int(seg.state.config["current"]["traj_num"])}) + "\n")
        out.flush()
        ip.active = True
        ip.ctx = "pick"
        for _ in seg.init_picks():
            ip.active = False
            done = dump(done)
            ip.active = True
        ncomp = 0
        while True:
            ip.active = True
            ip.ctx = "loop"
            go = seg.loop()
            ip.active = False
            done = dump(done)
            if not go:
                break
            pin = rnd.choice(sorted(seg.inflight))
            md = seg.run_job(pin)           # the worker: not a crash point of the main process
            ip.active = True
            ip.ctx = "complete"
            out.write(json.dumps({"ev": "_begin", "olds": [int(p) for p in md["pnum_old"]], "acc": md["status"] == "ACC"}) + "\n")
            out.flush()
            seg.complete(pin, md, do_pick=False)
            ip.ctx = "pick"
            seg.loop_pick()
            ip.active = False
            done = dump(done)
            out.write(json.dumps({"ev": "_disk", "at": "complete", "rows": rows_on_disk(seg), "active": sorted(int(t.path_number) for t in seg.state._trajs[:seg.N]),
                                  "next": int(seg.state.config["current"]["traj_num"])}) + "\n")
            out.flush()
            ncomp += 1
            if max_completions is not None and ncomp >= max_completions:
                break
        out.write(json.dumps({"ev": "_effects", "effects": ip.effects}) + "\n")
        out.flush()
        return 0
    except SystemExit:
        raise
    except BaseException as exc:  # noqa: BLE001
        import traceback
        ip.active = False
        tb = traceback.extract_tb(exc.__traceback__)
        where = next((f"{os.path.basename(f.filename)}:{f.name}" for f in reversed(tb) if "/infretis/" in f.filename), "harness")
        out.write(json.dumps({"ev": "_error", "type": type(exc).__name__, "msg": str(exc)[:300], "where": where,
                              "tb": traceback.format_exc()[-1500:]}) + "\n")
        out.flush()
        return 4
    finally:
        ip.active = False
        ip.uninstall()


def sysdrv_default(o):
    import numpy as np
    if isinstance(o, np.ndarray):
        return o.tolist()
    if isinstance(o, (np.integer,)):
        return int(o)
    if isinstance(o, (np.floating,)):
        return float(o)
    return str(o)


def rows_on_disk(seg):
    path = seg.state.data_file
    pns = []
    if os.path.isfile(path):
        with open(path) as fh:
            for ln in fh:
                if ln.startswith("#") or not ln.strip():
                    continue
                try:
                    pns.append(int(float(ln.split("\t")[1])))
                except (ValueError, IndexError):
                    pns.append(-1)
    return pns


def run_child(fn, *args):
    """Run fn(*args) in a forked child in its own session; returns its exit status."""
    pid = os.fork()
    if pid == 0:
        try:
            os.setsid()
            devnull = os.open(os.devnull, os.O_WRONLY)
            os.dup2(devnull, 1)
            os.dup2(devnull, 2)
            rc = fn(*args)
        except SystemExit as exc:
            rc = exc.code if isinstance(exc.code, int) else 1
        except BaseException:  # noqa: BLE001
            rc = 5
        os._exit(rc if isinstance(rc, int) else 0)
    _, status = os.waitpid(pid, 0)
    try:
        os.killpg(pid, 9)
    except OSError:
        pass
    return os.waitstatus_to_exitcode(status)


def read_events(path):
    evs = []
    if os.path.isfile(path):
        with open(path) as fh:
            for ln in fh:
                ln = ln.strip()
                if ln:
                    try:
                        evs.append(json.loads(ln))
                    except ValueError:
                        pass
    return evs
