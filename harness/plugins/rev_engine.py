"""A deterministic, exactly time-reversible integer engine (kick-drift-kick map)
for the zero-swap reversibility clause of C11, loaded through the plug-in interface.

    v1 = v + b(x);  x' = x + v1;  v' = v1 + b(x')        (b: an integer force table)

Reversing the velocity and applying the map retraces the trajectory exactly.
Frames are stored as "x v"; the potential energy of a frame is table-driven so that
QuanTIS swaps between two engines with different potentials and temperatures can be
scripted."""

from __future__ import annotations

import os

import numpy as np

from infretis.classes.engines.enginebase import EngineBase


def force(x, edge):
    return -1 if x >= edge else (1 if x <= -edge else 0)


class RevEngine(EngineBase):
    def __init__(self, timestep=1.0, subcycles=1, temperature=1.0, edge=3, vscale=0.0, voffset=0.0):
        super().__init__("reversible integer map", timestep, subcycles)
        self.ext = "lat"
        self.temperature = temperature
        self._beta = 1.0 / temperature
        self.edge = int(edge)
        self.vscale, self.voffset = float(vscale), float(voffset)
        self.ncalls = 0

    def step(self):
        return None

    def set_mdrun(self, md_items):
        self.exe_dir = md_items["exe_dir"]

    def vpot_of(self, x):
        return self.vscale * x * x + self.voffset * x

    @staticmethod
    def _frames(fn):
        out = []
        with open(fn) as fh:
            for line in fh:
                s = line.split()
                if len(s) >= 2:
                    out.append((int(s[0]), int(s[1])))
        return out

    def _read_configuration(self, filename):
        x, v = self._frames(filename)[0]
        return np.array([[float(x), 0.0, 0.0]]), np.array([[float(v), 0.0, 0.0]]), None, ["X"]

    def _extract_frame(self, traj_file, idx, out_file):
        x, v = self._frames(traj_file)[idx]
        with open(out_file, "w") as fh:
            fh.write(f"{x} {v}\n")

    def _reverse_velocities(self, filename, outfile):
        x, v = self._frames(filename)[0]
        with open(outfile, "w") as fh:
            fh.write(f"{x} {-v}\n")

    def modify_velocities(self, system, vel_settings):
        raise NotImplementedError("the reversible engine is only used for zero swaps")

    def _propagate_from(self, name, path, system, ens_set, msg_file, reverse=False):
        self.ncalls += 1
        left, _, right = ens_set["interfaces"]
        x, v = self._frames(system.config[0])[0]
        traj_file = os.path.join(self.exe_dir, f"{name}.{self.ext}")
        success, status = False, "running"
        vpots = []
        with open(traj_file, "w") as fh:
            for i in range(path.maxlen):
                if i > 0:
                    v1 = v + force(x, self.edge)
                    x = x + v1
                    v = v1 + force(x, self.edge)
                fh.write(f"{x} {v}\n")
                fh.flush()
                order = self.calculate_order(system, xyz=np.array([[float(x), 0, 0]]), vel=np.array([[float(v), 0, 0]]), box=np.zeros(3))
                snapshot = {"order": order, "config": (traj_file, i), "vel_rev": reverse}
                pp = self.snapshot_to_system(system, snapshot)
                status, success, stop, add = self.add_to_path(path, pp, left, right)
                if add:
                    vpots.append(self.vpot_of(x))
                if stop:
                    break
        path.update_energies([0.5] * len(vpots), vpots)
        return success, status
