"""Order parameter plug-in for the lattice engine: the walker's position."""

from infretis.classes.orderparameter import OrderParameter


class LatticeOrder(OrderParameter):
    def __init__(self, velocity=False):
        super().__init__(description="lattice position", velocity=bool(velocity))

    def calculate(self, system):
        return [float(system.pos[0][0])]
