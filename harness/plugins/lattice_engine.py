"""A lattice random-walk engine, loaded by infretis itself through its plug-in
interface (create_external): exact answers are known in closed form.

The "system" is one walker on the integers.  A step moves it by +1 or -1 with
probability 1/2 (drawn from the job's engine stream `self.rgen`); at `left_wall`
a step to the left is a stay, so the chain is symmetric and satisfies detailed
balance with respect to the uniform distribution; backward propagation is the
same chain.  With interfaces at k + 0.5 the crossing probabilities are
P(reach k+1 | reached k) = (k+1)/(k+2).

Trajectory files (extension .lat) hold one frame per line: "x v", with v = +-1
a dummy velocity direction so that velocity reversal has something to act on.

A scripted mode serves the move-level replays: if `script` (a list of +-1
steps) is set, steps are taken from it instead of the random stream.
"""

from __future__ import annotations

import os
import time

import numpy as np

from infretis.classes.engines.enginebase import EngineBase


def read_lat(filename):
    frames = []
    with open(filename) as fh:
        for line in fh:
            s = line.split()
            if len(s) >= 2:
                frames.append((int(s[0]), int(s[1])))
    return frames


def write_lat(filename, frames, append=False):
    with open(filename, "a" if append else "w") as fh:
        for x, v in frames:
            fh.write(f"{int(x)} {int(v)}\n")


class LatticeScriptExhausted(RuntimeError):
    pass


class LatticeEngine(EngineBase):
    """Symmetric +-1 walk with a reflecting wall on the left."""

    def __init__(self, timestep=1.0, subcycles=1, temperature=1.0, left_wall=-3, sleep=0.0):
        super().__init__("lattice walk", timestep, subcycles)
        self.ext = "lat"
        self.name = "lattice"
        self.temperature = temperature
        self._beta = 1.0 / temperature
        self.left_wall = int(left_wall)
        self.sleep = float(sleep)
        self.script = None
        self.script_calls = None   # list of step lists: one per propagate call (move-level replays)
        self.calls = []          # (what, detail) log used by the move-level harness
        self.vel_requests = []   # the zero_momentum setting every modify_velocities call was handed

    # -- plug-in interface ------------------------------------------------
    def step(self):  # required by create_external
        return None

    def set_mdrun(self, md_items):
        self.exe_dir = md_items["exe_dir"]

    def _read_configuration(self, filename):
        x, v = read_lat(filename)[0]
        return np.array([[float(x), 0.0, 0.0]]), np.array([[float(v), 0.0, 0.0]]), None, ["X"]

    def _extract_frame(self, traj_file, idx, out_file):
        write_lat(out_file, [read_lat(traj_file)[idx]])

    def _reverse_velocities(self, filename, outfile):
        x, v = read_lat(filename)[0]
        write_lat(outfile, [(x, -v)])

    def modify_velocities(self, system, vel_settings):
        pos = self.dump_frame(system)
        x, _v = read_lat(pos)[0]
        if not hasattr(self, "rgen"):
            raise ValueError("Missing random generator!")
        v = 1 if self.rgen.integers(0, 2) == 1 else -1
        conf_out = os.path.join(self.exe_dir, f"genvel.{self.ext}")
        write_lat(conf_out, [(x, v)])
        system.config = (conf_out, 0)
        system.ekin = 0.5
        self.calls.append(("modify_velocities", x))
        self.vel_requests.append(vel_settings.get("zero_momentum", "absent"))
        return 0.0, 0.5

    def _draw(self):
        if self.script is not None:
            if not self.script:
                raise LatticeScriptExhausted("lattice script exhausted")
            return self.script.pop(0)
        return 1 if self.rgen.random() < 0.5 else -1

    def _propagate_from(self, name, path, system, ens_set, msg_file, reverse=False):
        left, _, right = ens_set["interfaces"]
        x, v = read_lat(system.config[0])[0]
        traj_file = os.path.join(self.exe_dir, f"{name}.{self.ext}")
        if self.script_calls is not None:
            self.script = list(self.script_calls.pop(0)) if self.script_calls else []
        if not hasattr(self, "rgen") and self.script is None:
            raise ValueError("Missing random generator!")
        self.calls.append(("propagate", (x, reverse, path.maxlen)))
        success, status = False, "propagating on the lattice"
        step_nr = 0
        vpots, ekins = [], []
        if os.path.exists(traj_file):
            os.remove(traj_file)
        with open(os.path.join(self.exe_dir, f"{name}.aux"), "w") as fh:   # a companion file (keep_traj_fnames)
            fh.write("aux\n")
        for i in range(path.maxlen * self.subcycles):
            if i > 0:
                d = self._draw()
                if not (x == self.left_wall and d < 0):
                    x += d
                v = d
            if i % self.subcycles != 0:
                continue
            write_lat(traj_file, [(x, v)], append=True)
            pos = np.array([[float(x), 0.0, 0.0]])
            vel = np.array([[float(v), 0.0, 0.0]])
            order = self.calculate_order(system, xyz=pos, vel=vel, box=np.zeros(3))
            msg_file.write(f'{step_nr} {" ".join([str(j) for j in order])}')
            snapshot = {"order": order, "config": (traj_file, step_nr), "vel_rev": reverse}
            phase_point = self.snapshot_to_system(system, snapshot)
            status, success, stop, _add = self.add_to_path(path, phase_point, left, right)
            if _add:
                vpots.append(float(x))      # exactly 0.0 at x = 0: a present energy, not a missing one
                ekins.append(0.5)
            if stop:
                break
            step_nr += 1
        if self.sleep:
            time.sleep(self.sleep * (((time.perf_counter_ns() >> 6) % 11) / 11.0))
        msg_file.write("# Propagation done.")
        path.update_energies(ekins, vpots)
        return success, status
