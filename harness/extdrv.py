"""Drive the real GROMACS / CP2K / LAMMPS engine classes through EngineBase.propagate against
the fake programs of harness.fakemd, and record what TraceEngine.tla needs as raw numbers
(micro-units): stored and recomputed order parameters, the trajectory the program should
have produced from the given phase point, references, velocity-direction flags."""

from __future__ import annotations

import os
import shutil
import sys
import types

import numpy as np

from harness import common, engines, fakemd, writers

REPO = os.environ.get("VERIF_REPO", "/repo")
if REPO not in sys.path:
    sys.path.insert(0, REPO)
MU = 10 ** 6


def mu(x):
    return int(round(float(x) * MU))


def build_engine(kind, work, sub):
    exe = os.path.join(work, "exe")
    os.makedirs(exe, exist_ok=True)
    if kind == "lammps":
        from infretis.classes.engines import lammps as mod
        eng = mod.LAMMPSEngine("lmp_mpi", os.path.join(engines.EX, "lammps", "H2", "lammps_input"), 1.0, sub, 300)
        prog = fakemd.FakeLammps
    elif kind == "cp2k":
        from infretis.classes.engines import cp2k as mod
        eng = mod.CP2KEngine("cp2k", os.path.join(engines.EX, "cp2k", "H2", "cp2k_input"), 1.0, sub, 300)
        prog = fakemd.FakeCp2k
    elif kind == "gromacs":
        from infretis.classes.engines import gromacs as mod
        inp = os.path.join(work, "ginp")           # the constructor writes infretis.mdp next to its input: use a copy
        shutil.copytree(os.path.join(engines.EX, "gromacs", "H2", "gromacs_input"), inp)
        eng = mod.GromacsEngine("echo", inp, 0.002, sub, 300, masses=[1.008, 1.008], infretis_genvel=True)
        eng.execute_command = fakemd.gmx_command(eng)
        eng.mdrun = "gmx mdrun -s {} -deffnm {} -c {}"
        prog = fakemd.FakeMdrun
    else:
        raise ValueError(kind)
    eng.exe_dir = exe
    eng.sleep = 0.0
    eng.order_function = fakemd.BoxVelOrder()
    return eng, mod, prog, exe


def write_start(kind, path, pos, vel, box):
    if kind == "lammps":
        data = writers.lammpstrj_frame(0, [1, 2], pos.tolist(), vel.tolist(), [(0.0, float(b)) for b in box], fmt="{:.10f}")
    elif kind == "cp2k":
        lines = ["2", "# Box: " + " ".join(f"{b:9.4f}" for b in box)]
        for p, v in zip(pos, vel):
            lines.append("H " + " ".join(f"{c:.12f}" for c in list(p) + list(v)))
        data = ("\n".join(lines) + "\n").encode()
    else:
        data = writers.g96(pos.tolist(), vel.tolist(), list(box), names=["H1", "H1"]).encode()
    with open(path, "wb") as fh:
        fh.write(data)


def read_frames(kind, fname, cache):
    if fname not in cache:
        with open(fname, "rb") as fh:
            data = fh.read()
        if fname.endswith(".lammpstrj"):
            cache[fname] = [(p, v, b) for p, v, b, _lo in fakemd.parse_lammpstrj(data)]
        elif fname.endswith(".xyz"):
            cache[fname] = [(p, v, b) for p, v, b, _n in fakemd.parse_xyz(data)]
        elif fname.endswith(".trr"):
            cache[fname] = fakemd.parse_trr(data)
        elif fname.endswith(".g96"):
            cache[fname] = [fakemd.parse_g96(data.decode())]
        else:
            raise ValueError(fname)
    return cache[fname]


class Patched:
    """The engine module sees the fake process table, clock and kill."""

    def __init__(self, mod, prog, script, exe, eng):
        self.mod, self.prog, self.script, self.exe, self.eng = mod, prog, script, exe, eng
        self.clock = fakemd.Clock()
        self.procs = []

    def __enter__(self):
        mod = self.mod
        self.saved = (mod.subprocess, mod.sleep, mod.os)

        def popen(cmd, **kw):
            p = self.prog(list(cmd), self.clock, dict(self.script), kw.get("cwd") or self.exe)
            self.procs.append(p)
            return p
        mod.subprocess = types.SimpleNamespace(Popen=popen, PIPE=-1)
        mod.sleep = self.clock.sleep
        fake_os = types.SimpleNamespace(**{k: getattr(os, k) for k in dir(os) if not k.startswith("__")})
        fake_os.killpg = self.clock.killpg
        fake_os.getpgid = lambda pid: pid
        mod.os = fake_os
        if hasattr(mod, "GromacsRunner"):
            self.saved_sleep = mod.GromacsRunner.SLEEP
        return self

    def __exit__(self, *exc):
        self.mod.subprocess, self.mod.sleep, self.mod.os = self.saved
        return False


def one_propagation(kind, eng, mod, prog, exe, start_file, start_rev, reverse, maxlen, interfaces, script, truth):
    """Run EngineBase.propagate once; returns the event for TraceEngine.tla.

    truth = (pos0, v_true0, box0): the phase point in forward-time convention."""
    from infretis.classes.path import Path
    from infretis.classes.system import System
    pos0, vtrue0, box0 = truth
    vfile0 = -vtrue0 if start_rev else vtrue0
    start_order = fakemd.order_of(pos0, vfile0, fakemd.box_of(pos0, kind, box0), start_rev)
    s = System()
    s.set_pos((start_file, 0))
    s.vel_rev = start_rev
    s.order = [start_order]
    path = Path(maxlen=maxlen)
    vrun = -vtrue0 if reverse else vtrue0
    sub = eng.subcycles
    exp = [fakemd.order_of(p, v, b, reverse) for p, v, b in fakemd.trajectory(pos0, vrun, kind, box0, maxlen + 1, sub)]
    left, right = interfaces
    ev = {"engine": kind, "reverse": bool(reverse), "start_rev": bool(start_rev), "maxlen": maxlen, "left": mu(left), "right": mu(right),
          "start": mu(start_order), "expect": [mu(x) for x in exp[:maxlen]], "raised": False, "must_raise": False, "may_raise": False,
          "stored": [], "recomp": [], "refs": [], "vrev": [], "samefile": True, "success": False, "program_stopped": True,
          "retrace": [], "retrace_of": [], "request_ok": True, "script": script}
    # what the script makes of the run: which frames reach the disk before a crash
    first_out = next((k for k, x in enumerate(exp) if x < left or x > right), None)
    need = maxlen if first_out is None or first_out >= maxlen else first_out + 1       # frames the engine has to see
    crash = script.get("crash_after")
    if crash is not None and crash < maxlen + 1:
        ev["must_raise"] = crash < need
        ev["may_raise"] = True
    ctx = Patched(mod, prog, script, exe, eng)
    with ctx:
        try:
            success, _status = eng.propagate(path, {"interfaces": (left, (left + right) / 2, right), "ens_name": "007"}, s, reverse=reverse)
        except RuntimeError as exc:
            ev["raised"] = True
            ev["detail"] = f"{type(exc).__name__}: {str(exc)[:160]}"
            success = False
    ev["success"] = bool(success)
    procs = [p for p in ctx.procs]
    ev["program_stopped"] = all(p.rc is not None for p in procs)
    if procs:
        rq = procs[-1].request
        ev["request_ok"] = rq["subcycles"] == sub and rq["nsteps"] == maxlen * sub
    if ev["raised"]:
        return ev, path
    cache = {}
    files = set()
    for p in path.phasepoints:
        files.add(p.config[0])
        ev["stored"].append(mu(p.order[0]))
        ev["refs"].append(int(p.config[1]))
        ev["vrev"].append(bool(p.vel_rev))
        try:
            fr = read_frames(kind, p.config[0], cache)[p.config[1]]
            box = fr[2] if fr[2] is not None else fakemd.box_of(fr[0], kind, box0)
            ev["recomp"].append(mu(fakemd.order_of(fr[0], fr[1], box, bool(p.vel_rev))))
        except (IndexError, OSError, ValueError):
            ev["recomp"].append(-10 ** 9)
    ev["samefile"] = len(files) == 1
    return ev, path


def external_job(args):
    """One scripted scenario: a propagation, optionally followed by a backward propagation from one of its frames."""
    kind, seed, script, reverse, start_rev, cross_at, maxlen, sub, retrace = args
    import random
    rnd = random.Random(seed)
    work = common.tmpdir("c12x-")
    events = []
    sys.unraisablehook = lambda *a: None      # GromacsRunner.__del__ on a runner whose start() raised: not part of any result
    try:
        eng, mod, prog, exe = build_engine(kind, work, sub)
        eng.rgen = np.random.default_rng(seed)
        s0 = rnd.uniform(5.0, 6.0) if reverse else rnd.uniform(1.5, 3.0)
        rv = rnd.uniform(0.9, 1.3)
        pos0 = np.array([[1.0, 1.0, 1.0], [1.0 + s0, 1.0, 1.0]])
        vtrue = np.array([[0.05, 0.0, 0.0], [0.05 + rv, 0.0, 0.0]])
        box0 = np.array([12.0, 12.0, 12.0]) if kind == "cp2k" else fakemd.box_of(pos0, kind, None)
        start_file = os.path.join(work, "start." + eng.ext)
        write_start(kind, start_file, pos0, -vtrue if start_rev else vtrue, box0)
        vrun = -vtrue if reverse else vtrue
        exp = [fakemd.order_of(p, v, b, reverse) for p, v, b in fakemd.trajectory(pos0, vrun, kind, box0, maxlen + 2, sub)]
        if reverse:        # the order parameter falls going backward in time: the left interface is crossed
            right = exp[0] + 1.0
            left = (exp[cross_at - 1] + exp[cross_at]) / 2 if cross_at is not None and cross_at <= maxlen else exp[-1] - 5.0
        else:
            left = exp[0] - 1.0
            right = (exp[cross_at - 1] + exp[cross_at]) / 2 if cross_at is not None and cross_at <= maxlen else exp[-1] + 5.0
        ev, path = one_propagation(kind, eng, mod, prog, exe, start_file, start_rev, reverse, maxlen, (left, right), script, (pos0, vtrue, box0))
        ev["args"] = [kind, seed, script, reverse, start_rev, cross_at, maxlen, sub, retrace]
        if retrace and not ev["raised"] and not reverse and len(ev["stored"]) >= 3:
            k = rnd.randrange(1, len(ev["stored"]))
            pp = path.phasepoints[k].copy()
            from infretis.classes.path import Path
            back = Path(maxlen=k + 1)
            ctx = Patched(mod, prog, {"batches": (2 * (k + 2),)}, exe, eng)
            with ctx:
                eng.propagate(back, {"interfaces": (-1000.0, 0.0, 1000.0), "ens_name": "008"}, pp, reverse=True)
            ev["retrace"] = [mu(p.order[0]) for p in back.phasepoints]
            ev["retrace_of"] = ev["stored"][:k + 1][::-1]
        events.append(ev)
    except Exception as exc:  # noqa: BLE001
        import traceback
        events.append({"_error": f"{type(exc).__name__}: {exc}", "tb": traceback.format_exc()[-1800:], "engine": kind, "args": list(args)})
    finally:
        shutil.rmtree(work, ignore_errors=True)
    return events
