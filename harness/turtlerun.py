"""Whole runs with the real TurtleMD engine (the repository's double-well example and its stored initial paths), through
the unmodified scheduler() and a real process pool (harness.realrun), for the byte-for-byte comparisons of C06.

The order parameter is the example's x position put on the grid of the six decimals that order.txt stores (the scope
note of C06: values representable at the stored precision); allowmaxlength = true keeps the documented loss of the
'initial path' marker at a restart out.
"""

from __future__ import annotations

import os
import shutil
import sys

from harness import realrun

REPO = os.environ.get("VERIF_REPO", "/repo")
EX = os.path.join(REPO, "examples", "turtlemd", "double_well")
BASE_TOML = os.path.join(REPO, "test", "simulations", "data", "wf.toml")

LAST_EVENTS = []      # the recorded events of the last chain() of this process (Init/Pick/Complete/Finish/Restart)

ORDERP = '''from infretis.classes.orderparameter import OrderParameter


class RoundedX(OrderParameter):
    """x of particle 0, on the grid of the six decimals that order.txt stores."""

    def __init__(self, index=(0, 0), periodic=False):
        super().__init__(description="x rounded to 1e-6", velocity=False)
        self.index = index

    def calculate(self, system):
        return [round(float(system.pos[self.index[0]][self.index[1]]), 6)]
'''


def build(root, seed, steps, moves, workers=1):
    import tomli
    import tomli_w
    shutil.rmtree(root, ignore_errors=True)
    os.makedirs(root)
    shutil.copytree(os.path.join(EX, "load_copy"), os.path.join(root, "load"))
    with open(os.path.join(root, "orderp.py"), "w") as fh:
        fh.write(ORDERP)
    with open(BASE_TOML, "rb") as fh:
        cfg = tomli.load(fh)
    cfg["runner"]["workers"] = workers
    cfg["simulation"].update({"seed": seed, "steps": steps, "shooting_moves": list(moves)})
    cfg["simulation"]["tis_set"]["allowmaxlength"] = True
    cfg["orderparameter"] = {"class": "RoundedX", "index": [0, 0], "periodic": False, "module": "orderp.py"}
    cfg["output"].update({"screen": 0, "pattern": False, "delete_old": False, "delete_old_all": False})
    with open(os.path.join(root, "infretis.toml"), "wb") as fh:
        tomli_w.dump(cfg, fh)


def chain(root, seed, steps_chain, moves):
    """Run steps_chain[0] steps, restart with steps_chain[1], ...; returns ((data bytes, restart dict), None) or (None, error)."""
    import tomli
    build(root, seed, steps_chain[0], moves)
    evp = os.path.join(root, "ev.jsonl")
    inp = "infretis.toml"
    events = []
    for i, st in enumerate(steps_chain):
        if os.path.exists(evp):
            os.remove(evp)
        status, killed, _wall = realrun.run_lifetime(root, inp, evp, steps=st if i else None, timeout=300)
        if status != 0 or killed:
            err = [e for e in realrun.read_events(evp) if e["ev"] in ("_error", "_refused")][-1:]
            return None, f"leg {i} ({st} steps): exit status {status}{' (timed out)' if killed else ''} {err}"
        leg = [e for e in realrun.read_events(evp) if not e["ev"].startswith("_")]
        if leg and leg[0]["ev"] == "Restart":
            leg[0]["clean"] = True
        events += leg
        inp = "restart.toml"
    LAST_EVENTS[:] = events
    with open(os.path.join(root, "infretis_data.txt"), "rb") as fh:
        data = fh.read()
    with open(os.path.join(root, "restart.toml"), "rb") as fh:
        cfg = tomli.load(fh)
    cfg["current"].pop("restarted_from", None)
    return (data, cfg), None
