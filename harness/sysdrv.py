"""Drive the real infretis main process (REPEX_state + setup + storage) step by
step, in the order scheduler() calls it, and record one event per specification
action with the projected abstract state.

Nothing in /repo is modified: events come from calling the public methods and
reading public attributes and the files on disk.
"""

from __future__ import annotations

import copy
import hashlib
import json
import importlib.util  # noqa: F401
import logging
import os
import shutil
import sys
from fractions import Fraction

import numpy as np

REPO = os.environ.get("VERIF_REPO", "/repo")
if REPO not in sys.path:
    sys.path.insert(0, REPO)
PLUGINS = os.path.join(os.path.dirname(os.path.abspath(__file__)), "plugins")


# ---------------------------------------------------------------------------
# run directory
def lattice_frames(reach, minus=False):
    if minus:
        return [1, 0, 1]
    return list(range(0, reach + 1)) + list(range(reach - 1, -1, -1))


def write_load_path(load_dir, pn, xs, fname="traj.lat"):
    d = os.path.join(load_dir, str(pn))
    os.makedirs(os.path.join(d, "accepted"), exist_ok=True)
    with open(os.path.join(d, "accepted", fname), "w") as fh:
        prev = None
        for x in xs:
            v = 1 if prev is None or x >= prev else -1
            fh.write(f"{x} {v}\n")
            prev = x
    with open(os.path.join(d, "traj.txt"), "w") as fh:
        fh.write("# Cycle: 0, status: ACC\n#     Step              Filename       index    vel\n")
        for i in range(len(xs)):
            fh.write(f"{i:>10}  {fname:>20s}  {i:>10}  {1:>5}\n")
    with open(os.path.join(d, "order.txt"), "w") as fh:
        fh.write("# Cycle: 0, status: ACC, move: ('ld', 0, 0, 0)\n#     Time       Orderp\n")
        for i, x in enumerate(xs):
            fh.write(f"{i:>10d} {float(x):>12.6f}\n")


def toml_value(v):
    if isinstance(v, bool):
        return "true" if v else "false"
    if isinstance(v, (int, float)):
        return repr(v)
    if isinstance(v, str):
        return '"' + v + '"'
    if isinstance(v, (list, tuple)):
        return "[" + ", ".join(toml_value(x) for x in v) + "]"
    raise TypeError(v)


def build_rundir(root, n_ens, workers, steps, seed=0, moves=None, cap=None, reaches=None,
                 maxlength=40, n_jumps=2, delete_old=False, delete_old_all=False, screen=0,
                 left_wall=-3, sleep=0.0, ensemble_engines=None, extra_engines=(), allowmaxlength=False,
                 keep_traj_fnames=None, lambda_minus_one=None):
    """Create a fresh simulation directory for the lattice plug-in engine."""
    os.makedirs(root, exist_ok=True)
    moves = moves or ["sh"] * n_ens
    interfaces = [i + 0.5 for i in range(n_ens)]
    reaches = reaches or list(range(n_ens))
    load = os.path.join(root, "load")
    write_load_path(load, 0, lattice_frames(0, minus=True))
    for p in range(1, n_ens):
        write_load_path(load, p, lattice_frames(reaches[p]))
    eng = os.path.join(PLUGINS, "lattice_engine.py")
    orp = os.path.join(PLUGINS, "lattice_orderp.py")
    lines = ["[runner]", f"workers = {workers}", "", "[simulation]",
             f"interfaces = {toml_value(interfaces)}", f"steps = {steps}", f"seed = {seed}",
             'load_dir = "load"', f"shooting_moves = {toml_value(moves)}"]
    if ensemble_engines:
        lines.append(f"ensemble_engines = {toml_value(ensemble_engines)}")
    lines += ["", "[simulation.tis_set]", f"maxlength = {maxlength}",
              f"allowmaxlength = {toml_value(bool(allowmaxlength))}", "zero_momentum = false", f"n_jumps = {n_jumps}"]
    if cap is not None:
        lines.append(f"interface_cap = {cap}")
    if lambda_minus_one is not None:
        lines.append(f"lambda_minus_one = {lambda_minus_one}")
    for name in ("engine",) + tuple(extra_engines):
        lines += ["", f"[{name}]", 'class = "LatticeEngine"', f'module = "{eng}"', 'engine = "lattice"',
                  "timestep = 1.0", "subcycles = 1", "temperature = 1.0", f"left_wall = {left_wall}",
                  f"sleep = {sleep}"]
    lines += ["", "[orderparameter]", 'class = "LatticeOrder"', f'module = "{orp}"', "",
              "[output]", 'data_dir = "./"', f"screen = {screen}", "pattern = false",
              f"delete_old = {toml_value(bool(delete_old))}", f"delete_old_all = {toml_value(bool(delete_old_all))}"]
    if keep_traj_fnames:
        lines.append(f"keep_traj_fnames = {toml_value(keep_traj_fnames)}")
    with open(os.path.join(root, "infretis.toml"), "w") as fh:
        fh.write("\n".join(lines) + "\n")
    return root


# ---------------------------------------------------------------------------
# random generator that records (and optionally scripts) the scheduler's own draws
_DRAWS = {"log": [], "oracle": None, "state": None}


class _Gen(np.random.Generator):
    """numpy Generator; the instance that is the scheduler's `state.rgen` has its
    choice()/random() calls recorded and, if an oracle is installed, forced."""

    def _is_main(self):
        st = _DRAWS["state"]
        return st is not None and getattr(st, "rgen", None) is self

    def choice(self, a, size=None, replace=True, p=None, axis=0, shuffle=True):  # noqa: D102
        if p is not None and self._is_main():
            pv = np.asarray(p, dtype=float).copy()
            if _DRAWS["oracle"] is not None:
                idx = int(_DRAWS["oracle"].choice(pv))
            else:
                idx = int(super().choice(a, size=size, replace=replace, p=p, axis=axis, shuffle=shuffle))
            _DRAWS["log"].append(("choice", pv, idx))
            return idx
        return super().choice(a, size=size, replace=replace, p=p, axis=axis, shuffle=shuffle)

    def random(self, size=None, dtype=np.float64, out=None):  # noqa: D102
        if size is None and self._is_main():
            if _DRAWS["oracle"] is not None:
                val = float(_DRAWS["oracle"].random())
            else:
                val = float(super().random(size=size, dtype=dtype, out=out))
            _DRAWS["log"].append(("random", val))
            return val
        return super().random(size=size, dtype=dtype, out=out)


def _default_rng(seed=None):
    return _Gen(np.random.PCG64(seed))


class ForeignRandomness:
    """Counts draws from numpy's global legacy generator, the random module, os.urandom
    and unseeded default_rng() while a move runs."""

    NP_FUNCS = ("normal", "random", "rand", "randn", "randint", "uniform", "standard_normal", "choice",
                "random_sample", "shuffle", "permutation", "seed")
    PY_FUNCS = ("random", "gauss", "uniform", "randint", "normalvariate", "choice", "shuffle", "seed", "randrange")

    def __enter__(self):
        import random as pyrandom
        self.count, self.who, self._saved = 0, [], []

        def wrap(mod, name, label):
            orig = getattr(mod, name, None)
            if orig is None:
                return

            def inner(*a, **k):
                self.count += 1
                if len(self.who) < 5:
                    self.who.append(label)
                return orig(*a, **k)
            self._saved.append((mod, name, orig))
            setattr(mod, name, inner)
        for f in self.NP_FUNCS:
            wrap(np.random, f, f"numpy.random.{f}")
        for f in self.PY_FUNCS:
            wrap(pyrandom, f, f"random.{f}")
        wrap(os, "urandom", "os.urandom")
        orig_drng = np.random.default_rng

        def drng(seed=None, *a, **k):
            if seed is None:
                self.count += 1
                if len(self.who) < 5:
                    self.who.append("numpy.random.default_rng()")
            return orig_drng(seed, *a, **k)
        self._saved.append((np.random, "default_rng", orig_drng))
        np.random.default_rng = drng
        return self

    def __exit__(self, *exc):
        for mod, name, orig in reversed(self._saved):
            setattr(mod, name, orig)
        return False


def fp_of(gen):
    """Fingerprint of a generator: its seed-sequence identity and its current state."""
    st = gen.bit_generator.state
    ss = gen.bit_generator._seed_seq
    key = (str(st["state"]), getattr(ss, "entropy", None), tuple(getattr(ss, "spawn_key", ())))
    return hashlib.sha1(repr(key).encode()).hexdigest()[:16]


def seedseq_of(gen):
    ss = gen.bit_generator._seed_seq
    return [int(getattr(ss, "entropy", -1) or 0), [int(x) for x in getattr(ss, "spawn_key", ())],
            int(getattr(ss, "n_children_spawned", -1))]


# ---------------------------------------------------------------------------
def to_mu(x):
    """Float/longdouble/decimal string -> integer micro-units; a non-zero value never becomes 0."""
    f = Fraction(str(x))
    if f == 0:
        return 0
    v = int(round(f * 10 ** 6))
    if v == 0:
        v = 1 if f > 0 else -1
    return v if abs(v) < 2 * 10 ** 9 else None


def to_rat(x, maxden=10 ** 6):
    """Float/longdouble -> [num, den] of the nearest small rational (checked)."""
    f = Fraction(str(x)) if not isinstance(x, (int,)) else Fraction(x)
    r = f.limit_denominator(maxden)
    if abs(float(f - r)) > 1e-9:
        return None
    return [r.numerator, r.denominator]


def reset_infretis_globals():
    from infretis.classes.repex import REPEX_state
    from infretis.core import tis
    REPEX_state.traj_data = {}
    REPEX_state.ensembles = {}
    REPEX_state.engine_occ = {}
    REPEX_state.config = {}
    REPEX_state.cworker = None
    tis.ENGINES = {}
    for name in ("main", ""):
        lg = logging.getLogger(name)
        for h in list(lg.handlers):
            if isinstance(h, (logging.FileHandler, logging.StreamHandler)) and not isinstance(h, logging.NullHandler):
                lg.removeHandler(h)
                try:
                    h.close()
                except Exception:  # noqa: BLE001
                    pass


CHECK_STORE = False      # set by the C14 check: compare live paths with their stored form after every step


def _json_default(o):
    if isinstance(o, np.ndarray):
        return o.tolist()
    if isinstance(o, np.integer):
        return int(o)
    if isinstance(o, np.floating):
        return float(o)
    if isinstance(o, Fraction):
        return float(o)
    return str(o)


class Segment:
    """One process lifetime of infretis in `rundir` (a fresh start or a restart)."""

    def __init__(self, rundir, inp="infretis.toml"):
        self.rundir = rundir
        self.inp = inp
        self.check_store = CHECK_STORE
        self.events = []
        self.inflight = {}        # pin -> md_items
        self.fp_ids = None
        self.state = None
        self.finished = False
        self._rows_seen = 0
        self.N = None

    # -- start ---------------------------------------------------------------
    def start(self, steps=None):
        from infretis.classes import repex
        from infretis import setup as isetup
        os.chdir(self.rundir)
        reset_infretis_globals()
        repex.default_rng = _default_rng
        _DRAWS["log"] = []
        _DRAWS["oracle"] = None
        _DRAWS["state"] = None
        if steps is not None and self.inp == "restart.toml":
            import tomli
            import tomli_w
            with open("restart.toml", "rb") as fh:
                cfg = tomli.load(fh)
            cfg["simulation"]["steps"] = steps
            with open("restart.toml", "wb") as fh:
                tomli_w.dump(cfg, fh)
        config = isetup.setup_config(self.inp)
        if config is None:
            return False
        self.restarted = "restarted_from" in config["current"]
        self.md_items, self.state = isetup.setup_internal(config)
        _DRAWS["state"] = self.state
        self.N = self.state.n - 1
        if os.path.isfile(self.state.data_file):
            with open(self.state.data_file) as fh:
                self._rows_seen = len([ln for ln in fh if not ln.startswith("#")])
        live = [int(t.path_number) for t in self.state._trajs[:self.N]]
        args = {"frac": [[pn, self.frac_of(pn)] for pn in live if pn in self.state.traj_data],
                "seed": int(config["simulation"]["seed"])}
        if self.restarted:
            args["rec"] = self.read_restart()          # the record the restarted process found on disk
            args["rows_on_disk"] = self.rows_on_disk()
        self.emit("Restart" if self.restarted else "Init", args)
        return True

    # -- projection ------------------------------------------------------------
    def project(self):
        st, N = self.state, self.N
        w = []
        for i in range(N):
            row = []
            for v in st.state[i, :N]:
                iv = int(round(float(v)))
                row.append(iv if abs(float(v) - iv) < 1e-9 else -999)
            w.append(row)
        return {
            "slot": [(-1 if t == "" or t.path_number is None else int(t.path_number)) for t in st._trajs[:N]],
            "lock": [int(x) for x in st._locks[:N]],
            "ghost": int(st._locks[N]) if len(st._locks) > N else 1,
            "w": w,
            "locked": [[[int(e) + 1 for e in ens], [int(p) for p in pns]] for ens, pns in st.locked],
            "cstep": int(st.cstep), "tsteps": int(st.tsteps), "trajnum": int(st.config["current"]["traj_num"]),
            "toinit": int(st.toinitiate),
            "nchild": int(st.rgen.bit_generator._seed_seq.n_children_spawned),
            "occ": {k: [int(x) for x in v] for k, v in st.engine_occ.items()},
        }

    def frac_of(self, pn):
        return [to_mu(x) for x in self.state.traj_data[pn]["frac"][:self.N]]

    def emit(self, name, args):
        ev = {"ev": name, "st": self.project()}
        ev.update(args)
        self.events.append(ev)
        sink = getattr(self, "sink", None)
        if sink is not None:          # recorded runs that may be killed at any moment: every event reaches the disk at once
            sink.write(json.dumps(ev, default=_json_default) + "\n")
            sink.flush()
        return ev

    # -- actions -------------------------------------------------------------------
    def _pick_event(self, md, kind, draws):
        st = self.state
        picked = md["picked"]
        ens = [int(e) + 1 for e in md["ens_nums"]]
        n = st.n
        used = []
        for d in draws:
            if d[0] == "choice":
                used.append({"p": d[1], "idx": d[2]})
        job = {
            "pin": int(md["pin"]), "kind": kind, "ens": ens,
            "pns": [int(picked[e]["traj"].path_number) for e in md["ens_nums"]],
            "pn_old": [int(picked[e]["pn_old"]) for e in md["ens_nums"]],
            # the engine *instance* a job will run on, named by the first (type, index) under which that object was seen
            "eng": [self._engine_name(k, v) for e in md["ens_nums"] for k, v in sorted(picked[e]["eng_idx"].items())],
            "folder": os.path.basename(md["w_folder"]),
            "exe_dirs": sorted({os.path.basename(picked[e]["exe_dir"]) for e in md["ens_nums"]}),
            "fp_move": [fp_of(picked[e]["ens"]["rgen"]) for e in md["ens_nums"]],
            # an ensemble without its own engine stream is reported as the null stream
            "fp_eng": [fp_of(picked[e]["rgen-eng"]) if "rgen-eng" in picked[e] else "0" * 16 for e in md["ens_nums"]],
            "ss_move": [seedseq_of(picked[e]["ens"]["rgen"]) for e in md["ens_nums"]],
            "fp_main": fp_of(st.rgen),
            "ens_objs_distinct": len({id(picked[e]["ens"]["rgen"]) for e in md["ens_nums"]}) == len(ens),
            "draws": used, "n": n,
            "coins": [d[1] for d in draws if d[0] == "random"],
        }
        return self.emit("Pick", job)

    def _engine_name(self, key, idx):
        from infretis.core import tis
        try:
            obj = tis.ENGINES[key][idx]
        except (KeyError, IndexError, TypeError):
            return [str(key), int(idx)]
        seen = self.__dict__.setdefault("_engine_objs", {})
        return seen.setdefault(id(obj), [str(key), int(idx)])

    def next_init_pick(self):
        """One iteration of the `while state.initiate()` loop of scheduler(); None when it ends."""
        st = self.state
        if getattr(self, "_init_done", False):
            return None
        if not st.initiate():
            self._init_done = True
            return None
        md = copy.deepcopy(self.md_items)
        mark = len(_DRAWS["log"])
        reissue = bool(st.locked0)
        md = st.prep_md_items(md)
        ev = self._pick_event(md, "reissue" if reissue else "init", _DRAWS["log"][mark:])
        self.inflight[int(md["pin"])] = md
        return ev

    def init_picks(self):
        while True:
            ev = self.next_init_pick()
            if ev is None:
                return
            yield ev

    def loop(self):
        """state.loop(): False when the run is over (Finish event emitted)."""
        go = self.state.loop()
        if not go:
            self.finished = True
            self.emit("Finish", {"rec": self.read_restart(), "inflight": sorted(self.inflight)})
        return go

    def run_job(self, pin):
        """Execute the job of `pin` the way a worker would (real run_md in-process), counting
        every random number drawn from outside the job's own streams."""
        import pickle
        from infretis.core import tis
        # the work unit crosses a process boundary in both directions: the worker gets a copy and the
        # main process gets a copy of the result (a worker cannot mutate the main process's objects)
        md = pickle.loads(pickle.dumps(self.inflight[pin]))
        with ForeignRandomness() as fr:
            out = pickle.loads(pickle.dumps(tis.run_md(md)))
        self._foreign = fr.count
        self._foreign_who = fr.who
        return out

    def pre_complete(self, md_done):
        """Snapshot taken just before treat_output(md_done)."""
        st = self.state
        # a live path without a record (possible only in a broken tree) counts as zero occupation here; the Complete event
        # then reports it as a live path with no record and the monitor names the clause
        return {"pre_live": {int(t.path_number): ([Fraction(str(x)) for x in st.traj_data[int(t.path_number)]["frac"][:self.N]]
                                                  if int(t.path_number) in st.traj_data else [Fraction(0)] * self.N)
                             for t in st._trajs[:self.N]},
                "ens": [int(e) + 1 for e in md_done["ens_nums"]],
                "old": [int(p) for p in md_done["pnum_old"]], "pin": int(md_done["pin"])}

    def post_complete(self, snap, md):
        """Complete event from the state after treat_output returned md."""
        st = self.state
        new = [int(md["picked"][e]["traj"].path_number) for e in md["ens_nums"]]
        post = {}
        for t in st._trajs[:self.N]:
            pn = int(t.path_number)
            post[pn] = [Fraction(str(x)) for x in st.traj_data[pn]["frac"][:self.N]] if pn in st.traj_data else None
        dfrac = []
        for pn, fr in sorted(post.items()):
            if fr is None:
                dfrac.append([pn, None])
                continue
            fresh = md["status"] == "ACC" and pn in new
            base = [Fraction(0)] * self.N if fresh else snap["pre_live"].get(pn, [Fraction(0)] * self.N)
            dfrac.append([pn, [float(a - b) for a, b in zip(fr, base)]])
        rows = self.read_new_rows()
        args = {"pin": snap["pin"], "acc": md["status"] == "ACC", "status": str(md["status"]), "ens": snap["ens"],
                "old": snap["old"], "new": new, "dfrac": dfrac, "rows": rows, "rec": self.read_restart(),
                "frac": [[pn, self.frac_of(pn) if pn in st.traj_data else None] for pn in sorted(post)],
                "store": self.store_check() if getattr(self, "check_store", False) else {"checked": False, "present": [], "live_ok": True, "bad": []},
                "foreign": int(getattr(self, "_foreign", 0)),
                "foreign_who": list(getattr(self, "_foreign_who", []))[:5]}
        self._foreign = 0
        return self.emit("Complete", args)

    def complete(self, pin, md_done, do_pick=True):
        """treat_output for the finished job of `pin`; then the optional next pick."""
        st = self.state
        snap = self.pre_complete(md_done)
        del self.inflight[pin]
        md = st.treat_output(md_done)
        ev = self.post_complete(snap, md)
        self._pend = md if st.cstep + st.workers <= st.tsteps else None
        nxt = self.loop_pick() if do_pick else None
        return ev, nxt

    def loop_pick(self):
        """The `if cstep + workers <= tsteps: prep_md_items` part of the loop body."""
        md = getattr(self, "_pend", None)
        if md is None:
            return None
        self._pend = None
        mark = len(_DRAWS["log"])
        md = self.state.prep_md_items(md)
        nxt = self._pick_event(md, "loop", _DRAWS["log"][mark:])
        self.inflight[int(md["pin"])] = md
        return nxt

    # -- files ---------------------------------------------------------------------
    def read_restart(self):
        import tomli
        p = os.path.join(self.rundir, "restart.toml")
        if not os.path.isfile(p):
            return None
        try:
            with open(p, "rb") as fh:
                cfg = tomli.load(fh)
        except Exception as exc:  # noqa: BLE001
            return {"error": f"{type(exc).__name__}: {exc}"}
        cur = cfg.get("current", {})
        frac = []
        for k, v in sorted(cur.get("frac", {}).items(), key=lambda kv: int(kv[0])):
            frac.append([int(k), [to_mu(x) for x in v][:self.N]])
        return {"cstep": cur.get("cstep"), "trajnum": cur.get("traj_num"), "active": cur.get("active"),
                "locked": [[list(e), [int(p) for p in ps]] for e, ps in cur.get("locked", [])],
                "frac": frac, "steps": cfg["simulation"]["steps"],
                "restarted_from": cur.get("restarted_from", -1),
                "has_rng": "rng_state" in cur, "size": cur.get("size")}

    def read_new_rows(self):
        rows = []
        path = self.state.data_file
        with open(path) as fh:
            lines = [ln for ln in fh if not ln.startswith("#")]
        for ln in lines[self._rows_seen:]:
            parts = ln.split("\t")
            parts = [p for p in parts[1:]]
            pn = int(float(parts[0]))
            length = int(float(parts[1]))
            rest = [p.strip() for p in parts[3:] if p.strip() != ""]
            n = self.N
            fr = [(0 if x == "----" else to_mu(x)) for x in rest[:n]]
            wt = [(0 if x == "----" else int(round(float(x)))) for x in rest[n:2 * n]]
            rows.append({"pn": pn, "len": length, "frac": fr, "w": wt, "ncol": len(rest)})
        self._rows_seen = len(lines)
        return rows

    def rows_on_disk(self):
        pns = []
        path = self.state.data_file
        if os.path.isfile(path):
            with open(path) as fh:
                for ln in fh:
                    if ln.startswith("#") or not ln.strip():
                        continue
                    try:
                        pns.append(int(float(ln.split("\t")[1])))
                    except (ValueError, IndexError):
                        pns.append(-1)
        return pns

    def store_check(self):
        """Compare every live path in memory with what load_path() reads back from its directory,
        and list the path directories that are complete on disk."""
        from infretis.classes.path import load_path
        st = self.state
        load = os.path.join(self.rundir, st.config["simulation"]["load_dir"])
        bad = []
        for t in st._trajs[:self.N]:
            pn = int(t.path_number)
            pdir = os.path.join(load, str(pn))
            acc = os.path.join(pdir, "accepted") + os.sep
            try:
                lp = load_path(pdir)
            except BaseException as exc:  # noqa: BLE001
                bad.append([pn, f"load_path raised {type(exc).__name__}: {exc}"[:200]])
                continue
            if lp.length != t.length:
                bad.append([pn, f"length {lp.length} on disk, {t.length} in memory"])
                continue
            for k, (a, b) in enumerate(zip(t.phasepoints, lp.phasepoints)):
                why = None
                if not os.path.isfile(a.config[0]):
                    why = f"frame {k}: file {a.config[0]} does not exist"
                elif not os.path.abspath(a.config[0]).startswith(os.path.abspath(acc)):
                    why = f"frame {k}: file {a.config[0]} is outside the path's own directory"
                elif os.path.basename(a.config[0]) != os.path.basename(b.config[0]) or int(a.config[1] or 0) != int(b.config[1]):
                    why = f"frame {k}: reference {os.path.basename(a.config[0])}:{a.config[1]} stored as {os.path.basename(b.config[0])}:{b.config[1]}"
                elif bool(a.vel_rev) != bool(b.vel_rev):
                    why = f"frame {k}: vel_rev {a.vel_rev} stored as {b.vel_rev}"
                elif abs(float(a.order[0]) - float(b.order[0])) > 5.1e-7:
                    why = f"frame {k}: order {a.order[0]} stored as {b.order[0]}"
                else:
                    for key in ("vpot", "ekin"):
                        x, y = getattr(a, key, None), getattr(b, key, None)
                        xn = x is None or (isinstance(x, float) and x != x)
                        yn = y is None or (isinstance(y, float) and y != y)
                        if xn != yn or (not xn and abs(float(x) - float(y)) > 5.1e-7):
                            why = f"frame {k}: {key} {x} stored as {y}"
                if why:
                    bad.append([pn, why])
                    break
        present = []
        for d in os.listdir(load):
            if d.isdigit():
                pd = os.path.join(load, d)
                acc = os.path.join(pd, "accepted")
                if os.path.isfile(os.path.join(pd, "traj.txt")) and os.path.isfile(os.path.join(pd, "order.txt")) \
                        and os.path.isdir(acc) and os.listdir(acc):
                    present.append(int(d))
        return {"checked": True, "present": sorted(present), "live_ok": not bad, "bad": bad[:4]}

    def store_view(self):
        """Which path directories exist under load/ and whether their files are there."""
        load = os.path.join(self.rundir, self.state.config["simulation"]["load_dir"])
        out = {}
        for d in os.listdir(load):
            if not d.isdigit():
                continue
            pd = os.path.join(load, d)
            acc = os.path.join(pd, "accepted")
            out[int(d)] = {
                "traj": os.path.isfile(os.path.join(pd, "traj.txt")),
                "order": os.path.isfile(os.path.join(pd, "order.txt")),
                "files": sorted(os.listdir(acc)) if os.path.isdir(acc) else None,
            }
        return out

    def close(self):
        reset_infretis_globals()
        _DRAWS["oracle"] = None
        _DRAWS["state"] = None


def cleanup(rundir):
    shutil.rmtree(rundir, ignore_errors=True)
