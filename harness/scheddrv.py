"""Run the real scheduler() / aiorunner / future_list with a scripted executor:
the process pool is replaced by an executor whose tasks finish only when the
controller says so, in the order a Runner.tla behaviour prescribes.  Everything
else (the scheduler loop, the runner's thread and event loop, the future list,
REPEX_state) runs unmodified."""

from __future__ import annotations

import concurrent.futures
import os
import threading
import time

from harness import sysdrv, sysreplay


class ScriptedExecutor(concurrent.futures.Executor):
    current = None

    def __init__(self, max_workers=None, initializer=None, initargs=(), mp_context=None, **_kw):
        self.pending = []          # (key, fn, args, future)
        self.lock = threading.Lock()
        self.nsubmitted = 0
        ScriptedExecutor.current = self

    def submit(self, fn, *args, **kwargs):
        fut = concurrent.futures.Future()
        with self.lock:
            self.nsubmitted += 1
            self.pending.append((self.nsubmitted, fn, args, kwargs, fut))
        return fut

    def shutdown(self, wait=True, cancel_futures=False):
        return None


class Ctx:
    def __init__(self):
        self.waiting = threading.Event()
        self.entered = 0            # how many times the main thread has entered as_completed()
        self.stopping = threading.Event()
        self.nexec = {}
        self.ndeliv = {}
        self.errors = []
        self.delivered = []
        self.log = []


def unit_key(fn, args):
    """Identity of a work unit: the md_items dict bound in the functools.partial."""
    md = fn.args[0] if getattr(fn, "args", None) else (args[0] if args else None)
    if isinstance(md, dict):
        return md.get("unit", md.get("pin"))
    return None


def controller(ctx, script, fail_at, n_inflight, timeout=60.0):
    """Each time the main thread waits in as_completed(), finish the next scripted set of tasks."""
    ex = None
    t_end = time.time() + timeout
    step = 0
    served = 0
    while not ctx.stopping.is_set() and time.time() < t_end:
        # serve every call of as_completed() once (a counter, not an event: the main thread may leave
        # one call and enter the next between two looks of this thread)
        if ctx.entered == served or not ctx.waiting.is_set():
            time.sleep(0.002)
            continue
        cur = ctx.entered
        ex = ScriptedExecutor.current
        want = n_inflight()
        t1 = time.time() + 5
        while ex is None or len(ex.pending) < want:
            if time.time() > t1 or ctx.stopping.is_set():
                break
            time.sleep(0.002)
            ex = ScriptedExecutor.current
        if ex is None or not ex.pending:
            time.sleep(0.01)
            continue
        served = cur
        picks = script[step] if step < len(script) else [0]
        step += 1
        for pk in picks:
            with ex.lock:
                if not ex.pending:
                    break
                ex.pending.sort(key=lambda t: (str(unit_key(t[1], t[2])), t[0]))
                item = ex.pending.pop(pk % len(ex.pending))
            _run(ctx, item, fail_at)
    # release whatever is still blocked so that stop() can return
    ex = ScriptedExecutor.current
    while ex is not None and ex.pending:
        with ex.lock:
            item = ex.pending.pop(0)
        _run(ctx, item, fail_at)


def _run(ctx, item, fail_at):
    num, fn, args, kwargs, fut = item
    key = unit_key(fn, args)
    ctx.nexec[num] = ctx.nexec.get(num, 0) + 1
    ctx.log.append(("exec", num, key))
    try:
        if num in fail_at:
            raise RuntimeError(f"scripted failure of unit {num}")
        res = fn(*args, **kwargs)
    except BaseException as exc:  # noqa: BLE001
        fut.set_exception(exc)
        return
    fut.set_result(res)


def recording_setup_internal(seg, info, orig):
    """setup_internal() that adopts the state into `seg` and records every prep_md_items / treat_output / loop
    of the scheduler as Pick / Complete / Finish events (plus Init or Restart)."""
    def setup_internal(config):
        md_items, state = orig(config)
        seg.state, seg.md_items, seg.N = state, md_items, state.n - 1
        sysdrv._DRAWS["state"] = state
        seg.restarted = "restarted_from" in config["current"]
        if os.path.isfile(state.data_file):
            with open(state.data_file) as fh:
                seg._rows_seen = len([ln for ln in fh if not ln.startswith("#")])
        live = [int(t.path_number) for t in state._trajs[:seg.N]]
        args = {"frac": [[pn, seg.frac_of(pn)] for pn in live if pn in state.traj_data],
                "seed": int(config["simulation"]["seed"])}
        if seg.restarted:
            args["rec"] = seg.read_restart()
            args["rows_on_disk"] = seg.rows_on_disk()
        seg.emit("Restart" if seg.restarted else "Init", args)
        orig_prep, orig_treat, orig_loop = state.prep_md_items, state.treat_output, state.loop

        def prep(md):
            mark = len(sysdrv._DRAWS["log"])
            kind = "reissue" if (state.toinitiate >= 0 and state.locked0) else ("init" if state.toinitiate >= 0 else "loop")
            out = orig_prep(md)
            seg._pick_event(out, kind, sysdrv._DRAWS["log"][mark:])
            return out

        def treat(md):
            info["ndeliv"] = info.get("ndeliv", 0) + 1
            snap = seg.pre_complete(md)
            out = orig_treat(md)
            seg.post_complete(snap, out)
            return out

        def loop():
            go = orig_loop()
            if not go:
                seg.emit("Finish", {"rec": seg.read_restart(), "inflight": []})
            return go
        state.prep_md_items, state.treat_output, state.loop = prep, treat, loop
        return md_items, state
    return setup_internal


def run_scheduler(root, n, workers, steps, order_script, outcomes, fail_at=(), seed=0, restart_steps=None, watchdog=90.0):
    """One run of the real scheduler().  outcomes: function(md) -> (acc, rows) for the scripted move.
    Returns (events, info)."""
    from infretis import asyncrunner, scheduler as isched, setup as isetup
    from infretis.core import tis
    info = {"error": None, "raised": None, "hung": False, "nexec": {}, "ndeliv": 0, "nsubmit": 0, "threads_after": 0}
    ctx = Ctx()
    seg = sysdrv.Segment(root, inp="restart.toml" if restart_steps else "infretis.toml")
    saved = {}

    def patch(obj, name, new):
        saved[(obj, name)] = getattr(obj, name)
        setattr(obj, name, new)

    holder = {}

    setup_internal = recording_setup_internal(seg, info, isetup.setup_internal)

    def setup_runner(state):
        runner, futures = saved[(isetup, "setup_runner")](state)
        holder["runner"], holder["futures"] = runner, futures
        orig_as = futures.as_completed

        def as_completed():
            ctx.entered += 1
            ctx.waiting.set()
            try:
                return orig_as()
            finally:
                ctx.waiting.clear()
        futures.as_completed = as_completed
        orig_submit = runner.submit_work

        def submit(unit):
            info["nsubmit"] += 1
            return orig_submit(unit)
        runner.submit_work = submit
        orig_stop = runner.stop

        def stop():
            # a real worker would finish its job sooner or later: release what is still blocked
            ctx.stopping.set()
            return orig_stop()
        runner.stop = stop
        return runner, futures

    def scripted_select(picked, start_cond=("L",)):
        sysreplay._SCRIPT["outcome"] = outcomes(picked)
        return sysreplay._scripted_select_shoot(picked, start_cond)

    os.chdir(root)
    sysdrv.reset_infretis_globals()
    from infretis.classes import repex
    repex.default_rng = sysdrv._default_rng
    sysdrv._DRAWS.update({"log": [], "oracle": None, "state": None})
    patch(asyncrunner.concurrent.futures, "ProcessPoolExecutor", ScriptedExecutor)
    patch(isetup, "setup_internal", setup_internal)
    patch(isched, "setup_internal", setup_internal)
    patch(isetup, "setup_runner", setup_runner)
    patch(isched, "setup_runner", setup_runner)
    patch(tis, "select_shoot", scripted_select)
    nthreads0 = threading.active_count()
    th = threading.Thread(target=controller, daemon=True,
                          args=(ctx, order_script, set(fail_at),
                                lambda: sum(1 for f in list(holder["futures"]._futures) if not f.done()) if "futures" in holder else 0, watchdog))
    result = {}

    def main():
        try:
            if restart_steps:
                import tomli
                import tomli_w
                with open("restart.toml", "rb") as fh:
                    cfg = tomli.load(fh)
                cfg["simulation"]["steps"] = restart_steps
                with open("restart.toml", "wb") as fh:
                    tomli_w.dump(cfg, fh)
            config = isetup.setup_config(seg.inp)
            if config is None:
                result["none"] = True
                return
            isched.scheduler(config)
        except BaseException as exc:  # noqa: BLE001
            import traceback
            result["exc"] = exc
            result["tb"] = traceback.format_exc()[-1200:]
    mt = threading.Thread(target=main, daemon=True)
    try:
        th.start()
        mt.start()
        mt.join(watchdog)
        if mt.is_alive():
            info["hung"] = True
        if "exc" in result:
            exc = result["exc"]
            if isinstance(exc, RuntimeError) and "scripted failure" in str(exc):
                info["raised"] = str(exc)
            else:
                info["error"] = {"type": type(exc).__name__, "msg": str(exc)[:300], "tb": result["tb"]}
        ctx.stopping.set()
        if info["raised"] and "runner" in holder:
            # scheduler() let the task's exception propagate and never reached runner.stop()
            st = threading.Thread(target=holder["runner"].stop, daemon=True)
            st.start()
            st.join(20)
            info["stop_hung"] = st.is_alive()
        th.join(10)
        time.sleep(0.05)
        info["threads_after"] = threading.active_count() - nthreads0
        info["nexec"] = dict(ctx.nexec)
        info["refused"] = bool(result.get("none"))
        if "runner" in holder:
            r = holder["runner"]
            info["queue_left"] = r._queue.qsize()
            info["loop_thread_alive"] = r._thread.is_alive()
    finally:
        for (obj, name), val in saved.items():
            setattr(obj, name, val)
        sysdrv.reset_infretis_globals()
        sysdrv._DRAWS.update({"oracle": None, "state": None})
    return seg.events, info


# ---------------------------------------------------------------------------
def runner_only(script, n_workers, timeout=30.0):
    """Drive aiorunner + future_list alone along a Runner.tla behaviour.

    script: list of actions ("submit", u) / ("finish", u, ok) / ("deliver",)
    Returns a dict with the observed counts (or hung=True)."""
    from infretis import asyncrunner
    saved = asyncrunner.concurrent.futures.ProcessPoolExecutor
    asyncrunner.concurrent.futures.ProcessPoolExecutor = ScriptedExecutor
    out = {"hung": False, "delivered": [], "errors": [], "nexec": {}, "stopped": False}
    runs = {}

    def task(md):
        runs[md["unit"]] = runs.get(md["unit"], 0) + 1
        if md.get("fail"):
            raise ValueError(f"unit {md['unit']} fails")
        md["done"] = True
        return md

    def body():
        runner = asyncrunner.aiorunner({}, n_workers)
        runner.set_task(task)
        runner.start()
        futures = asyncrunner.future_list()
        ex = ScriptedExecutor.current
        for act in script:
            if act[0] == "submit":
                futures.add(runner.submit_work({"unit": act[1], "fail": act[2]}))
            elif act[0] == "finish":
                t1 = time.time() + 5
                item = None
                while item is None and time.time() < t1:
                    with ex.lock:
                        for i, it in enumerate(ex.pending):
                            if unit_key(it[1], it[2]) == act[1]:
                                item = ex.pending.pop(i)
                                break
                    if item is None:
                        time.sleep(0.005)
                if item is None:
                    out["errors"].append(f"unit {act[1]} never reached the executor")
                    continue
                num, fn, args, kwargs, fut = item
                try:
                    fut.set_result(fn(*args, **kwargs))
                except BaseException as exc:  # noqa: BLE001
                    fut.set_exception(exc)
            elif act[0] == "deliver":
                f = futures.as_completed()
                if f is None:
                    out["delivered"].append(None)
                    continue
                try:
                    res = f.result()
                    out["delivered"].append(("result", res["unit"]))
                except Exception as exc:  # noqa: BLE001
                    out["delivered"].append(("exception", str(exc)))
        out["left_in_list"] = len(futures._futures)
        runner.stop()
        out["stopped"] = not runner._thread.is_alive()
        out["queue_left"] = runner._queue.qsize()

    th = threading.Thread(target=body, daemon=True)
    th.start()
    th.join(timeout)
    out["hung"] = th.is_alive()
    out["nexec"] = dict(runs)
    asyncrunner.concurrent.futures.ProcessPoolExecutor = saved
    return out
