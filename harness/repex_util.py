"""Helpers to build and project a real REPEX_state (imports infretis from /repo)."""

from __future__ import annotations

import importlib.util  # noqa: F401  must precede infretis (factory.py uses it un-imported)
import os
import sys

import numpy as np

REPO = os.environ.get("VERIF_REPO", "/repo")
if REPO not in sys.path:
    sys.path.insert(0, REPO)


def bare_config(n_ens, workers=1, seed=0, steps=10, moves=None, interfaces=None, cap=None, **out):
    """A minimal in-memory configuration with n_ens ensembles ([0-], [0+], ...)."""
    interfaces = interfaces or [float(i) + 0.5 for i in range(n_ens)]
    moves = moves or ["sh"] * n_ens
    tis = {"maxlength": 50, "allowmaxlength": False, "zero_momentum": False, "n_jumps": 2,
           "quantis": False, "lambda_minus_one": False, "accept_all": False}
    if cap is not None:
        tis["interface_cap"] = cap
    cfg = {
        "runner": {"workers": workers},
        "simulation": {"interfaces": list(interfaces), "steps": steps, "seed": seed, "load_dir": "load",
                       "shooting_moves": list(moves), "tis_set": tis,
                       "ensemble_engines": [["engine"] for _ in range(n_ens)]},
        "output": {"data_dir": "./", "screen": 0, "pattern": False, "delete_old": False,
                   "delete_old_all": False, "data_file": "./infretis_data.txt"},
        "current": {"traj_num": n_ens, "cstep": 0, "active": list(range(n_ens)), "locked": [],
                    "size": n_ens, "frac": {}},
    }
    cfg["output"].update(out)
    return cfg


def new_state(n_ens, **kw):
    from infretis.classes.repex import REPEX_state
    REPEX_state.traj_data = {}
    REPEX_state.ensembles = {}
    REPEX_state.engine_occ = {}
    return REPEX_state(bare_config(n_ens, **kw), minus=True)


def with_ghost(mat):
    """N x N weight matrix -> (N+1) x (N+1) with the zero ghost row/column."""
    n = len(mat)
    out = np.zeros((n + 1, n + 1))
    out[:n, :n] = np.array(mat, dtype=float)
    return out


def locks_vec(n, locked):
    v = np.zeros(n + 1)
    v[n] = 1
    for e in locked:
        v[e] = 1
    return v
