"""Construct the real engine classes from the repository's example inputs (the way the
repository's own tests do) and exercise modify_velocities on them."""

from __future__ import annotations

import importlib.util  # noqa: F401
import os
import shutil
import sys

import numpy as np

REPO = os.environ.get("VERIF_REPO", "/repo")
if REPO not in sys.path:
    sys.path.insert(0, REPO)
EX = os.path.join(REPO, "examples")

# Independent unit table: k_B in the engine's energy unit per kelvin, and the factor that turns
# sqrt(energy / mass unit) into the engine's velocity unit.  (CODATA values.)
KB = {
    "gromacs": 0.0083144626,        # kJ/mol/K ; mass g/mol ; (kJ/g)^0.5 = nm/ps
    "cp2k": 3.1668115634556e-06,    # hartree/K ; mass in electron masses ; atomic units of velocity
    "lammps": 0.0019872067,         # kcal/mol/K ; mass g/mol ; 1 A/fs = 48.88821291 (kcal/g)^0.5
    "ase": 8.617333262e-05,         # eV/K ; mass amu ; (eV/amu)^0.5 = ASE velocity unit
    "turtlemd": None,               # reduced units: boltzmann constant from the input
}
AMU_IN_ME = 1822.888486209


HETERO = [1.008, 15.999]      # unequal masses (amu): momentum removal has to be mass weighted


def build(name, hetero=False, work=None):
    """Returns (engine, initial configuration file, info dict with masses/temperature in engine units).

    hetero: give the two atoms unequal masses (through the engine's own way of learning masses where
    that is an input, otherwise by setting the attribute the engine reads)."""
    import tomli
    amu = np.array(HETERO if hetero else [1.008, 1.008])
    if name == "turtlemd":
        from infretis.classes.engines.factory import create_engine
        ip = os.path.join(EX, "turtlemd", "H2")
        with open(os.path.join(ip, "infretis.toml"), "rb") as fh:
            cfg = tomli.load(fh)
        if hetero:
            cfg["engine"]["particles"]["mass"] = [1.0, 3.0]
        eng = create_engine(cfg)
        mass = np.array(cfg["engine"]["particles"]["mass"], dtype=float)
        info = {"kbt": cfg["engine"]["boltzmann"] * cfg["engine"]["temperature"], "mass": mass, "vfac": 1.0}
        return eng, os.path.join(ip, f"conf.{eng.ext}"), info
    if name == "turtlemd1d":       # the one-dimensional double well: three velocity columns in the file, one degree of freedom
        from infretis.classes.engines.factory import create_engine
        ip = os.path.join(EX, "turtlemd", "double_well")
        with open(os.path.join(ip, "infretis.toml"), "rb") as fh:
            cfg = tomli.load(fh)
        if hetero:
            cfg["engine"]["particles"]["mass"] = [3.0]
        eng = create_engine(cfg)
        mass = np.array(cfg["engine"]["particles"]["mass"], dtype=float)
        info = {"kbt": cfg["engine"]["boltzmann"] * cfg["engine"]["temperature"], "mass": mass, "vfac": 1.0}
        conf = os.path.join(work or "/tmp", "conf_dw.xyz")
        with open(conf, "w") as fh:
            fh.write("1\n# double well\nZ    -0.900000000     0.000000000     0.000000000     0.250000000     0.000000000     0.000000000\n")
        return eng, conf, info
    if name == "lammps":
        from infretis.classes.engines.lammps import LAMMPSEngine
        ip = os.path.join(EX, "lammps", "H2", "lammps_input")
        eng = LAMMPSEngine("lmp_mpi", ip, 0, 0, 300)
        if hetero:
            eng.mass = amu.reshape(-1, 1).copy()
        info = {"kbt": KB["lammps"] * 300, "mass": amu, "vfac": 1.0 / 48.88821290839617}
        return eng, os.path.join(ip, f"conf.{eng.ext}"), info
    if name == "gromacs":
        from infretis.classes.engines.gromacs import GromacsEngine
        ip = os.path.join(EX, "gromacs", "H2", "gromacs_input")
        eng = GromacsEngine("echo", ip, 0, 0, 300, masses=[float(m) for m in amu], infretis_genvel=True)
        info = {"kbt": KB["gromacs"] * 300, "mass": amu, "vfac": 1.0}
        return eng, os.path.join(ip, f"conf.{eng.ext}"), info
    if name == "cp2k":
        from infretis.classes.engines.cp2k import CP2KEngine
        ip = os.path.join(EX, "cp2k", "H2", "cp2k_input")
        eng = CP2KEngine("cp2k", ip, 1, 1, 300)
        if hetero:
            eng.mass = (amu * AMU_IN_ME).reshape(-1, 1)
        info = {"kbt": KB["cp2k"] * 300, "mass": amu * AMU_IN_ME, "vfac": 1.0}
        return eng, os.path.join(ip, f"conf.{eng.ext}"), info
    if name == "ase":
        from infretis.classes.engines.factory import create_engine
        ip = os.path.join(EX, "ase", "H2")
        with open(os.path.join(ip, "infretis0.toml"), "rb") as fh:
            cfg = tomli.load(fh)
        cfg["engine"]["calculator_settings"]["module"] = os.path.join(ip, "H2-calc.py")
        eng = create_engine(cfg)
        info = {"kbt": KB["ase"] * cfg["engine"]["temperature"], "mass": amu, "vfac": 1.0}
        conf = os.path.join(ip, f"conf.{eng.ext}")
        if hetero:
            import ase.io
            atoms = ase.io.read(conf)
            atoms.set_masses(HETERO)
            conf = os.path.join(work, f"conf_hetero.{eng.ext}")
            ase.io.write(conf, atoms)
        return eng, conf, info
    raise ValueError(name)


def masses_of(eng, info):
    """Masses for the bookkeeping clauses: the engine's own table where it has one (atomic-mass tables differ in the 5th digit
    between programs); with hetero=True that attribute was set from HETERO by build()."""
    for attr in ("mass", "masses"):
        m = getattr(eng, attr, None)
        if m is not None:
            return np.asarray(m, dtype=float).reshape(-1)
    return np.asarray(info["mass"], dtype=float).reshape(-1)


def read_conf(eng, filename):
    out = eng._read_configuration(filename)
    xyz, vel, box = np.array(out[0], dtype=float), np.array(out[1], dtype=float), out[2]
    names = out[3] if len(out) > 3 else None
    return xyz, vel, (None if box is None else np.array(box, dtype=float)), (None if names is None else list(names))


def kinetic(vel, mass):
    return 0.5 * float(np.sum(mass[:, None] * vel * vel))


def make_multiframe(name, eng, conf, path_noext, nframes=3):
    """A multi-frame trajectory in the engine's own trajectory format, written with the harness' independent writers
    (ASE: through ase.io).  Frame j: the example configuration shifted by 0.01*j with its own small velocities.
    Returns (file, [(pos, vel, box)])."""
    from harness import writers
    x0, v0, b0, names = read_conf(eng, conf)
    n = x0.shape[0]
    frames = []
    for j in range(nframes):
        pos = x0 + 0.01 * j
        vel = np.array([[0.001 * (j + 1) * (a + 1) * (1 if c == 0 else -0.5) for c in range(3)] for a in range(n)])
        # the box differs from frame to frame (and from the engine's input configuration)
        frames.append((pos, vel, None if b0 is None else np.array(b0, dtype=float) * (1.0 + 0.01 * (j + 1))))
    if name in ("cp2k", "turtlemd", "turtlemd1d"):
        fn = path_noext + ".xyz"
        with open(fn, "w") as fh:
            for pos, vel, box in frames:
                fh.write(f"{n}\n# " + ("Box: " + " ".join(f"{b:9.4f}" for b in np.ravel(box)[:3]) if box is not None else "frame") + "\n")
                for a in range(n):
                    nm = names[a] if names else "X"
                    fh.write(f"{nm:5s}" + "".join(f" {c:15.9f}" for c in list(pos[a]) + list(vel[a])) + "\n")
    elif name == "lammps":
        fn = path_noext + ".lammpstrj"
        with open(fn, "wb") as fh:
            for j, (pos, vel, box) in enumerate(frames):
                fh.write(writers.lammpstrj_frame(j, list(range(1, n + 1)), pos.tolist(), vel.tolist(), [(0.0, float(b)) for b in np.ravel(box)[:3]], fmt="{:.10f}"))
    elif name == "gromacs":
        fn = path_noext + ".trr"
        with open(fn, "wb") as fh:
            for j, (pos, vel, box) in enumerate(frames):
                b = np.ravel(box)[:3]
                fh.write(writers.trr_frame(j, 0.002 * j, [[b[0], 0, 0], [0, b[1], 0], [0, 0, b[2]]], pos.tolist(), vel.tolist(), double=True)[0])
    elif name == "ase":
        import ase.io
        base = ase.io.read(conf)
        imgs = []
        for pos, vel, box in frames:
            a = base.copy()
            if box is not None:
                a.set_cell(np.ravel(box)[:3] if np.size(box) == 3 else np.array(box), scale_atoms=False)
            a.set_positions(pos)
            a.set_velocities(vel)
            imgs.append(a)
        fn = path_noext + ".traj"
        ase.io.write(fn, imgs)
    else:
        raise ValueError(name)
    return fn, frames
