"""Replay behaviours of Infretis.tla (from TLC) on the real code, and produce
randomised real runs; both yield event traces for the trace specification."""

from __future__ import annotations

import os
import random

import numpy as np

from harness import sysdrv, tlc


class Diverged(Exception):
    """The real code could not follow the scripted behaviour (not a verdict by itself)."""


class PickOracle:
    """Forces the scheduler's draws so that the pick chosen by TLC is made."""

    def __init__(self, seg, cells, zero_swap):
        self.seg, self.cells, self.zs = seg, list(cells), zero_swap
        self.k = 0

    def _row(self, pn):
        st = self.seg.state
        for i, t in enumerate(st._trajs[:-1]):
            if t.path_number == pn:
                return i
        raise Diverged(f"path {pn} is not live in the real state")

    def choice(self, p):
        if self.k >= len(self.cells):
            raise Diverged("code asked for more draws than the behaviour has")
        pn, ens = self.cells[self.k]
        self.k += 1
        n = self.seg.state.n
        row = self._row(pn)
        idx = row * n + ens if len(p) == n * n else row
        if not (0 <= idx < len(p)) or not p[idx] > 0:
            raise Diverged(f"cell (path {pn}, ens {ens}) has probability {p[idx] if 0 <= idx < len(p) else None} in the real code")
        return idx

    def random(self):
        return 0.0 if self.zs else 0.99


_SCRIPT = {"outcome": None, "count": 0}


def _scripted_select_shoot(picked, start_cond=("L",)):
    """Stands in for the MD move: returns the scripted outcome with real Path objects."""
    from infretis.classes.path import Path
    from infretis.classes.system import System
    acc, rows = _SCRIPT["outcome"]
    trials = []
    for k, ens_num in enumerate(picked.keys()):
        pens = picked[ens_num]
        if not acc:
            trials.append(pens["traj"])
            continue
        row = rows[k]
        if ens_num < 0:
            xs = [1, 0, 1]
        else:
            reach = max(j for j, v in enumerate(row) if v > 0)
            xs = list(range(0, reach + 1)) + list(range(reach - 1, -1, -1))
        _SCRIPT["count"] += 1
        fname = os.path.join(pens["exe_dir"], f"scripted_{os.getpid()}_{_SCRIPT['count']}.lat")
        with open(fname, "w") as fh:
            for x in xs:
                fh.write(f"{x} 1\n")
        p = Path(maxlen=pens["ens"]["tis_set"]["maxlength"])
        for i, x in enumerate(xs):
            s = System()
            s.order = [float(x)]
            s.config = (fname, i)
            s.vel_rev = False
            p.append(s)
        p.status = "ACC"
        p.generated = ("sh", float(xs[1]), 1, 1)
        p.weight = 1.0
        trials.append(p)
    return acc, trials, "ACC" if acc else "REJ"


def job_of(state, pin):
    j = state["jobs"][pin]
    return list(j["ens"]), list(j["pns"])


def script_of(behaviour):
    """Behaviour (list of (label, state)) -> list of script steps with arguments."""
    steps = []
    for k in range(1, len(behaviour)):
        label, post = behaviour[k]
        pre = behaviour[k - 1][1]
        name, args = tlc.label_parts(label)
        if name in ("InitPick", "LoopPick"):
            pin = args[0]
            ens, pns = job_of(post, pin)
            steps.append({"a": name, "pin": pin, "ens": ens, "pns": pns,
                          "reissue": name == "InitPick" and len(pre["locked0"]) > 0})
        elif name == "Complete":
            pin = args[0]
            ens, pns = job_of(pre, pin)
            acc = post["trajnum"] > pre["trajnum"]
            rows = []
            if acc:
                for i in range(len(ens)):
                    w = post["wt"][pre["trajnum"] + i]
                    rows.append([w[e] for e in sorted(w)])
            steps.append({"a": "Complete", "pin": pin, "acc": acc, "rows": rows, "ens": ens, "old": pns})
        elif name in ("Finish", "Kill", "InitSkip"):
            steps.append({"a": name})
        elif name == "Restart":
            steps.append({"a": "Restart", "tsteps": post["tsteps"]})
        else:
            raise ValueError(label)
    return steps


def replay_script(root, consts, steps, rnd):
    """Run one scripted behaviour on the real code.  Returns (events, info)."""
    from infretis.core import tis
    n, workers = consts["N"], consts["Workers"]
    sysdrv.cleanup(root)
    sysdrv.build_rundir(root, n, workers, consts["Steps"], seed=rnd.randrange(1000), screen=0,
                        ensemble_engines=consts.get("ensemble_engines"), extra_engines=consts.get("extra_engines", ()),
                        delete_old=consts.get("delete_old", False), delete_old_all=consts.get("delete_old_all", False))
    events, info = [], {"diverged": None, "error": None, "done": 0}
    seg = sysdrv.Segment(root)
    real_select = tis.select_shoot
    tis.select_shoot = _scripted_select_shoot
    try:
        if not seg.start():
            raise Diverged("setup_config returned None on a fresh directory")
        for step in steps:
            a = step["a"]
            if a in ("InitPick", "LoopPick"):
                if step["reissue"]:
                    sysdrv._DRAWS["oracle"] = None
                else:
                    ens, pns = step["ens"], step["pns"]
                    if len(ens) == 2:
                        order = [0, 1] if rnd.random() < 0.5 else [1, 0]
                        cells = [(pns[k], ens[k]) for k in order]
                    else:
                        cells = [(pns[0], ens[0])]
                    sysdrv._DRAWS["oracle"] = PickOracle(seg, cells, len(ens) == 2)
                ev = seg.next_init_pick() if a == "InitPick" else seg.loop_pick()
                sysdrv._DRAWS["oracle"] = None
                if ev is None:
                    raise Diverged(f"real code made no pick where the behaviour has {a}")
                if ev["pin"] != step["pin"]:
                    raise Diverged(f"real pick used pin {ev['pin']}, behaviour pin {step['pin']}")
            elif a == "Complete":
                if not seg.loop():
                    raise Diverged("state.loop() ended the run where the behaviour completes a job")
                pin = step["pin"]
                if pin not in seg.inflight:
                    raise Diverged(f"no job in flight on pin {pin}")
                _SCRIPT["outcome"] = (step["acc"], step["rows"])
                md = seg.run_job(pin)
                seg.complete(pin, md, do_pick=False)
            elif a == "InitSkip":
                if seg.next_init_pick() is not None:
                    raise Diverged("real code picked where the behaviour skips initiation")
            elif a == "Finish":
                if seg.next_init_pick() is not None:
                    raise Diverged("initiation not finished at Finish")
                guard = 0
                while seg.loop():
                    # scheduler(): as_completed() returns None when nothing is in flight and the loop goes on
                    guard += 1
                    if seg.inflight or guard > 50:
                        raise Diverged("state.loop() continues where the behaviour finishes")
            elif a == "Kill":
                events += seg.events
                seg.close()
                seg = None
            elif a == "Restart":
                if seg is not None:
                    events += seg.events
                    seg.close()
                seg = sysdrv.Segment(root, inp="restart.toml")
                if not seg.start(steps=step["tsteps"]):
                    raise Diverged("setup_config refused the restart")
            info["done"] += 1
    except Diverged as exc:
        info["diverged"] = str(exc)
    except Exception as exc:  # noqa: BLE001  -- the real code raised
        import traceback
        tb = traceback.extract_tb(exc.__traceback__)
        where = next((f"{os.path.basename(f.filename)}:{f.name}" for f in reversed(tb) if "/infretis/" in f.filename), "harness")
        info["error"] = {"type": type(exc).__name__, "msg": str(exc)[:300], "where": where,
                         "step": info["done"], "action": steps[info["done"]] if info["done"] < len(steps) else None}
    finally:
        tis.select_shoot = real_select
        sysdrv._DRAWS["oracle"] = None
        if seg is not None:
            events += seg.events
            seg.close()
        sysdrv.cleanup(root)
    return events, info


# ---------------------------------------------------------------------------
def renumber_restart(root, names):
    """Between two lifetimes: give the active paths of the restart file other numbers (directories, [current] active /
    locked / frac, traj_num), as if the run had been going on for much longer.  What a restart then finds on disk is a
    state the program could have written itself; numbers such as 21 and 211 are live together."""
    import tomli
    import tomli_w
    path = os.path.join(root, "restart.toml")
    with open(path, "rb") as fh:
        cfg = tomli.load(fh)
    cur = cfg["current"]
    active = [int(a) for a in cur["active"]]
    assert len(names) >= len(active) and min(names) > int(cur["traj_num"])
    mp = {old: new for old, new in zip(sorted(active), names)}
    load = os.path.join(root, cfg["simulation"].get("load_dir", "load"))
    for old, new in mp.items():
        os.rename(os.path.join(load, str(old)), os.path.join(load, str(new)))
    cur["active"] = [mp[a] for a in active]
    cur["locked"] = [[ens, [str(mp[int(p)]) for p in pns]] for ens, pns in cur.get("locked", [])]
    cur["frac"] = {str(mp.get(int(k), int(k))): v for k, v in cur.get("frac", {}).items() if int(k) in mp}
    cur["traj_num"] = max(names) + 1
    with open(path, "wb") as fh:
        tomli_w.dump(cfg, fh)


def random_run(root, n, workers, steps, seed, sched_seed, moves=None, cap=None, plan=(), **kw):
    """A real run: real draws, real lattice moves, random completion order.

    plan: sequence of ("kill", after_k_completions, between) / ("more", extra_steps) entries
    applied in order: the run is killed after k completions of the current lifetime
    (between=True: after treat_output but before the follow-up pick) and restarted, or, after a
    clean finish, restarted with more steps."""
    rnd = random.Random(sched_seed)
    sysdrv.cleanup(root)
    sysdrv.build_rundir(root, n, workers, steps, seed=seed, moves=moves, cap=cap, **kw)
    events, info = [], {"error": None, "segments": 0, "completions": 0}
    plan = list(plan)
    seg = sysdrv.Segment(root)
    tsteps = steps
    try:
        ok = seg.start()
        while ok:
            info["segments"] += 1
            kill_at = None
            if plan and plan[0][0] == "kill":
                _, kill_at, between = plan.pop(0)
            for _ in seg.init_picks():
                pass
            ncomp, killed = 0, False
            while True:
                if kill_at is not None and ncomp >= kill_at and not between:
                    killed = True
                    break
                if not seg.loop():
                    break
                if not seg.inflight:
                    continue       # scheduler(): as_completed() returns None, nothing to treat
                pin = rnd.choice(sorted(seg.inflight))
                md = seg.run_job(pin)
                stop_between = kill_at is not None and ncomp + 1 >= kill_at and between
                seg.complete(pin, md, do_pick=not stop_between)
                ncomp += 1
                info["completions"] += 1
                if stop_between:
                    killed = True
                    break
            events += seg.events
            seg.close()
            seg = None
            if killed:
                if plan and plan[0][0] == "renumber":
                    renumber_restart(root, plan.pop(0)[1])
                seg = sysdrv.Segment(root, inp="restart.toml")
                ok = seg.start()
                continue
            if plan and plan[0][0] == "more":
                tsteps += plan.pop(0)[1]
                seg = sysdrv.Segment(root, inp="restart.toml")
                ok = seg.start(steps=tsteps)
                continue
            break
    except Exception as exc:  # noqa: BLE001
        import traceback
        tb = traceback.extract_tb(exc.__traceback__)
        where = next((f"{os.path.basename(f.filename)}:{f.name}" for f in reversed(tb) if "/infretis/" in f.filename), "harness")
        info["error"] = {"type": type(exc).__name__, "msg": str(exc)[:300], "where": where,
                         "tb": traceback.format_exc()[-1500:]}
        if seg is not None:
            events += seg.events
    finally:
        if seg is not None:
            seg.close()
    return events, info
