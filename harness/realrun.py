"""The unmodified scheduler() with a real process pool and real moves (the lattice engine loaded through
the plug-in interface), recorded from inside the main process and - optionally - killed with SIGKILL at
an arbitrary moment, then restarted by the real scheduler() again.

Nothing of infretis is replaced: the recorder wraps the bound methods prep_md_items / treat_output /
loop of the REPEX_state instance that setup_internal returns (the same recorder the scripted-executor
driver uses), every event is flushed to disk as it is made.  The whole lifetime runs in a forked child
in its own session; the parent kills the session (main process and pool workers) when told to, or after
the run, so that no pool worker survives.
"""

from __future__ import annotations

import json
import os
import signal
import sys
import time

from harness import scheddrv, sysdrv

EXIT_NONE = 3      # setup_config returned None
EXIT_RAISE = 4


def _lifetime(root, inp, events_path, steps):
    from infretis import scheduler as isched, setup as isetup
    from infretis.classes import repex
    import multiprocessing
    # this process may descend from a daemonic pool worker of the harness; the program under test starts its own pool
    multiprocessing.current_process()._config["daemon"] = False
    os.chdir(root)
    sysdrv.reset_infretis_globals()
    repex.default_rng = sysdrv._default_rng
    sysdrv._DRAWS.update({"log": [], "oracle": None, "state": None})
    seg = sysdrv.Segment(root, inp=inp)
    seg.sink = open(events_path, "a")
    info = {}
    rec = scheddrv.recording_setup_internal(seg, info, isetup.setup_internal)
    isetup.setup_internal = rec
    isched.setup_internal = rec
    try:
        if steps is not None and inp == "restart.toml":
            import tomli
            import tomli_w
            with open("restart.toml", "rb") as fh:
                cfg = tomli.load(fh)
            cfg["simulation"]["steps"] = steps
            with open("restart.toml", "wb") as fh:
                tomli_w.dump(cfg, fh)
        config = isetup.setup_config(inp)
        if config is None:
            seg.sink.write(json.dumps({"ev": "_refused"}) + "\n")
            seg.sink.flush()
            return EXIT_NONE
        isched.scheduler(config)
        seg.sink.write(json.dumps({"ev": "_done"}) + "\n")
        seg.sink.flush()
        return 0
    except BaseException as exc:  # noqa: BLE001
        import traceback
        tb = traceback.extract_tb(exc.__traceback__)
        where = next((f"{os.path.basename(f.filename)}:{f.name}" for f in reversed(tb) if "/infretis/" in f.filename), "harness")
        seg.sink.write(json.dumps({"ev": "_error", "type": type(exc).__name__, "msg": str(exc)[:300], "where": where,
                                   "tb": traceback.format_exc()[-1500:]}) + "\n")
        seg.sink.flush()
        return EXIT_RAISE


def run_lifetime(root, inp, events_path, steps=None, kill_after=None, timeout=120.0):
    """Fork, run one lifetime of the real program, kill its whole session.  Returns (status, killed):
    status is the child's exit status, or None if it was killed."""
    pid = os.fork()
    if pid == 0:
        try:
            os.setsid()
            devnull = os.open(os.devnull, os.O_WRONLY)
            os.dup2(devnull, 1)
            os.dup2(devnull, 2)
            rc = _lifetime(root, inp, events_path, steps)
        except SystemExit as exc:
            rc = exc.code if isinstance(exc.code, int) else 1
        except BaseException:  # noqa: BLE001
            rc = 5
        sys.stdout.flush()
        os._exit(rc if isinstance(rc, int) else 0)
    t0 = time.time()
    t_mark = None
    killed = False
    status = None
    while True:
        done, st = os.waitpid(pid, os.WNOHANG)
        if done:
            status = os.waitstatus_to_exitcode(st)
            break
        el = time.time() - t0
        due = False
        if isinstance(kill_after, (int, float)):
            due = el >= kill_after
        elif kill_after is not None:          # ("ev", k, delay): `delay` seconds after the k-th recorded event reached the disk
            if t_mark is None:
                try:
                    with open(events_path, "rb") as fh:
                        if fh.read().count(b"\n") >= kill_after[1]:
                            t_mark = time.time()
                except OSError:
                    pass
            due = t_mark is not None and time.time() - t_mark >= kill_after[2]
        if due or el >= timeout:
            killed = True
            try:
                os.killpg(pid, signal.SIGKILL)
            except OSError:
                pass
            os.waitpid(pid, 0)
            break
        time.sleep(0.003)
    try:
        os.killpg(pid, signal.SIGKILL)       # pool workers of a finished run
    except OSError:
        pass
    return status, killed, time.time() - t0


def read_events(path):
    evs = []
    if os.path.isfile(path):
        with open(path) as fh:
            for ln in fh:
                ln = ln.strip()
                if not ln:
                    continue
                try:
                    evs.append(json.loads(ln))
                except ValueError:
                    pass          # a line cut off by the kill
    return evs


def real_run(root, n, workers, steps, seed, moves=None, cap=None, kills=(), sleep=0.0, more=0, **kw):
    """A whole history: a fresh run, killed after kills[0] seconds, restarted, killed after kills[1], ..., then run to the end
    (and, with more > 0, continued for `more` further steps).  Returns {"events": [...], "problems": [...], "lifetimes": [...]}."""
    sysdrv.cleanup(root)
    if kw.pop("turtle", False):      # the repository's TurtleMD double-well example (8 ensembles) instead of the lattice plug-in
        from harness import turtlerun
        turtlerun.build(root, seed, steps, moves or ["sh", "sh", "wf", "wf", "wf", "wf", "wf", "wf"], workers=workers)
    else:
        sysdrv.build_rundir(root, n, workers, steps, seed=seed, moves=moves, cap=cap, sleep=sleep, screen=0, **kw)
    evp = os.path.join(root, "real_events.jsonl")
    out = {"events": [], "problems": [], "lifetimes": []}
    inp = "infretis.toml"
    clean = True
    plan = list(kills) + [None] + ([("more", more)] if more else [])
    target = steps
    for item in plan:
        if os.path.exists(evp):
            os.remove(evp)
        ka = item if isinstance(item, (int, float)) or (isinstance(item, tuple) and item[0] == "ev") else None
        if isinstance(item, tuple) and item[0] == "more":
            target += item[1]
        status, killed, wall = run_lifetime(root, inp, evp, steps=target if inp == "restart.toml" else None, kill_after=ka)
        evs = read_events(evp)
        real = [e for e in evs if not e["ev"].startswith("_")]
        if real and real[0]["ev"] == "Restart":
            real[0]["clean"] = clean
        out["events"] += real
        out["lifetimes"].append({"status": status, "killed": killed, "wall": round(wall, 3), "events": len(real)})
        err = next((e for e in evs if e.get("ev") == "_error"), None)
        if killed:
            if ka is None:
                out["problems"].append(("hang", "the real scheduler did not finish within the time limit"))
                break
            clean = False
            if not os.path.isfile(os.path.join(root, "restart.toml")):
                out["nothing_to_restart"] = True
                break
            inp = "restart.toml"
            continue
        if status == EXIT_NONE:
            out["problems"].append(("starts", "setup_config refused to restart from what is on disk (returned None)"))
            break
        if status == EXIT_RAISE:
            out["problems"].append((f"raise:{err['type']}:{err['where']}" if err else "raise",
                                    f"the real scheduler raised {err['type']} in {err['where']}: {err['msg']}" if err else "the run failed"))
            break
        if status != 0:
            out["problems"].append(("child", f"child exit status {status}"))
            break
        if ka is not None:
            out["finished_before_kill"] = True      # the run ended before the kill was due: a clean stop
            clean = True
        inp = "restart.toml"
    # the data file at the very end: every replaced path exactly once
    df = os.path.join(root, "infretis_data.txt")
    if os.path.isfile(df) and not out["problems"] and not out.get("nothing_to_restart"):
        pns = []
        with open(df) as fh:
            for ln in fh:
                if not ln.startswith("#") and ln.strip():
                    try:
                        pns.append(int(float(ln.split("\t")[1])))
                    except (ValueError, IndexError):
                        out["problems"].append(("rows:torn", f"a cut-off row remains in the data file: {ln[:40]!r}"))
        dup = sorted({p for p in pns if pns.count(p) > 1})
        if dup:
            out["problems"].append(("rows:duplicate", f"paths {dup} appear more than once in the data file"))
    sysdrv.cleanup(root)
    return out
