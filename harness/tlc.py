"""Run TLC and read what it produces (statistics, coverage, state graphs, values).

Nothing here knows about infretis.  Exit-code convention of the callers:
0 held, 1 violation (real code left the specification), 2 machinery failure.
"""

from __future__ import annotations

import os
import re
import shutil
import subprocess
import tempfile
import time

SPEC_DIR = os.path.join(os.path.dirname(os.path.dirname(os.path.abspath(__file__))), "spec")
JAR = "/opt/veriftools/tla/tla2tools.jar:/opt/veriftools/tla/CommunityModules-deps.jar"


class TLCError(Exception):
    """TLC itself failed (parse error, evaluation error, time-out)."""


class TLCResult(dict):
    """states, distinct, depth, wall_s, actions {name: (distinct, total)}, ok, violated."""


def scratch_dir(prefix="verif-"):
    return tempfile.mkdtemp(prefix=prefix, dir=os.environ.get("VERIF_TMP", "/tmp"))


_ACT = re.compile(r"^<(\w+) line \d+, col \d+ to line \d+, col \d+ of module (\w+)(?: \([\d ]+\))?>: (\d+):(\d+)\s*$")
_GEN = re.compile(r"(\d+) states generated, (\d+) distinct states found")
_DEPTH = re.compile(r"The depth of the complete state graph search is (\d+)")
_SIMGEN = re.compile(r"The number of states generated: (\d+)")


def run_tlc(module, cfg, *, workers=16, cwd=None, extra=(), env=None, timeout=3600,
            coverage=True, dump=None, java_opts=(), keep_output=False, heap=None,
            allow_violation=False, simulate=None, depth=None, seed=None):
    """Run TLC on spec/<module>.tla with spec/<cfg>; returns a TLCResult.

    allow_violation: a property violation is returned in the result (ok=False)
    instead of raised; TLC errors other than violations always raise.
    """
    work = cwd or scratch_dir("tlc-")
    own = cwd is None
    meta = os.path.join(work, "meta")
    modpath = module if os.path.isabs(module) else os.path.join(SPEC_DIR, module + ".tla")
    cfgpath = cfg if os.path.isabs(cfg) else os.path.join(SPEC_DIR, cfg)
    jtmp = os.path.join(work, "jtmp")        # TLC leaves an empty tlc-<n> directory in java.io.tmpdir per run: keep them in the scratch tree
    os.makedirs(jtmp, exist_ok=True)
    cmd = ["java", "-XX:+UseParallelGC", f"-Djava.io.tmpdir={jtmp}"]
    if heap:
        cmd.append(f"-Xmx{heap}")
    cmd += list(java_opts)
    cmd += ["-cp", JAR, "tlc2.TLC", "-workers", str(workers), "-metadir", meta,
            "-noGenerateSpecTE", "-config", cfgpath]
    if coverage:
        cmd += ["-coverage", "1"]
    if dump:
        cmd += ["-dump", "dot,actionlabels", dump]
    if simulate:
        cmd += ["-simulate", simulate]
    if depth:
        cmd += ["-depth", str(depth)]
    if seed is not None:
        cmd += ["-seed", str(seed)]
    cmd += list(extra)
    cmd.append(modpath)
    e = dict(os.environ)
    e.pop("JAVA_TOOL_OPTIONS", None)
    if env:
        e.update(env)
    t0 = time.time()
    try:
        p = subprocess.run(cmd, cwd=work, env=e, stdout=subprocess.PIPE, stderr=subprocess.STDOUT,
                           timeout=timeout, text=True, errors="replace")
    except subprocess.TimeoutExpired as exc:
        if own:
            shutil.rmtree(work, ignore_errors=True)
        raise TLCError(f"TLC timed out after {timeout}s on {module}/{cfg}") from exc
    out = p.stdout
    res = TLCResult(module=os.path.basename(modpath), cfg=os.path.basename(cfgpath), wall_s=round(time.time() - t0, 2),
                    actions={}, states=0, distinct=0, depth=0, ok=False, violated=None, rc=p.returncode)
    for line in out.splitlines():
        m = _ACT.match(line)
        if m:
            name = m.group(1)
            d, t = int(m.group(3)), int(m.group(4))
            od, ot = res["actions"].get(name, (0, 0))
            res["actions"][name] = (od + d, ot + t)
            continue
        m = _GEN.search(line)
        if m:
            res["states"], res["distinct"] = int(m.group(1)), int(m.group(2))
        m = _DEPTH.search(line)
        if m:
            res["depth"] = int(m.group(1))
        m = _SIMGEN.search(line)
        if m:
            res["states"] = int(m.group(1))
    if "Model checking completed. No error has been found." in out or (
            simulate and p.returncode == 0 and "Error:" not in out):
        res["ok"] = True
    else:
        m = re.search(r"Error: Invariant (\w+) is violated", out)
        m2 = re.search(r"Error: Action property (\w+) is violated", out)
        m3 = re.search(r"Error: Temporal properties were violated", out)
        m4 = re.search(r"Error: Deadlock reached", out)
        m5 = re.search(r"Error: Assumption .* is false", out)
        m6 = re.search(r"Error: The postcondition .*? (?:is|was) (?:violated|false)", out, re.S)
        if m:
            res["violated"] = m.group(1)
        elif m2:
            res["violated"] = m2.group(1)
        elif m3:
            res["violated"] = "temporal"
        elif m4:
            res["violated"] = "deadlock"
        elif m5:
            res["violated"] = "assumption"
        elif m6:
            res["violated"] = "postcondition"
    if keep_output or not res["ok"]:
        res["output"] = out
    if own:
        shutil.rmtree(work, ignore_errors=True)
    if not res["ok"] and not (allow_violation and res["violated"]):
        tail = "\n".join(out.splitlines()[-60:])
        raise TLCError(f"TLC failed on {module}/{cfg} (rc={p.returncode}, violated={res['violated']}):\n{tail}")
    return res


def vacuity(res, required_actions):
    """Names of required actions that TLC never took (coverage count zero)."""
    return [a for a in required_actions if res["actions"].get(a, (0, 0))[1] == 0]


# --------------------------------------------------------------------------
# TLA+ value parser (the subset TLC prints): integers, strings, booleans,
# model values, <<tuples>>, {sets}, [records |-> ..], (functions :> .. @@ ..)
# Functions become dicts, records dicts with str keys, tuples lists, sets
# frozensets (of hashable conversions), a function with domain 1..n a list.

class _P:
    def __init__(self, s):
        self.s = s
        self.i = 0

    def ws(self):
        s, n = self.s, len(self.s)
        while self.i < n and s[self.i] in " \t\r\n":
            self.i += 1

    def peek(self, k=1):
        return self.s[self.i:self.i + k]

    def eat(self, tok):
        self.ws()
        if not self.s.startswith(tok, self.i):
            raise ValueError(f"expected {tok!r} at {self.i}: {self.s[self.i:self.i+40]!r}")
        self.i += len(tok)

    def value(self):
        self.ws()
        c = self.peek()
        if c == "<" and self.peek(2) == "<<":
            self.i += 2
            out = []
            self.ws()
            if self.peek(2) == ">>":
                self.i += 2
                return out
            while True:
                out.append(self.value())
                self.ws()
                if self.peek(2) == ">>":
                    self.i += 2
                    return out
                self.eat(",")
        if c == "{":
            self.i += 1
            out = []
            self.ws()
            if self.peek() == "}":
                self.i += 1
                return frozenset()
            while True:
                out.append(_freeze(self.value()))
                self.ws()
                if self.peek() == "}":
                    self.i += 1
                    return frozenset(out)
                self.eat(",")
        if c == "[":
            self.i += 1
            out = {}
            while True:
                self.ws()
                m = re.compile(r"\w+").match(self.s, self.i)
                key = m.group(0)
                self.i = m.end()
                self.eat("|->")
                out[key] = self.value()
                self.ws()
                if self.peek() == "]":
                    self.i += 1
                    return out
                self.eat(",")
        if c == "(":
            self.i += 1
            out = {}
            while True:
                k = self.value()
                self.eat(":>")
                v = self.value()
                out[_freeze(k)] = v
                self.ws()
                if self.peek() == ")":
                    self.i += 1
                    break
                self.eat("@@")
            return out
        if c == '"':
            j = self.i + 1
            buf = []
            while self.s[j] != '"':
                if self.s[j] == "\\":
                    j += 1
                buf.append(self.s[j])
                j += 1
            self.i = j + 1
            return "".join(buf)
        m = re.compile(r"-?\d+").match(self.s, self.i)
        if m:
            self.i = m.end()
            # a range a..b
            self.ws()
            if self.peek(2) == "..":
                self.i += 2
                hi = self.value()
                return frozenset(range(int(m.group(0)), hi + 1))
            return int(m.group(0))
        m = re.compile(r"\w+").match(self.s, self.i)
        if m:
            self.i = m.end()
            w = m.group(0)
            if w == "TRUE":
                return True
            if w == "FALSE":
                return False
            return w
        raise ValueError(f"cannot parse at {self.i}: {self.s[self.i:self.i+40]!r}")


def _freeze(v):
    if isinstance(v, list):
        return tuple(_freeze(x) for x in v)
    if isinstance(v, dict):
        return tuple(sorted((k, _freeze(x)) for k, x in v.items()))
    return v


def parse_value(text):
    p = _P(text)
    v = p.value()
    p.ws()
    if p.i != len(p.s):
        raise ValueError(f"trailing text: {p.s[p.i:p.i+40]!r}")
    return v


def parse_state(text):
    """'/\\ a = v\n/\\ b = w' -> {a: v, b: w}."""
    out = {}
    parts = re.split(r"(?:^|\n)\s*/\\ ", text)
    for part in parts:
        part = part.strip()
        if not part:
            continue
        name, _, val = part.partition("=")
        out[name.strip()] = parse_value(val.strip())
    if not out and text.strip():
        # single-variable state printed without a conjunction bullet
        name, _, val = text.strip().partition("=")
        out[name.strip()] = parse_value(val.strip())
    return out


_NODE = re.compile(r'^(-?\d+) \[label="((?:[^"\\]|\\.)*)"')
_EDGE = re.compile(r'^(-?\d+) -> (-?\d+) \[label="([^"]*)"')


def unescape(txt):
    return txt.replace("\\n", "\n").replace('\\"', '"').replace("\\\\", "\\")


def read_dot(path, parse=True):
    """Return (states {id: state dict | raw text}, init ids, edges [(src, dst, label)])."""
    states, init, edges = {}, [], []
    with open(path, encoding="utf-8") as fh:
        for line in fh:
            line = line.rstrip("\n")
            m = _EDGE.match(line)
            if m:
                edges.append((int(m.group(1)), int(m.group(2)), m.group(3)))
                continue
            m = _NODE.match(line)
            if m:
                txt = unescape(m.group(2))
                sid = int(m.group(1))
                states[sid] = parse_state(txt) if parse else txt
                if "style = filled" in line:
                    init.append(sid)
    return states, init, edges


def label_parts(label):
    """'Lock(0)' -> ('Lock', [0]);  'Pick(1, 2)' -> ('Pick', [1, 2])."""
    m = re.match(r"(\w+)(?:\((.*)\))?$", label)
    name, args = m.group(1), m.group(2)
    if not args:
        return name, []
    return name, [parse_value(a.strip()) for a in _split_args(args)]


def _split_args(s):
    out, depth, cur = [], 0, []
    i = 0
    while i < len(s):
        c = s[i]
        if c in "<{[(":
            depth += 1
        elif c in ">}])":
            depth -= 1
        if c == "," and depth == 0:
            out.append("".join(cur))
            cur = []
        else:
            cur.append(c)
        i += 1
    if cur:
        out.append("".join(cur))
    return out


def read_sim_traces(prefix_dir):
    """Parse the files written by `-simulate file=<dir>/tr`: list of behaviours,
    each a list of (action_name, state dict)."""
    out = []
    for fn in sorted(os.listdir(prefix_dir)):
        p = os.path.join(prefix_dir, fn)
        if not os.path.isfile(p):
            continue
        beh = []
        with open(p, encoding="utf-8") as fh:
            txt = fh.read()
        # blocks:  \* <Action line ...>  /  STATE_n == \n /\ ...
        for m in re.finditer(r"\\\* (?:<(\w+(?:\([^)]*\))?) line[^>]*>|(Initial predicate))[^\n]*\nSTATE_\d+ == ?\n(.*?)(?=\n\n|\Z)", txt, re.S):
            name = m.group(1) or "Init"
            beh.append((name, parse_state(m.group(3))))
        if beh:
            out.append(beh)
    return out


def run_apalache(module, args, timeout=900, cwd=None):
    """apalache-mc check <args> <module>; returns {"ok": bool, "outcome": str, "wall_s": float, "tail": str}.
    Output goes to a scratch directory that is removed afterwards."""
    import shutil
    import subprocess
    import tempfile
    import time
    out = tempfile.mkdtemp(prefix="apa-")
    path = module if os.path.isabs(module) else os.path.join(SPEC_DIR, module)
    cmd = ["apalache-mc", "check", f"--out-dir={out}"] + list(args) + [path]
    t0 = time.time()
    try:
        pr = subprocess.run(cmd, cwd=cwd or SPEC_DIR, capture_output=True, text=True, timeout=timeout)
        txt = pr.stdout + pr.stderr
        ok = "EXITCODE: OK" in txt
        outcome = "ok" if ok else ("error" if "EXITCODE: ERROR" in txt else "failed")
    except subprocess.TimeoutExpired:
        txt, ok, outcome = "timeout", False, "timeout"
    except FileNotFoundError:
        txt, ok, outcome = "apalache-mc not found", False, "missing"
    finally:
        shutil.rmtree(out, ignore_errors=True)
    return {"ok": ok, "outcome": outcome, "wall_s": round(time.time() - t0, 1), "tail": "\n".join(txt.splitlines()[-8:]),
            "counterexample": "Checker has found an error" in txt}
