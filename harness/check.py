"""Entry point:  python -m harness.check <ID> --tier quick|thorough [--replay FILE]."""

from __future__ import annotations

import argparse
import importlib
import os
import sys

sys.path.insert(0, os.path.dirname(os.path.dirname(os.path.abspath(__file__))))
os.environ.setdefault("PYTHONHASHSEED", "0")

from harness import common  # noqa: E402


def main():
    ap = argparse.ArgumentParser()
    ap.add_argument("pid")
    ap.add_argument("--tier", default=os.environ.get("VERIF_TIER", "quick"), choices=["quick", "thorough"])
    ap.add_argument("--replay", default=None)
    a = ap.parse_args()
    mod = importlib.import_module(f"harness.checks.{a.pid.lower()}")
    return mod.main(a.tier, replay=a.replay)


if __name__ == "__main__":
    common.run_main(main)
