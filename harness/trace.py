"""Turn recorded events into the integer-only JSON the trace specification reads,
run TLC on batches of traces, and map the verdicts back to events."""

from __future__ import annotations

import itertools
import json
import os
import re

from harness import common, tlc


def perm_int(mat):
    """Exact permanent of a small integer matrix (expansion along the first row)."""
    n = len(mat)
    if n == 0:
        return 1
    if n == 1:
        return mat[0][0]
    tot = 0
    for j, v in enumerate(mat[0]):
        if v:
            tot += v * perm_int([row[:j] + row[j + 1:] for row in mat[1:]])
    return tot


class Encoder:
    """Per-batch encoder: keeps the fingerprint and engine-name tables."""

    MAX_PERM_N = 7

    def __init__(self):
        self.fp = {}
        self.eng = {}

    def fpid(self, f):
        """A 16-hex-digit fingerprint as a pair of 28-bit integers (stable across traces)."""
        return [int(f[:7], 16), int(f[7:14], 16)]

    def engid(self, name, idx):
        t = self.eng.setdefault(name, len(self.eng) + 1)
        return t * 1000 + int(idx)

    @staticmethod
    def st(st):
        return {"slot": st["slot"], "lock": st["lock"], "w": st["w"],
                "locked": [[e, p] for e, p in st["locked"]],
                "cstep": st["cstep"], "tsteps": st["tsteps"], "trajnum": st["trajnum"], "toinit": st["toinit"]}

    @staticmethod
    def rec(rec, n):
        if not rec or "error" in rec or rec.get("cstep") is None:
            return {"ok": False, "cstep": -1, "trajnum": -1, "active": [], "locked": [], "frac": [], "steps": -1}
        frac_ok = all(all(q is not None for q in fr) and len(fr) == n for _pn, fr in rec["frac"])
        return {"ok": bool(frac_ok), "cstep": rec["cstep"], "trajnum": rec["trajnum"], "active": rec["active"],
                "locked": [[e, p] for e, p in rec["locked"]], "frac": rec["frac"] if frac_ok else [],
                "steps": rec["steps"]}

    def p_of_draw(self, pre, draw, n_ens, rows, cols):
        """Exact-integer form of the probability vector a draw was made from.

        rows/cols: the idle slots / ensembles (in the pre state) the draw is over.
        Returns {"den", "cells": [[pn, ens, num]], "skipped"}."""
        if len(rows) > self.MAX_PERM_N:
            return {"den": 0, "cells": [], "skipped": True}
        m = [[pre["w"][i][e] for e in cols] for i in rows]
        if any(v < 0 or v > 10 ** 4 for row in m for v in row):
            return {"den": 0, "cells": [], "skipped": True}
        den = perm_int(m)
        if den <= 0 or den > 10 ** 8:
            return {"den": 0, "cells": [], "skipped": den > 10 ** 8}
        return den

    def pick(self, pre, ev):
        n = len(ev["st"]["slot"])
        ng = ev["n"]          # matrix size with the ghost
        out = {"ev": "Pick", "st": self.st(ev["st"]), "pin": ev["pin"], "kind": ev["kind"],
               "ens": ev["ens"], "pns": ev["pns"],
               "eng": sorted({self.engid(k, v) for k, v in ev["eng"]}),
               "folder": int(re.sub(r"\D", "", ev["folder"]) or -1),
               "exe_ok": ev["exe_dirs"] == [ev["folder"]] and ev["folder"] == f"worker{ev['pin']}",
               # per picked ensemble: its move stream, then the engine stream spawned from it (the order they are created in)
               "fps": [self.fpid(f) for pair in zip(ev["fp_move"], ev["fp_eng"]) for f in pair] if len(ev["fp_move"]) == len(ev["fp_eng"])
               else [self.fpid(f) for f in ev["fp_move"] + ev["fp_eng"]],
               "fpmain": self.fpid(ev["fp_main"]),
               "gens_distinct": bool(ev["ens_objs_distinct"]),
               "c1": -1, "p1": {"den": 0, "cells": [], "skipped": True}}
        if ev["kind"] != "reissue" and ev["draws"]:
            d = ev["draws"][0]
            row, col = divmod(int(d["idx"]), ng)
            out["c1"] = int(col)
            lk = [e for e in range(n) if pre["lock"][e] == 1]
            idle = [e for e in range(n) if e not in lk]
            den = self.p_of_draw(pre, d, n, idle, idle)
            if isinstance(den, dict):
                out["p1"] = den
            else:
                cells, ok = [], True
                p = d["p"]
                if len(p) != ng * ng:
                    ok = False
                else:
                    for i in range(ng):
                        for e in range(ng):
                            v = float(p[i * ng + e]) * den * len(idle)   # pick() normalises the whole matrix
                            iv = int(round(v))
                            if abs(v - iv) > 1e-6 * max(1, den):
                                ok = False
                            if iv != 0:
                                if i >= n or e >= n:
                                    ok = False
                                else:
                                    cells.append([pre["slot"][i], e, iv])
                out["p1"] = {"den": den if ok else 0, "cells": cells if ok else [], "skipped": False}
        return out

    def complete(self, pre, ev):
        from harness.sysdrv import to_mu
        n = len(ev["st"]["slot"])
        post = ev["st"]
        dfrac, ok = [], True
        for pn, fr in ev["dfrac"]:
            mus = None if fr is None or len(fr) != n else [to_mu(repr(x)) for x in fr]
            if mus is None or any(q is None for q in mus):
                ok = False
                dfrac.append([pn, [0] * n])
            else:
                dfrac.append([pn, mus])
        # exact form of the credit over the common denominator perm(idle block), when it has one
        dex = {"ok": False, "skipped": True, "den": 0, "rows": []}
        idle = [e for e in range(n) if post["lock"][e] == 0]
        if ok and len(idle) <= self.MAX_PERM_N and all(0 <= v <= 10 ** 4 for row in post["w"] for v in row):
            den = perm_int([[post["w"][i][e] for e in idle] for i in idle])
            if 0 < den <= 10 ** 8:
                dex = {"ok": True, "skipped": False, "den": den, "rows": []}
                for pn, fr in ev["dfrac"]:
                    nums = []
                    for x in fr:
                        v = float(x) * den
                        iv = int(round(v))
                        if abs(v - iv) > 1e-6 * max(1, den):
                            dex["ok"] = False
                        nums.append(iv)
                    dex["rows"].append([pn, nums])
                if not dex["ok"]:
                    dex["rows"] = []
        rows = []
        for r in ev["rows"]:
            rok = all(q is not None for q in r["frac"]) and len(r["frac"]) == n and len(r["w"]) == n and r["ncol"] == 2 * n
            rows.append({"pn": r["pn"], "ok": bool(rok),
                         "frac": r["frac"] if rok else [0] * n,
                         "w": r["w"] if len(r["w"]) == n else [0] * n})
        return {"ev": "Complete", "st": self.st(ev["st"]), "pin": ev["pin"], "acc": bool(ev["acc"]),
                "ens": ev["ens"], "old": ev["old"], "new": ev["new"], "dfrac": dfrac, "dfrac_ok": ok, "dex": dex,
                "rows": rows, "rec": self.rec(ev["rec"], n), "foreign": int(ev.get("foreign", 0)),
                "store": {"checked": bool(ev.get("store", {}).get("checked", False)),
                          "present": [int(x) for x in ev.get("store", {}).get("present", [])],
                          "live_ok": bool(ev.get("store", {}).get("live_ok", True))}}

    def event(self, pre, ev):
        name = ev["ev"]
        n = len(ev["st"]["slot"])
        if name == "Init":
            return {"ev": "Init", "st": self.st(ev["st"]), "seed": int(ev.get("seed", -1))}
        if name == "Restart":
            frac = [[pn, fr] for pn, fr in ev.get("frac", []) if fr is not None and all(q is not None for q in fr)]
            return {"ev": "Restart", "st": self.st(ev["st"]), "frac": frac, "rec": self.rec(ev.get("rec"), n),
                    "rows_on_disk": [int(x) for x in ev.get("rows_on_disk", [])], "clean": bool(ev.get("clean", True))}
        if name == "Finish":
            return {"ev": "Finish", "st": self.st(ev["st"]), "rec": self.rec(ev["rec"], n)}
        if name == "Pick":
            return self.pick(pre, ev)
        if name == "Complete":
            return self.complete(pre, ev)
        raise ValueError(name)


def encode_trace(events):
    """events of one simulation (all its process lifetimes) -> list of JSON dicts."""
    enc = Encoder()
    out, pre = [], None
    for ev in events:
        out.append(enc.event(pre, ev))
        pre = ev["st"]
    return out


_BAD = re.compile(r'<<"BADCLAUSE", (\d+), "(\w+)">>')
_DONE = re.compile(r'<<"TRACE-CONSUMED", (\d+), (\d+)>>')


def write_cfg(path, n, workers):
    with open(path, "w") as fh:
        fh.write(f"SPECIFICATION TSpec\nCONSTANTS\n  N = {n}\n  Workers = {workers}\n"
                 "INVARIANT Report\nCHECK_DEADLOCK FALSE\n")


def validate_batch(args):
    """Run TLC on one batch: (work dir, batch id, n, workers, list of encoded traces).
    Returns dict(bad=[(trace index, event index, clause)], consumed, total, tlc)."""
    work, bid, n, workers, traces = args
    path = os.path.join(work, f"batch{bid}.ndjson")
    index = []
    with open(path, "w") as fh:
        for ti, tr in enumerate(traces):
            for ei, ev in enumerate(tr):
                fh.write(json.dumps(ev, separators=(",", ":")) + "\n")
                index.append((ti, ei))
    cfg = os.path.join(work, f"batch{bid}.cfg")
    write_cfg(cfg, n, workers)
    sub = os.path.join(work, f"tlc{bid}")
    os.makedirs(sub, exist_ok=True)
    res = tlc.run_tlc("TraceInfretis", cfg, workers=1, cwd=sub, env={"TRACE_FILE": path}, coverage=False,
                      timeout=3000, keep_output=True, allow_violation=True, heap="3g")
    out = res.get("output", "")
    bad = [(index[int(m.group(1)) - 1][0], index[int(m.group(1)) - 1][1], m.group(2)) for m in _BAD.finditer(out)]
    done = _DONE.search(out)
    consumed = int(done.group(1)) if done else -1
    ok = res["ok"] and consumed == len(index)
    tail = "" if ok else "\n".join(out.splitlines()[-25:])
    os.remove(path)
    return {"bad": bad, "consumed": consumed, "total": len(index), "ok": ok, "tail": tail,
            "states": res.get("distinct", 0), "generated": res.get("states", 0), "wall_s": res.get("wall_s")}


def _vjob(j):
    return (j[5], j[2], j[3], validate_batch(j[:5]))


def validate(traces_by_key, procs=16):
    """traces_by_key: {(n, workers): [encoded trace, ...]} -> list of results per batch."""
    work = common.tmpdir("trace-")
    jobs = []
    bid = 0
    for (n, workers), traces in traces_by_key.items():
        if not traces:
            continue
        k = max(1, min(procs, len(traces)))
        size = (len(traces) + k - 1) // k
        for i in range(0, len(traces), size):
            jobs.append((work, bid, n, workers, traces[i:i + size], i))
            bid += 1
    try:
        results = common.pmap(_vjob, jobs, procs=min(procs, max(1, len(jobs))))
    finally:
        common.rmtree(work)
    return results
